"""Correspondence between Model/Mbox.v and the real asimap classes: online generation of
multi-session histories, execution on the implementation, translation of every byte the
sessions receive into the model's `resp` datatype, and comparison step by step inside Coq.

Used by the checks of C01..C05 and C13 (each with its own op mix and oracles).
"""
from __future__ import annotations

import calendar
import datetime
import os
import re

import core
from core import cz, clist, cstr, cbool
import world as W

SYSTEM = ["\\Answered", "\\Deleted", "\\Draft", "\\Flagged", "\\Seen"]
KEYWORDS = ["kw1", "kw2", "$Forwarded"]
RESERVED = ["Seen", "unseen", "Deleted", "Recent", "replied", "flagged", "Draft"]
BASE_DATE = calendar.timegm((2024, 1, 1, 10, 0, 0))
SESS = {1: "S1", 2: "S2", 3: "S3"}

MODEL_HDR = """
From Asimap Require Import Base.Res Spec.SetSem Model.Mbox Model.MboxCmp.
Open Scope Z_scope.
Open Scope string_scope.
"""


def fmt_date(epoch: int) -> str:
    d = datetime.datetime.fromtimestamp(epoch, datetime.timezone.utc)
    return d.strftime("%d-%b-%Y %H:%M:%S +0000")


def parse_date(s: str) -> int:
    d = datetime.datetime.strptime(s, "%d-%b-%Y %H:%M:%S %z")
    return int(d.timestamp())


# ------------------------------------------------------------------ Coq encoders
def c_atom(a):
    return "AStar" if a == "*" else f"(ANum {cz(a)})"


def c_elt(e):
    if e == "*":
        return "EStar"
    if isinstance(e, tuple):
        return f"(ERange {c_atom(e[0])} {c_atom(e[1])})"
    return f"(ENum {cz(e)})"


def c_set(s):
    return clist([c_elt(e) for e in s])


def set_text(s):
    def a(x):
        return "*" if x == "*" else str(x)

    return ",".join((f"{a(e[0])}:{a(e[1])}" if isinstance(e, tuple) else a(e)) for e in s)


def c_strs(l):
    return clist([cstr(x) for x in l])


def c_op(op):
    k = op[0]
    if k == "select":
        return f"(OSelect {op[1]} {cstr(op[2])} {cbool(op[3])})"
    if k in ("unselect", "close", "noop", "check", "idle", "done"):
        return f"(O{k.capitalize()} {op[1]})"
    if k == "append":
        return f"(OAppend {op[1]} {cstr(op[2])} {c_strs(op[3])} {cz(op[4])} {cz(op[5])})"
    if k == "store":
        act = {"+": "Add", "-": "Remove", "=": "Replace"}[op[4]]
        return f"(OStore {op[1]} {cbool(op[2])} {c_set(op[3])} {act} {cbool(op[5])} {c_strs(op[6])})"
    if k == "fetch":
        kind = {"flags": "FFlags", "peek": "FBodyPeek", "body": "FBody", "both": "FBoth"}[op[4]]
        return f"(OFetch {op[1]} {cbool(op[2])} {c_set(op[3])} {kind})"
    if k == "search":
        return f"(OSearch {op[1]} {cbool(op[2])} {cstr(op[3])})"
    if k == "expunge":
        return f"(OExpunge {op[1]} {'None' if op[2] is None else '(Some ' + c_set(op[2]) + ')'})"
    if k in ("copy", "move"):
        return f"(O{k.capitalize()} {op[1]} {cbool(op[2])} {c_set(op[3])} {cstr(op[4])})"
    if k == "deliver":
        return f"(ODeliver {cstr(op[1])} {cz(op[2])} {cbool(op[3])} {cz(op[4])} {cz(op[5])})"
    if k == "poll":
        return "OPoll"
    if k == "restart":
        return "ORestart"
    if k == "mkbox":
        return f"(OMkbox {cstr(op[1])})"
    raise ValueError(op)


def c_code(c):
    if c is None:
        return "CNone"
    if c[0] == "rw":
        return "CReadWrite"
    if c[0] == "ro":
        return "CReadOnly"
    if c[0] == "appenduid":
        return f"(CAppendUid {cz(c[1])} {cz(c[2])})"
    if c[0] == "copyuid":
        return f"(CCopyUid {cz(c[1])} {clist([cz(x) for x in c[2]])} {clist([cz(x) for x in c[3]])})"
    raise ValueError(c)


def c_resp(r):
    k = r[0]
    if k == "exists":
        return f"(RExists {cz(r[1])} [])"
    if k == "recent":
        return f"(RRecent {cz(r[1])})"
    if k == "expunge":
        return f"(RExpunge {cz(r[1])})"
    if k == "fetch":
        u = "None" if r[3] is None else f"(Some {cz(r[3])})"
        return f"(RFetch {cz(r[1])} {c_strs(r[2])} {u} 0)"
    if k == "body":
        u = "None" if r[2] is None else f"(Some {cz(r[2])})"
        return f"(RBody {cz(r[1])} {u} {cz(r[3])} {cz(r[4])} 0)"
    if k == "search":
        return f"(RSearch {clist([cz(x) for x in r[1]])})"
    if k == "selinfo":
        u = "None" if r[1] is None else f"(Some {cz(r[1])})"
        return f"(RSelInfo {u} {cz(r[2])} {cz(r[3])} {c_strs(r[4])})"
    if k == "moveok":
        return f"(RMoveOk {c_code(r[1])})"
    if k == "idling":
        return "RIdling"
    if k == "ok":
        return f"(ROk {c_code(r[1])})"
    if k == "no":
        return "RNo"
    if k == "bad":
        return "RBad"
    if k == "other":
        return "(RSearch [(-1)])"  # never produced by the model: forces a mismatch
    raise ValueError(r)


# ------------------------------------------------------------------ bytes -> resp
def expand_uidset(t: str):
    out = []
    for part in t.split(","):
        a, _, b = part.partition(":")
        out += list(range(int(a), int(b or a) + 1))
    return out


def parse_code(text: str):
    m = re.match(r"\[READ-WRITE\]", text)
    if m:
        return ("rw",)
    if text.startswith("[READ-ONLY]"):
        return ("ro",)
    m = re.match(r"\[APPENDUID (\d+) (\d+)\]", text)
    if m:
        return ("appenduid", int(m.group(1)), int(m.group(2)))
    m = re.match(r"\[COPYUID (\d+) (\S+) (\S+)\]", text)
    if m:
        return ("copyuid", int(m.group(1)), expand_uidset(m.group(2)), expand_uidset(m.group(3)))
    return None


RE_BODY = re.compile(
    rb'^\* (\d+) FETCH \(BODY\[HEADER\.FIELDS \(SUBJECT\)\] \{\d+\}\r\nSubject: cid-(\d+)\r\n\r\n INTERNALDATE "([^"]+)"(?: UID (\d+))?\)\r\n$')
# FLAGS and a body item in one FETCH: one response line, two model responses
RE_BOTH = re.compile(
    rb'^\* (\d+) FETCH \(FLAGS \(([^)]*)\) BODY\[HEADER\.FIELDS \(SUBJECT\)\] \{\d+\}\r\nSubject: cid-(\d+)\r\n\r\n INTERNALDATE "([^"]+)"(?: UID (\d+))?\)\r\n$')


def to_resps(chunks: list[bytes]):
    """one session's output of one step -> list of resp tuples"""
    out = []
    sel = None
    for ch in chunks:
        c = W.classify(ch)
        if c[0] == "exists":
            out.append(("exists", c[1]))
        elif c[0] == "recent":
            out.append(("recent", c[1]))
        elif c[0] == "expunge":
            out.append(("expunge", c[1]))
        elif c[0] == "fetchflags":
            out.append(("fetch", c[1], c[2], c[3]))
        elif c[0] == "search":
            out.append(("search", c[1]))
        elif c[0] == "tagged":
            if c[2] == "OK":
                out.append(("ok", parse_code(c[3])))
            else:
                out.append((c[2].lower(),))
        elif c[0] == "fetch":
            m = RE_BODY.match(ch)
            mb = RE_BOTH.match(ch)
            if m:
                out.append(("body", int(m.group(1)), int(m.group(4)) if m.group(4) else None, int(m.group(2)),
                            parse_date(m.group(3).decode())))
            elif mb:
                u = int(mb.group(5)) if mb.group(5) else None
                out.append(("fetch", int(mb.group(1)), sorted(mb.group(2).decode("latin-1").split()), u))
                out.append(("body", int(mb.group(1)), u, int(mb.group(3)), parse_date(mb.group(4).decode())))
            else:
                out.append(("other", ch))
        elif c[0] == "untagged":
            t = ch.decode("latin-1")
            m = re.match(r"^\* OK \[(UNSEEN|UIDVALIDITY|UIDNEXT) (\d+)\]\r\n$", t)
            m2 = re.match(r"^\* FLAGS \((.*)\)\r\n$", t)
            m3 = re.match(r"^\* OK \[PERMANENTFLAGS \(.*\)\]\r\n$", t)
            m4 = re.match(r"^\* OK (\[COPYUID .*\])\r\n$", t)
            if m or m2 or m3:
                if sel is None:
                    sel = {"unseen": None, "vv": -1, "next": -1, "kws": []}
                    out.append(("selinfo", sel))
                if m:
                    sel[{"UNSEEN": "unseen", "UIDVALIDITY": "vv", "UIDNEXT": "next"}[m.group(1)]] = int(m.group(2))
                if m2:
                    sel["kws"] = [f for f in m2.group(1).split() if not f.startswith("\\")]
            elif m4:
                out.append(("moveok", parse_code(m4.group(1))))
            else:
                out.append(("other", ch))
        elif ch == b"+ idling\r\n":
            out.append(("idling",))
        else:
            out.append(("other", ch))
    return [("selinfo", r[1]["unseen"], r[1]["vv"], r[1]["next"], r[1]["kws"]) if r[0] == "selinfo" else r for r in out]


# ------------------------------------------------------------------ running one op on the implementation
def imap_flags(fl):
    return "(" + " ".join(fl) + ")"


def run_op(w: W.World, op):
    """execute one op; returns {sid: [resp...]} for every session that received something"""
    k = op[0]
    s = SESS.get(op[1]) if len(op) > 1 and isinstance(op[1], int) else None
    if k == "mkbox":
        w.cmd("S0", f"x CREATE {op[1]}")
        w.drain("S0")
    elif k == "deliver":
        _, m, n, unseen, cid0, date = op
        mh = w.folder(m)
        keys = []
        for i in range(n):
            key = int(mh.add(W.make_msg(cid0 + i)))
            os.utime(os.path.join(str(w.root / m), str(key)), (date, date))
            keys.append(key)
        if unseen:
            seqs = mh.get_sequences()
            seqs["unseen"] = sorted(set(seqs.get("unseen", [])) | set(keys))
            mh.set_sequences(seqs)
        w.bump_mtime(m)
    elif k == "sdeliver":
        # an MH tool delivers in the same second as the server's last look at the folder: the modification times the
        # server compares are unchanged, its next (optional) resync will not see the messages
        _, m, n, unseen, cid0, date = op
        d = str(w.root / m)
        seqf = os.path.join(d, ".mh_sequences")
        before = (os.stat(d).st_mtime_ns, os.stat(seqf).st_mtime_ns if os.path.exists(seqf) else None)
        mh = w.folder(m)
        keys = []
        for i in range(n):
            key = int(mh.add(W.make_msg(cid0 + i)))
            os.utime(os.path.join(d, str(key)), (date, date))
            keys.append(key)
        if unseen:
            seqs = mh.get_sequences()
            seqs["unseen"] = sorted(set(seqs.get("unseen", [])) | set(keys))
            mh.set_sequences(seqs)
        if before[1] is not None and os.path.exists(seqf):
            os.utime(seqf, ns=(before[1], before[1]))
        os.utime(d, ns=(before[0], before[0]))
    elif k == "poll":
        w.settle(25)
    elif k == "restart":
        names = list(w.sessions)
        w.restart()
        for nm in names:
            w.session(nm)
    elif k == "select":
        w.cmd(s, f"t {'EXAMINE' if op[3] else 'SELECT'} {op[2]}")
    elif k in ("unselect", "close", "noop", "check", "idle"):
        w.cmd(s, f"t {k.upper()}")
    elif k == "done":
        w.cmd(s, "DONE")
    elif k == "append":
        _, _, m, fl, date, cid = op
        lit = W.make_msg(cid)
        w.cmd(s, f't APPEND {m} {imap_flags(fl)} "{fmt_date(date)}" {{{len(lit)}}}\r\n' + lit.decode())
    elif k == "store":
        _, _, uidc, st, act, silent, fl = op
        name = {"+": "+FLAGS", "-": "-FLAGS", "=": "FLAGS"}[act] + (".SILENT" if silent else "")
        w.cmd(s, f"t {'UID ' if uidc else ''}STORE {set_text(st)} {name} {imap_flags(fl)}")
    elif k == "fetch":
        _, _, uidc, st, kind = op
        att = {"flags": "(FLAGS)", "peek": "(BODY.PEEK[HEADER.FIELDS (SUBJECT)] INTERNALDATE)",
               "body": "(BODY[HEADER.FIELDS (SUBJECT)] INTERNALDATE)",
               "both": "(FLAGS BODY[HEADER.FIELDS (SUBJECT)] INTERNALDATE)"}[kind]
        w.cmd(s, f"t {'UID ' if uidc else ''}FETCH {set_text(st)} {att}")
    elif k == "search":
        _, _, uidc, flag = op
        key = {"\\Seen": "SEEN", "\\Deleted": "DELETED", "\\Flagged": "FLAGGED", "\\Answered": "ANSWERED",
               "\\Draft": "DRAFT", "\\Recent": "RECENT"}.get(flag, f"KEYWORD {flag}")
        w.cmd(s, f"t {'UID ' if uidc else ''}SEARCH {key}")
    elif k == "expunge":
        w.cmd(s, "t EXPUNGE" if op[2] is None else f"t UID EXPUNGE {set_text(op[2])}")
    elif k in ("copy", "move"):
        _, _, uidc, st, dst = op
        w.cmd(s, f"t {'UID ' if uidc else ''}{k.upper()} {set_text(st)} {dst}")
    else:
        raise ValueError(op)
    obs = {}
    for sid, name in SESS.items():
        if name in w.sessions:
            chunks = w.proxy(name).take()
            # cmd() already took the issuer's output; it is stashed below
            if chunks:
                obs[sid] = to_resps(chunks)
    return obs


def read_mh_sequences(path):
    """the raw content of .mh_sequences, as an MH tool reads it (python's mailbox.MH silently drops
    numbers of messages that no longer exist, which would hide stale entries)"""
    out = {}
    try:
        with open(path, "r", encoding="latin-1") as f:
            for line in f:
                line = line.strip()
                if not line:
                    continue
                name, sep, rest = line.partition(":")
                if not sep:
                    return {"<error>": [f"line without ':' : {line!r}"]}
                keys = set()
                for spec in rest.split():
                    a, _, b = spec.partition("-")
                    if not a.isdigit() or (b and not b.isdigit()):
                        return {"<error>": [f"bad sequence spec {spec!r} in {line!r}"]}
                    keys.update(range(int(a), int(b or a) + 1))
                if name in out:
                    return {"<error>": [f"sequence {name!r} listed twice"]}
                out[name] = sorted(keys)
    except OSError as e:
        return {"<error>": [repr(e)]}
    return out


class History:
    """generates ops online against a running world, recording ops and observations"""

    def __init__(self, rng, nsess=2, mix=None, pack=None, boxes=("inbox", "work")):
        self.rng = rng
        self.nsess = nsess
        self.mix = mix or {}
        self.boxes = list(boxes)
        self.pack = pack or (100, 4, 5)
        self.ops = []
        self.obs = []  # per step: {sid: [resp]}
        self.next_cid = 1
        self.idle = {i: False for i in range(1, nsess + 1)}
        self.selected = {i: None for i in range(1, nsess + 1)}
        self.gated = {i: 0 for i in range(1, nsess + 1)}
        self.reselect = {i: 0 for i in range(1, nsess + 1)}
        self.size_hint = {b: 0 for b in self.boxes}
        self.snaps = []  # per step: (before, after) white-box snapshots, for the property oracles
        self.final = []

    def snapshot(self, w):
        boxes = {}
        for b in self.boxes:
            mb = w.server.active_mailboxes.get(b)
            if mb is not None:
                cids, dates = [], []
                for key in mb.msg_keys:
                    try:
                        path = os.path.join(str(w.root / b), str(key))
                        with open(path, "rb") as f:
                            head = f.read(400)
                        mm = re.search(rb"Subject: cid-(\d+)", head)
                        cids.append(int(mm.group(1)) if mm else -1)
                        dates.append(int(os.path.getmtime(path)))
                    except OSError:
                        cids.append(-2)
                        dates.append(-2)
                fileseqs = read_mh_sequences(str(w.root / b / ".mh_sequences"))
                try:
                    diskkeys = sorted(int(x) for x in os.listdir(str(w.root / b)) if x.isdigit())
                except OSError:
                    diskkeys = []
                boxes[b] = {"uids": list(mb.uids), "keys": list(mb.msg_keys), "cids": cids, "dates": dates,
                            "fileseqs": fileseqs, "diskkeys": diskkeys,
                            "seqs": {k: sorted(v) for k, v in mb.sequences.items() if v},
                            "next": mb.next_uid, "vv": mb.uid_vv}
        sess = {}
        for i in range(1, self.nsess + 1):
            h = w.handler(SESS[i])
            sess[i] = {"sel": h.mbox.name if h.mbox is not None else None, "idle": bool(h.idling),
                       "exam": bool(getattr(h, "examine", False)),
                       "pend_expunge": any("EXPUNGE" in x for x in h.pending_notifications),
                       "pend": len(h.pending_notifications)}
        return {"boxes": boxes, "sess": sess}

    # ---- random pieces
    def rset(self, n, uid=False):
        rng = self.rng
        hi = max(n, 1) + (3 if uid else 1)

        def atom():
            return "*" if rng.random() < 0.2 else rng.randint(1, hi if rng.random() < 0.25 else max(n, 1))

        els = []
        for _ in range(rng.choice([1, 1, 1, 2, 2, 3])):
            if rng.random() < 0.45:
                els.append((atom(), atom()))
            else:
                els.append(atom())
        return els

    def ruidset(self, s, prefer_deleted=False):
        """a UID set built from the UIDs the selected mailbox really has (sparse after expunges), with
        some that do not exist, duplicates and ranges"""
        rng = self.rng
        snap = self.snaps[-1][1] if self.snaps and self.snaps[-1][1] else None
        box = self.selected.get(s)
        st = snap["boxes"].get(box) if snap and box else None
        if not st or not st["uids"] or rng.random() < 0.25:
            return self.rset(self.size_hint.get(box or "inbox", 0), True)
        uids = st["uids"]
        pool = list(uids)
        if prefer_deleted:
            dk = set(st["seqs"].get("Deleted", []))
            d = [u for u, k in zip(st["uids"], st["keys"]) if k in dk]
            if d:
                pool = d * 3 + pool
        els = []
        for _ in range(rng.choice([1, 1, 2, 2, 3])):
            r = rng.random()
            a = rng.choice(pool)
            if r < 0.55:
                els.append(a)
            elif r < 0.8:
                b = rng.choice(pool + ["*"])
                els.append((a, b))
            else:
                els.append(rng.choice([uids[-1] + rng.randint(1, 3), max(1, a - 1), "*"]))
        return els

    def rflags(self):
        rng = self.rng
        pool = SYSTEM * 3 + KEYWORDS * 2
        fl = rng.sample(pool, rng.choice([1, 1, 2, 2, 3]))
        fl = list(dict.fromkeys(fl))
        r = rng.random()
        if r < 0.04:
            fl.append(rng.choice(RESERVED))
        elif r < 0.07:
            fl.append("\\Recent")
        return fl

    def choose(self):
        rng = self.rng
        base = {"select": 6, "unselect": 1, "close": 2, "noop": 7, "check": 2, "idle": 3, "append": 7, "store": 12,
                "fetch": 9, "search": 3, "expunge": 7, "copy": 4, "move": 3, "deliver": 5, "poll": 3}
        base.update(self.mix)
        kinds = list(base)
        # steer towards the interesting situation: somebody has EXPUNGEs queued -> make its mailbox grow
        snap = self.snaps[-1][1] if self.snaps and self.snaps[-1][1] else None
        if snap and rng.random() < 0.5:
            waiting = [(sid, st["sel"]) for sid, st in snap["sess"].items() if st["pend_expunge"] and st["sel"]]
            if waiting:
                sid, box = rng.choice(waiting)
                others = [i for i in self.idle if i != sid and not self.idle[i]]
                r = rng.random()
                if r < 0.45 and others:
                    cid = self.next_cid
                    self.next_cid += 1
                    return ("append", rng.choice(others), box, [], BASE_DATE + 3600 * rng.randint(0, 200), cid)
                if r < 0.75:
                    cid = self.next_cid
                    nn = rng.choice([1, 2])
                    self.next_cid += nn
                    return ("deliver", box, nn, rng.random() < 0.7, cid, BASE_DATE + 3600 * rng.randint(0, 200))
                if r < 0.9:
                    return ("poll",)
        s = rng.randint(1, self.nsess)
        if self.idle[s]:
            if rng.random() < 0.5:
                return ("done", s)
            others = [i for i in self.idle if not self.idle[i]]
            if not others:
                return ("done", s)
            s = rng.choice(others)
        if self.gated[s] >= 2:
            return ("noop", s)
        k = rng.choices(kinds, [base[x] for x in kinds])[0]
        # mostly-valid input: a command that needs a selected mailbox, issued by a session that has none, is
        # answered NO and exercises nothing; keep one in seven of those, turn the rest into a SELECT
        if self.selected[s] is None and base.get("select") and rng.random() < 0.85 and \
                k in ("store", "fetch", "search", "expunge", "copy", "move", "close", "unselect", "check", "idle"):
            k = "select"
        n = self.size_hint.get(self.selected[s] or "inbox", 0)
        if k == "select":
            m = rng.choice(self.boxes + ["INBOX"] + (["nosuch"] if rng.random() < 0.1 else []))
            if self.selected[s] is not None and self.reselect[s] >= 6:
                return ("unselect", s)
            return ("select", s, m, rng.random() < 0.2)
        if k in ("unselect", "close", "noop", "check", "idle"):
            return (k, s)
        if k == "append":
            cid = self.next_cid
            self.next_cid += 1
            m = rng.choice(self.boxes + (["nosuch"] if rng.random() < 0.05 else []))
            fl = self.rflags() if rng.random() < 0.6 else []
            fl = [f for f in fl if f != "\\Recent"]
            return ("append", s, m, fl, BASE_DATE + 3600 * rng.randint(0, 200), cid)
        if k == "store":
            uidc = rng.random() < 0.4
            # one store in twelve has an empty flag list: "FLAGS ()" clears everything, "+FLAGS ()" changes nothing
            fl = [] if rng.random() < 0.08 else self.rflags()
            return ("store", s, uidc, self.ruidset(s) if uidc else self.rset(n), rng.choice("+-="), rng.random() < 0.3, fl)
        if k == "fetch":
            uidc = rng.random() < 0.4
            return ("fetch", s, uidc, self.ruidset(s) if uidc else self.rset(n), rng.choice(["flags", "flags", "peek", "body", "both"]))
        if k == "search":
            return ("search", s, rng.random() < 0.4, rng.choice(SYSTEM + KEYWORDS + ["\\Recent"]))
        if k == "expunge":
            return ("expunge", s, self.ruidset(s, prefer_deleted=True) if rng.random() < 0.4 else None)
        if k in ("copy", "move"):
            uidc = rng.random() < 0.4
            dst = rng.choice(self.boxes + (["nosuch"] if rng.random() < 0.05 else []))
            return (k, s, uidc, self.ruidset(s) if uidc else self.rset(n), dst)
        if k == "deliver":
            cid = self.next_cid
            nn = rng.choice([1, 1, 2, 3])
            self.next_cid += nn
            return ("deliver", rng.choice(self.boxes), nn, rng.random() < 0.7, cid, BASE_DATE + 3600 * rng.randint(0, 200))
        if k == "sdeliver":
            cid = self.next_cid
            nn = rng.choice([1, 1, 2])
            self.next_cid += nn
            return ("sdeliver", rng.choice(self.boxes), nn, rng.random() < 0.7, cid, BASE_DATE + 3600 * rng.randint(0, 200))
        if k == "poll":
            return ("poll",)
        if k == "restart":
            return ("restart",)
        raise ValueError(k)

    def note(self, w, op, obs):
        """update the generator's view of the world from what happened"""
        k = op[0]
        s = op[1] if len(op) > 1 and isinstance(op[1], int) else None
        mine = obs.get(s, []) if s else []
        last = mine[-1] if mine else None
        if k == "select":
            if last and last[0] == "ok":
                self.reselect[s] = self.reselect[s] + 1 if self.selected[s] == op[2].lower() else 0
                self.selected[s] = "inbox" if op[2].lower() == "inbox" else op[2]
            else:
                self.selected[s] = None
        elif k in ("unselect", "close") and last and last[0] == "ok":
            self.selected[s] = None
        elif k == "idle":
            self.idle[s] = True
        elif k == "done":
            self.idle[s] = False
        elif k == "restart":
            for i in self.idle:
                self.idle[i] = False
                self.selected[i] = None
                self.gated[i] = 0
                self.reselect[i] = 0
        if k == "fetch" and last == ("no",):
            self.gated[s] += 1
        elif s:
            self.gated[s] = 0
        for b in self.boxes:
            mb = w.server.active_mailboxes.get(b)
            if mb is not None:
                self.size_hint[b] = len(mb.msg_keys)

    def run(self, w: W.World, nops: int, setup=True):
        w.session("S0")
        for i in range(1, self.nsess + 1):
            w.session(SESS[i])
        if setup:
            # activate inbox first so that it gets the first UIDVALIDITY, as in the model
            w.cmd("S0", "x STATUS inbox (MESSAGES)")
            w.drain("S0")
            for b in self.boxes:
                if b != "inbox":
                    op = ("mkbox", b)
                    self.ops.append(op)
                    self.obs.append(run_op(w, op))
                    self.snaps.append((None, None))
        for _ in range(nops):
            op = self.choose()
            issuer = SESS.get(op[1]) if len(op) > 1 and isinstance(op[1], int) else None
            # run, collecting the issuer's own output (cmd() returns it) and everyone else's
            pre = self.snapshot(w)
            obs = self._run(w, op, issuer)
            self.ops.append(op)
            self.obs.append(obs)
            self.snaps.append((pre, self.snapshot(w)))
            self.note(w, op, obs)
        self.final = self.probe(w)

    def probe(self, w):
        """read-only probes at the end of a history: FETCH FLAGS and SEARCH by each flag from a fresh
        EXAMINE session must agree with the mailbox's own state (white box) and with each other"""
        bad = []
        for i in range(1, self.nsess + 1):
            if w.handler(SESS[i]).idling:
                w.cmd(SESS[i], "DONE")
        for b in self.boxes:
            out = w.cmd("S0", f"p EXAMINE {b}")
            if not out or not out[-1].startswith(b"p OK"):
                continue
            mb = w.server.active_mailboxes.get(b)
            want = {}
            for key, uid in zip(mb.msg_keys, mb.uids):
                want[uid] = sorted({"\\Answered" if n == "replied" else "\\Flagged" if n == "flagged" else
                                    ("\\" + n) if n in ("Deleted", "Draft", "Recent", "Seen") else n
                                    for n, ks in mb.sequences.items() if key in ks})
            got = {}
            for ch in w.cmd("S0", "p UID FETCH 1:* (FLAGS)"):
                c = W.classify(ch)
                if c[0] == "fetchflags":
                    got[c[3]] = c[2]
            if got != want:
                bad.append(f"{b}: FETCH FLAGS {got} differs from the mailbox state {want}")
            for uid, fl in got.items():
                if ("unseen" in fl) == ("\\Seen" in fl):
                    bad.append(f"{b}: UID {uid} reports {fl}: \\Seen and unseen are not complements")
            allflags = sorted({f for fl in got.values() for f in fl})
            for f in allflags:
                key = {"\\Seen": "SEEN", "\\Deleted": "DELETED", "\\Flagged": "FLAGGED", "\\Answered": "ANSWERED",
                       "\\Draft": "DRAFT", "\\Recent": "RECENT"}.get(f, f"KEYWORD {f}")
                res = None
                for ch in w.cmd("S0", f"p UID SEARCH {key}"):
                    c = W.classify(ch)
                    if c[0] == "search":
                        res = sorted(c[1])
                exp = sorted(u for u, fl in got.items() if f in fl)
                if res != exp:
                    bad.append(f"{b}: UID SEARCH {key} = {res} but FETCH FLAGS shows it on {exp}")
            w.cmd("S0", "p UNSELECT")
        return bad

    def _run(self, w, op, issuer):
        # run_op drains every session afterwards; cmd() inside it has already taken the issuer's
        # output, so wrap proxy.take to keep it
        if issuer is None:
            return run_op(w, op)
        px = w.proxy(issuer)
        kept = []
        orig = px.take

        def take():
            o = orig()
            kept.extend(o)
            return o

        px.take = take
        try:
            obs = run_op(w, op)
        finally:
            px.take = orig
        sid = op[1]
        obs[sid] = to_resps(kept)
        return obs


# ------------------------------------------------------------------ comparison inside Coq
def case_text(h: History, idx: int) -> str:
    ops = clist([c_op(o) for o in h.ops])
    steps = []
    for ob in h.obs:
        items = []
        for sid in sorted(ob):
            for r in ob[sid]:
                items.append(f"({sid}, {c_resp(r)})")
        steps.append(clist(items))
    ps, pn, pd = h.pack
    return (f"Definition ops_{idx} : list op := {ops}.\n"
            f"Definition obs_{idx} : list out := {clist(steps)}.\n"
            f"Definition res_{idx} := first_diff (init_world {ps} {pn} {pd}) ops_{idx} obs_{idx} 0.\n")


def compare(ctx, name: str, hs: list[History], extra_eval=None):
    """returns list of (history index, step index, model output text) for mismatches"""
    if not hs:
        return []
    per = 6
    texts = []
    groups = [list(range(i, min(i + per, len(hs)))) for i in range(0, len(hs), per)]
    for g in groups:
        t = MODEL_HDR
        for i in g:
            t += case_text(hs[i], i)
        t += "Eval vm_compute in " + clist([f"fst res_{i}" for i in g]) + ".\n"
        if extra_eval:
            t += extra_eval(g)
        texts.append(t)
    outs = ctx.coq.eval_many(name, texts, timeout=1200)
    bad = []
    extras = []
    for g, out in zip(groups, outs):
        vals = core.parse_coq_values(out)
        idxs = [int(x) for x in re.findall(r"-?\d+", vals[0])]
        for i, step in zip(g, idxs):
            if step >= 0:
                bad.append((i, step))
        extras.append(vals[1:])
    return bad, extras


def model_output_at(ctx, h: History, step: int) -> str:
    """the model's output at one step, as Coq prints it (for the replay file)"""
    t = MODEL_HDR + case_text(h, 0)
    t += f"Eval vm_compute in (nth {step} (map canon_out (snd (run (init_world {h.pack[0]} {h.pack[1]} {h.pack[2]}) ops_0))) []).\n"
    try:
        out = ctx.coq.eval_cases("mboxdiag", t, timeout=300)
        return core.parse_coq_values(out)[0]
    except Exception as e:  # diagnostics only
        return f"<unavailable: {e}>"


# ------------------------------------------------------------------ parallel generation
def _worker(args):
    seed, nops, nsess_choices, mix, pack, boxes = args
    import random

    rng = random.Random(seed)
    h = History(rng, nsess=rng.choice(nsess_choices), mix=mix, pack=pack, boxes=boxes)
    w = W.World(seed=seed, pack_limits=(pack[0], pack[1] / pack[2]) if pack else None)
    try:
        h.run(w, nops)
        err = None
    except Exception as e:  # the implementation (or the driver) blew up: keep what we have
        import traceback

        err = traceback.format_exc()[-1500:]
    finally:
        w.close()
    h.rng = None
    h.error = err
    h.seed = seed
    return h


def generate(ctx, n, nops, nsess_choices=(1, 2, 2, 3), mix=None, pack=None, boxes=("inbox", "work")):
    import multiprocessing as mp

    seeds = [ctx.rng.randrange(1 << 30) for _ in range(n)]
    args = [(sd, nops, nsess_choices, mix, pack, boxes) for sd in seeds]
    with mp.get_context("fork").Pool(min(core.NPROC, max(1, n))) as pool:
        return pool.map(_worker, args, chunksize=1)


# ------------------------------------------------------------------ C01 oracle on the implementation's own streams
def replay_oracle(h: History):
    """replays EXISTS/EXPUNGE/FETCH per session (by count) and checks the property's clauses on
    the bytes the implementation actually sent.  Returns a list of (step, description)."""
    bad = []
    count = {}
    for k, (op, obs) in enumerate(zip(h.ops, h.obs)):
        issuer = op[1] if len(op) > 1 and isinstance(op[1], int) else None
        pre, post = h.snaps[k]
        for sid, rs in obs.items():
            if op[0] == "select" and sid == issuer:
                count.pop(sid, None)
                for r in rs:
                    if r[0] == "exists":
                        count[sid] = r[1]
                continue
            if sid not in count:
                continue
            for r in rs:
                if r[0] == "exists":
                    if r[1] < count[sid]:
                        bad.append((k, f"session {sid}: EXISTS {r[1]} below the replayed count {count[sid]}"))
                    count[sid] = r[1]
                elif r[0] == "expunge":
                    if not (1 <= r[1] <= count[sid]):
                        bad.append((k, f"session {sid}: EXPUNGE {r[1]} outside the replayed view of {count[sid]}"))
                    else:
                        count[sid] -= 1
                    if sid == issuer and op[0] in ("fetch", "store", "search") and not op[2]:
                        bad.append((k, f"session {sid}: EXPUNGE sent during its own non-UID {op[0].upper()}"))
                elif r[0] in ("fetch", "body"):
                    if not (1 <= r[1] <= count[sid]):
                        bad.append((k, f"session {sid}: FETCH {r[1]} outside the replayed view of {count[sid]}"))
        if issuer is not None and op[0] in ("unselect", "close") and obs.get(issuer) and obs[issuer][-1][0] == "ok":
            count.pop(issuer, None)
        if op[0] == "select" and issuer in count and not (obs.get(issuer) and obs[issuer][-1][0] == "ok"):
            count.pop(issuer, None)
        # after a flush the view equals the server's list
        if issuer in count and op[0] in ("noop", "check", "done") and post and post["sess"][issuer]["sel"]:
            box = post["sess"][issuer]["sel"]
            n = len(post["boxes"][box]["uids"]) if box in post["boxes"] else None
            if n is not None and n != count[issuer]:
                bad.append((k, f"session {issuer}: after {op[0].upper()} the replayed view has {count[issuer]} messages, the server {n}"))
    return bad


def d1_condition(h: History) -> bool:
    """some session had EXPUNGEs queued while its mailbox grew"""
    for k in range(len(h.ops)):
        pre, post = h.snaps[k]
        if not pre:
            continue
        for sid, st in pre["sess"].items():
            if st["pend_expunge"] and st["sel"] in pre["boxes"] and st["sel"] in post["boxes"]:
                if set(post["boxes"][st["sel"]]["uids"]) - set(pre["boxes"][st["sel"]]["uids"]):
                    return True
    return False


# ------------------------------------------------------------------ C02 / C03 oracles on the implementation
def uid_oracle(h: History):
    """UID order / UIDNEXT / UIDVALIDITY / no reuse / APPENDUID / COPYUID, from white-box snapshots
    and from the bytes sent.  Returns [(step, description)]."""
    bad = []
    ledger = {}      # (box, vv, uid) -> cid
    dates = {}       # (box, vv, uid) -> date
    prev = {}        # box -> snapshot
    vvs = {}
    for k, (op, obs) in enumerate(zip(h.ops, h.obs)):
        pre, post = h.snaps[k]
        if not post:
            continue
        for box, st in post["boxes"].items():
            u = st["uids"]
            if any(a >= b for a, b in zip(u, u[1:])):
                bad.append((k, f"{box}: UIDs not strictly ascending: {u}"))
            if u and u[-1] >= st["next"]:
                bad.append((k, f"{box}: UIDNEXT {st['next']} not above the UIDs {u}"))
            if len(st["keys"]) != len(u):
                bad.append((k, f"{box}: {len(st['keys'])} message files but {len(u)} UIDs"))
            p = prev.get(box)
            if p is not None:
                if st["vv"] != p["vv"]:
                    bad.append((k, f"{box}: UIDVALIDITY changed {p['vv']} -> {st['vv']}"))
                if st["next"] < p["next"]:
                    bad.append((k, f"{box}: UIDNEXT decreased {p['next']} -> {st['next']}"))
                for x in u:
                    if x not in p["uids"] and x < p["next"]:
                        bad.append((k, f"{box}: UID {x} assigned although UIDNEXT was already {p['next']}"))
            for x, c, d in zip(u, st["cids"], st["dates"]):
                key = (box, st["vv"], x)
                if key in ledger and ledger[key] != c:
                    bad.append((k, f"{box}: UID {x} named content {ledger[key]} before and names {c} now"))
                if key in dates and dates[key] != d:
                    bad.append((k, f"{box}: UID {x} had internal date {dates[key]} and has {d} now"))
                ledger.setdefault(key, c)
                dates.setdefault(key, d)
            prev[box] = st
            vvs[box] = st["vv"]
        if len(set(vvs.values())) != len(vvs):
            bad.append((k, f"two mailboxes share a UIDVALIDITY: {vvs}"))
        issuer = op[1] if len(op) > 1 and isinstance(op[1], int) else None
        mine = obs.get(issuer, []) if issuer else []
        last = mine[-1] if mine else None
        if op[0] == "append" and last and last[0] == "ok" and last[1] and last[1][0] == "appenduid":
            box = "inbox" if op[2].lower() == "inbox" else op[2]
            st = post["boxes"].get(box)
            if st:
                _, vv, uid = last[1]
                if vv != st["vv"] or uid not in st["uids"] or st["cids"][st["uids"].index(uid)] != op[5]:
                    bad.append((k, f"APPENDUID {vv} {uid} does not name the appended message (cid {op[5]}) in {box}"))
        if op[0] in ("copy", "move") and pre:
            code = None
            for r in mine:
                if r[0] in ("ok", "moveok") and r[1] and r[1][0] == "copyuid":
                    code = r[1]
            if code:
                src_box = pre["sess"][issuer]["sel"]
                dbox = "inbox" if op[4].lower() == "inbox" else op[4]
                sp, dp = pre["boxes"].get(src_box), post["boxes"].get(dbox)
                if sp and dp:
                    _, vv, su, du = code
                    okc = (vv == dp["vv"] and len(su) == len(du) and all(x in dp["uids"] for x in du))
                    if okc:
                        # the source list may have grown by a resync inside the command: look the UID up where it is known
                        src_known = dict(zip(sp["uids"], sp["cids"]))
                        src_known.update(dict(zip(post["boxes"].get(src_box, sp)["uids"], post["boxes"].get(src_box, sp)["cids"])))
                        for a, b in zip(su, du):
                            if a in src_known and src_known[a] != dp["cids"][dp["uids"].index(b)]:
                                okc = False
                    if not okc:
                        bad.append((k, f"COPYUID {vv} {su} {du} does not pair source and destination messages"))
        if op[0] == "select" and mine:
            for r in mine:
                if r[0] == "selinfo":
                    box = post["sess"][issuer]["sel"]
                    st = post["boxes"].get(box) if box else None
                    if st and (r[2] != st["vv"] or r[3] != st["next"]):
                        bad.append((k, f"SELECT told UIDVALIDITY {r[2]} UIDNEXT {r[3]}, the mailbox has {st['vv']} {st['next']}"))
                    if st and any(bx == box and u_ >= r[3] for (bx, vv_, u_) in ledger if vv_ == st["vv"]):
                        bad.append((k, f"SELECT told UIDNEXT {r[3]} although a higher UID was already assigned"))
    return bad


def binding_oracle(h: History):
    """every body fetch shows the content and internal date bound to that position/UID"""
    bad = []
    for k, (op, obs) in enumerate(zip(h.ops, h.obs)):
        pre, post = h.snaps[k]
        if not post or op[0] != "fetch":
            continue
        issuer = op[1]
        box = post["sess"][issuer]["sel"]
        st = post["boxes"].get(box) if box else None
        if not st:
            continue
        for r in obs.get(issuer, []):
            if r[0] == "body":
                _, n, uid, cid, date = r
                if not (1 <= n <= len(st["uids"])):
                    bad.append((k, f"FETCH {n} outside the mailbox"))
                    continue
                if cid != st["cids"][n - 1] or date != st["dates"][n - 1] or (uid is not None and uid != st["uids"][n - 1]):
                    bad.append((k, f"FETCH {n}: content {cid}/date {date}/UID {uid} but the mailbox holds "
                                   f"{st['cids'][n - 1]}/{st['dates'][n - 1]}/{st['uids'][n - 1]} there"))
    return bad


def packs_seen(h: History) -> int:
    n = 0
    for pre, post in h.snaps:
        if not pre or not post:
            continue
        for box, st in post["boxes"].items():
            p = pre["boxes"].get(box)
            if p and p["uids"] == st["uids"] and p["keys"] != st["keys"]:
                n += 1
    return n


# ------------------------------------------------------------------ C04 / C05 / C13 oracles
SYS_SEQ = {"replied": "\\Answered", "flagged": "\\Flagged", "Deleted": "\\Deleted", "Draft": "\\Draft",
           "Recent": "\\Recent", "Seen": "\\Seen"}


def flag_oracle(h: History):
    bad = []
    for k, (op, obs) in enumerate(zip(h.ops, h.obs)):
        pre, post = h.snaps[k]
        if not post:
            continue
        for box, st in post["boxes"].items():
            keys = set(st["keys"])
            seen, unseen = set(st["seqs"].get("Seen", [])), set(st["seqs"].get("unseen", []))
            if (seen | unseen) != keys or (seen & unseen):
                bad.append((k, f"{box}: Seen {sorted(seen)} and unseen {sorted(unseen)} are not complements over {sorted(keys)}"))
        for sid, rs in obs.items():
            for r in rs:
                if r[0] == "fetch" and (("unseen" in r[2]) == ("\\Seen" in r[2])):
                    bad.append((k, f"session {sid}: FETCH {r[1]} reports {r[2]}: \\Seen and unseen not complements"))
        # \Recent out of a client's reach: a STORE never changes who is \Recent
        if op[0] == "store" and pre:
            box = pre["sess"][op[1]]["sel"]
            if box in pre["boxes"] and box in post["boxes"]:
                a = set(pre["boxes"][box]["seqs"].get("Recent", []))
                b = set(post["boxes"][box]["seqs"].get("Recent", [])) & set(pre["boxes"][box]["keys"])
                if a != b:
                    bad.append((k, f"{box}: STORE changed the \\Recent set {sorted(a)} -> {sorted(b)}"))
    for d in h.final:
        bad.append((len(h.ops) - 1, "final probe: " + d))
    return bad


def exact_oracle(h: History):
    bad = []
    for k, (op, obs) in enumerate(zip(h.ops, h.obs)):
        pre, post = h.snaps[k]
        if not pre or not post or op[0] == "restart":
            continue
        issuer = op[1] if len(op) > 1 and isinstance(op[1], int) else None
        mine = obs.get(issuer, []) if issuer else []
        last = mine[-1] if mine else None
        selbox = pre["sess"][issuer]["sel"] if issuer else None
        for box, p in pre["boxes"].items():
            q = post["boxes"].get(box)
            if q is None:
                continue
            removed = [u for u in p["uids"] if u not in q["uids"]]
            deleted = {p["uids"][p["keys"].index(key)] for key in p["seqs"].get("Deleted", []) if key in p["keys"]}
            if removed:
                if not (op[0] in ("expunge", "close", "move") and box == selbox):
                    bad.append((k, f"{box}: messages {removed} disappeared during {op[0].upper()}"))
                elif op[0] in ("expunge", "close") and not set(removed) <= deleted:
                    bad.append((k, f"{box}: {op[0].upper()} removed {removed}, only {sorted(deleted)} were \\Deleted"))
            if op[0] == "expunge" and op[2] is None and box == selbox and last and last[0] == "ok" \
                    and not pre["sess"][issuer]["exam"] and set(removed) != deleted:
                bad.append((k, f"{box}: EXPUNGE removed {removed} but \\Deleted were {sorted(deleted)}"))
            if op[0] == "move" and box == selbox:
                code = [r[1] for r in mine if r[0] == "moveok"]
                want = set(code[0][2]) if code else set()
                # messages taken in by the resync inside the command may be among the copied ones
                if set(removed) != (want & set(p["uids"])) or (want & set(q["uids"])):
                    bad.append((k, f"{box}: MOVE removed {removed} but copied {sorted(want)} (left: {q['uids']})"))
            # flags of surviving messages may only change through STORE / FETCH / resync of that box
            if issuer and box == selbox and pre["sess"][issuer]["exam"] and op[0] in ("store", "fetch", "expunge", "close", "move", "search"):
                for name in set(p["seqs"]) | set(q["seqs"]):
                    a = set(p["seqs"].get(name, [])) & set(p["keys"])
                    b = set(q["seqs"].get(name, [])) & set(p["keys"])
                    if a != b or removed:
                        bad.append((k, f"{box}: a read-only (EXAMINE) session changed sequence {name}: {sorted(a)} -> {sorted(b)} / removed {removed}"))
                        break
            if last in (("no",), ("bad",)) and op[0] not in ("expunge",):
                if q["uids"][:len(p["uids"])] != p["uids"]:
                    bad.append((k, f"{box}: a refused {op[0].upper()} changed the message list {p['uids']} -> {q['uids']}"))
                for name in set(p["seqs"]) | set(q["seqs"]):
                    a = set(p["seqs"].get(name, [])) & set(p["keys"])
                    b = set(q["seqs"].get(name, [])) & set(p["keys"])
                    if a != b and p["keys"] == q["keys"][:len(p["keys"])]:
                        bad.append((k, f"{box}: a refused {op[0].upper()} changed sequence {name}: {sorted(a)} -> {sorted(b)}"))
                        break
        # COPY/MOVE/APPEND add one message per source message with the same flags (+\Recent) and date
        if op[0] in ("copy", "move"):
            code = [r[1] for r in mine if r[0] in ("ok", "moveok") and r[1] and r[1][0] == "copyuid"]
            if code:
                _, vv, su, du = code[0]
                dbox = "inbox" if op[4].lower() == "inbox" else op[4]
                sp, dq = pre["boxes"].get(selbox), post["boxes"].get(dbox)
                sq = post["boxes"].get(selbox)
                if sp and dq:
                    for a, b in zip(su, du):
                        src = sp if a in sp["uids"] else sq
                        if not src or a not in src["uids"] or b not in dq["uids"]:
                            continue
                        ka, kb = src["keys"][src["uids"].index(a)], dq["keys"][dq["uids"].index(b)]
                        fa = {n for n, ks in src["seqs"].items() if ka in ks} | {"Recent"}
                        fb = {n for n, ks in dq["seqs"].items() if kb in ks}
                        da, db_ = src["dates"][src["uids"].index(a)], dq["dates"][dq["uids"].index(b)]
                        if fa != fb or da != db_:
                            bad.append((k, f"copy of UID {a} -> {dbox} UID {b}: flags {sorted(fa)} -> {sorted(fb)}, date {da} -> {db_}"))
    return bad


def mh_oracle(h: History):
    """the folder's .mh_sequences as an MH tool reads it vs what the IMAP sessions see"""
    bad = []
    for k, (op, obs) in enumerate(zip(h.ops, h.obs)):
        pre, post = h.snaps[k]
        if not post or op[0] in ("deliver",):
            continue
        for box, st in post["boxes"].items():
            fs = st["fileseqs"]
            if "<error>" in fs:
                bad.append((k, f"{box}: .mh_sequences cannot be read: {fs['<error>']}"))
                continue
            keys = set(st["keys"])
            disk = set(st["diskkeys"])
            for name, ks in fs.items():
                ghost = [x for x in ks if x not in disk]
                if ghost:
                    bad.append((k, f"{box}: .mh_sequences lists {name}: {ghost} but those messages do not exist"))
            for name in set(fs) | set(st["seqs"]):
                a = set(fs.get(name, [])) & keys
                b = set(st["seqs"].get(name, [])) & keys
                if a != b:
                    bad.append((k, f"{box}: .mh_sequences has {name}={sorted(a)}, the IMAP sessions see {sorted(b)}"))
    return bad
