"""In-process driver of the real asimap classes under a virtual clock.

The code under test is always imported from core.REPO (default /repo).
"""
from __future__ import annotations

import asyncio
import logging
import mailbox
import os
import random
import re
import shutil
import sys
import tempfile
import time as _real_time
from pathlib import Path

import core

if str(core.REPO) not in sys.path:
    sys.path.insert(0, str(core.REPO))

logging.disable(logging.CRITICAL)


# ----------------------------------------------------------------- virtual time
class _VSelector:
    """Wraps the loop's selector: when the loop would sleep until its next timer and
    no thread job is outstanding, advance virtual time instead of sleeping."""

    def __init__(self, inner, loop):
        self._inner = inner
        self._loop = loop

    def select(self, timeout=None):
        lp = self._loop
        if timeout is not None and timeout <= 0:
            return self._inner.select(0)
        if lp._outstanding > 0:
            ev = self._inner.select(0.01)
            now = _real_time.monotonic()
            mark = (lp._outstanding, lp._completed)
            if mark != getattr(self, "_mark", None):
                self._mark, self._since = mark, now
            elif now - self._since > 30:   # 30 s of real time without any thread job completing
                jobs = list(getattr(lp, "_jobs", {}).values())
                n = lp._outstanding
                lp._outstanding = 0
                self._mark = None
                raise RuntimeError(f"virtual loop: {n} thread job(s) never completed: {jobs[:5]}")
            return ev
        ev = self._inner.select(0)
        if ev:
            return ev
        if timeout is None:
            return self._inner.select(0.01)
        lp._vtime += timeout
        return []

    def __getattr__(self, n):
        return getattr(self._inner, n)


class VLoop(asyncio.SelectorEventLoop):
    def __init__(self):
        super().__init__()
        self._vtime = 1000.0
        self._outstanding = 0
        self._completed = 0
        self._spin = 0
        self._clock_resolution = 1e-6
        self._selector = _VSelector(self._selector, self)

    def time(self):
        return self._vtime

    def _run_once(self):
        # A task spinning on `await asyncio.sleep(0)` (copy() waiting for the destination's other
        # commands does that) keeps the ready queue non-empty for ever, so virtual time would never
        # advance and the timer it is really waiting for would never fire.  Real time would pass
        # meanwhile: after 500 consecutive iterations with runnable callbacks and no thread job in
        # flight, let every further iteration cost 10 ms of virtual time.
        if self._outstanding == 0 and self._ready:
            self._spin += 1
            if self._spin > 500:
                self._vtime += 0.01
        else:
            self._spin = 0
        super()._run_once()

    _jitter = None  # a random.Random: delays every thread-job completion by a small random virtual time

    def jit(self):
        return self._jitter.choice([0, 0, 0, 0.001, 0.002, 0.005, 0.02]) if self._jitter is not None else 0

    def run_in_executor(self, executor, func, *args):
        self._outstanding += 1
        fut = super().run_in_executor(executor, func, *args)
        if self._jitter is None:
            def done(_):
                self._outstanding -= 1
                self._completed += 1

            fut.add_done_callback(done)
            return fut
        out = self.create_future()

        def done2(f):
            self._outstanding -= 1
            self._completed += 1

            def fin():
                if out.done():
                    return
                if f.cancelled():
                    out.cancel()
                elif f.exception() is not None:
                    out.set_exception(f.exception())
                else:
                    out.set_result(f.result())

            d = self.jit()
            if d:
                self.call_later(d, fin)
            else:
                fin()

        fut.add_done_callback(done2)
        return out


class _TimeShim:
    """stands for the `time` module inside asimap modules"""

    EPOCH = 1_700_000_000.0

    def __init__(self, loop):
        self._loop = loop

    def time(self):
        return self.EPOCH + self._loop._vtime

    def monotonic(self):
        return self._loop._vtime

    def __getattr__(self, n):
        return getattr(_real_time, n)


_patched_aiosqlite = False


def _patch_aiosqlite():
    global _patched_aiosqlite
    if _patched_aiosqlite:
        return
    import aiosqlite.core as ac

    def wrap(name):
        orig = getattr(ac.Connection, name)

        async def wrapped(self, *a, **kw):
            lp = asyncio.get_event_loop()
            has = hasattr(lp, "_outstanding")
            task = asyncio.current_task()
            nested = getattr(task, "_verif_depth", 0) > 0
            if task is not None:
                task._verif_depth = getattr(task, "_verif_depth", 0) + 1
            if has:
                lp._outstanding += 1
                key = object()
                if not hasattr(lp, "_jobs"):
                    lp._jobs = {}
                lp._jobs[key] = ("sqlite", name, str(a[:2])[:120])
            try:
                r = await orig(self, *a, **kw)
            finally:
                if has:
                    lp._outstanding -= 1
                    lp._completed += 1
                    lp._jobs.pop(key, None)
                if task is not None:
                    task._verif_depth -= 1
            # perturb the completion order -- but never while an enclosing wrapped call of this same
            # task (close() -> _execute()) still counts as outstanding: time could not advance
            if has and lp._jitter is not None and name == "_execute" and not nested:
                d = lp.jit()
                if d:
                    await asyncio.sleep(d)
            return r

        setattr(ac.Connection, name, wrapped)

    for n in ("_execute", "_connect", "close"):
        wrap(n)
    _patched_aiosqlite = True


# ----------------------------------------------------------------- fake client proxy
class FakeProxy:
    def __init__(self, name: str, addr="127.0.0.1"):
        self.name = name
        self.rem_addr = addr
        self.out: list[bytes] = []
        self.closed = False
        self.cmd_processor = None

    async def push(self, *data):
        for d in data:
            self.out.append(d.encode("latin-1") if isinstance(d, str) else bytes(d))

    async def close(self, cancel_reader=True):
        self.closed = True

    def take(self) -> list[bytes]:
        o = self.out
        self.out = []
        return o


def make_msg(cid: int, body_lines=2, extra_headers="") -> bytes:
    body = "".join(f"line {i} of message {cid}\n" for i in range(body_lines))
    return (f"From: sender{cid}@example.com\nTo: rcpt@example.com\nSubject: cid-{cid}\n"
            f"Date: Mon, 0{1 + cid % 9} Jan 2024 10:00:00 +0000\nMessage-ID: <{cid}@verif>\n{extra_headers}\n{body}"
            ).encode()


class World:
    """A mail root, one IMAPUserServer, any number of Authenticated sessions."""

    def __init__(self, seed=0, pack_limits=None, jitter=None, root=None):
        _patch_aiosqlite()
        self._jitter = jitter
        self.own_dir = root is None
        if root is None:
            self.tmp = Path(tempfile.mkdtemp(prefix="asimap-verif-"))
            self.root = self.tmp / "Mail"
            self.root.mkdir()
            mailbox.MH(str(self.root / "inbox"), create=True)
        else:                      # an existing mail directory (crash recovery runs): the caller owns it
            self.root = Path(root)
            self.tmp = self.root.parent
        self.loop = VLoop()
        self.loop._jitter = None  # switched on by set_jitter() for the concurrent phase only
        asyncio.set_event_loop(self.loop)
        self.shim = _TimeShim(self.loop)
        self._patch_time()
        random.seed(seed)
        self.server = None
        self.sessions: dict[str, tuple] = {}
        self.pack_limits = pack_limits
        self.next_cid = 1
        self.start()

    def _patch_time(self):
        import asimap.mbox
        import asimap.throttle
        import asimap.user_server
        import asimap.utils

        for m in (asimap.mbox, asimap.user_server, asimap.throttle, asimap.utils):
            m.time = self.shim

    def set_jitter(self, rng):
        """perturb the order of I/O completions (database thread, file executor) by seeded virtual delays"""
        self.loop._jitter = rng

    # ---- running coroutines
    def run(self, coro, vtimeout=2000.0):
        async def guarded():
            return await asyncio.wait_for(coro, vtimeout)

        return self.loop.run_until_complete(guarded())

    def settle(self, dt=0.0):
        """let dt virtual seconds pass, then run until nothing is runnable at the current instant"""
        self.loop.run_until_complete(asyncio.sleep(dt))
        self.quiesce()

    def quiesce(self):
        """run the loop (without advancing virtual time) until no callback is ready, no thread job
        is outstanding and no timer is due now: background work triggered at this instant (a
        management task's poll, say) is finished before the harness does anything else"""
        lp = self.loop
        for _ in range(100000):
            lp.run_until_complete(asyncio.sleep(0))
            due = any((not h._cancelled) and h._when <= lp._vtime + 1e-6 for h in lp._scheduled)
            if lp._outstanding == 0 and not lp._ready and not due:
                return
        raise RuntimeError("quiesce: loop never became quiet")

    def start(self):
        from asimap.user_server import IMAPUserServer

        self.server = self.run(IMAPUserServer.new(self.root))
        if self.pack_limits:
            self._hook_pack_limits()

    def _hook_pack_limits(self):
        """make the pack threshold reachable with few messages (instance attributes the code exposes)"""
        from asimap.mbox import Mailbox

        size, ratio = self.pack_limits
        Mailbox.FOLDER_SIZE_PACK_LIMIT = size
        Mailbox.FOLDER_RATIO_PACK_LIMIT = ratio

    def restart(self):
        """orderly shutdown and a fresh server on the same directory; sessions are gone"""
        self.run(self.server.shutdown())
        self.sessions = {}
        self.start()

    def close(self):
        try:
            if self.server is not None:
                try:
                    self.run(self.server.shutdown())
                except Exception:
                    pass
            # cancel whatever is left
            pending = [t for t in asyncio.all_tasks(self.loop) if not t.done()]
            for t in pending:
                t.cancel()
            if pending:
                self.loop.run_until_complete(asyncio.gather(*pending, return_exceptions=True))
            self.loop.run_until_complete(self.loop.shutdown_default_executor())
            self.loop.close()
        finally:
            from asimap.mbox import Mailbox

            Mailbox.FOLDER_SIZE_PACK_LIMIT = 100
            Mailbox.FOLDER_RATIO_PACK_LIMIT = 0.8
            if self.own_dir:
                shutil.rmtree(self.tmp, ignore_errors=True)

    def __enter__(self):
        return self

    def __exit__(self, *a):
        self.close()

    # ---- sessions and commands
    def session(self, name: str):
        from asimap.client import Authenticated

        proxy = FakeProxy(name)
        h = Authenticated(proxy, self.server)
        proxy.cmd_processor = h
        self.sessions[name] = (proxy, h)
        return h

    def handler(self, name):
        return self.sessions[name][1]

    def proxy(self, name):
        return self.sessions[name][0]

    def cmd(self, name: str, line, tag=None) -> list[bytes]:
        """run one complete command (text incl. literal data, no trailing CRLF needed) on a session.
        Returns the bytes pushed to that session, in order.  Parse errors are answered the way
        IMAPClientProxy.run does (BAD with the tag if one was parsed)."""
        r = self.run(self.acmd(name, line))
        self.quiesce()
        return r + self.proxy(name).take()

    async def acmd(self, name: str, line) -> list[bytes]:
        from asimap.parse import BadCommand, IMAPClientCommand

        proxy, h = self.sessions[name]
        text = line.decode("latin-1") if isinstance(line, bytes) else line
        if h.idling:
            ls = text.lower().strip()
            if ls.endswith("idle"):
                await proxy.push("+ idling")
            elif ls != "done":
                await proxy.push(f"* NO Expected 'DONE' not: {text}\r\n")
            else:
                await h.do_done()
            return proxy.take()
        cmd = IMAPClientCommand(text)
        try:
            cmd.parse()
        except BadCommand as e:
            tag = cmd.tag if cmd.tag is not None else "*"
            await proxy.push(f"{tag} BAD {e}\r\n")
            return proxy.take()
        await h.command(cmd)
        return proxy.take()

    def drain(self, name) -> list[bytes]:
        return self.proxy(name).take()

    # ---- the external MH agent
    def folder(self, mbox_name: str) -> mailbox.MH:
        return mailbox.MH(str(self.root / mbox_name), create=False)

    def deliver(self, mbox_name: str, n=1, unseen=True, bump=True) -> list[int]:
        """an MH tool drops n messages (next free numbers), optionally listing them in `unseen`,
        then the folder's modification time advances to a later whole second"""
        mh = self.folder(mbox_name)
        keys = []
        for _ in range(n):
            cid = self.next_cid
            self.next_cid += 1
            keys.append(int(mh.add(make_msg(cid))))
        if unseen:
            seqs = mh.get_sequences()
            seqs.setdefault("unseen", [])
            seqs["unseen"] = sorted(set(seqs["unseen"]) | set(keys))
            mh.set_sequences(seqs)
        if bump:
            self.bump_mtime(mbox_name)
        return keys

    def bump_mtime(self, mbox_name: str):
        p = self.root / mbox_name
        seq = p / ".mh_sequences"
        cur = int(max(os.path.getmtime(p), os.path.getmtime(seq) if seq.exists() else 0))
        active = self.server.active_mailboxes.get(mbox_name)
        if active is not None:
            cur = max(cur, int(active.mtime))
        else:
            # not active (after a restart, or expired): the time the server compares with is the one it stored.  Earlier
            # bumps have pushed that into the future of the real clock, which a real folder never sees: keep going forward
            try:
                row = self.run(self.server.db.fetchone("select mtime from mailboxes where name=?", (mbox_name,)))
                if row and row[0] is not None:
                    cur = max(cur, int(row[0]))
            except Exception:
                pass
        os.utime(p, (cur + 2, cur + 2))

    def mh_sequences(self, mbox_name: str) -> dict[str, list[int]]:
        return {k: sorted(v) for k, v in self.folder(mbox_name).get_sequences().items()}

    def mh_keys(self, mbox_name: str) -> list[int]:
        return sorted(int(k) for k in self.folder(mbox_name).keys())

    def mbox(self, name: str):
        return self.run(self.server.get_mailbox(name))


# ----------------------------------------------------------------- response tokenizer (strict)
RE_EXISTS = re.compile(rb"^\* (\d+) EXISTS\r\n$")
RE_RECENT = re.compile(rb"^\* (\d+) RECENT\r\n$")
RE_EXPUNGE = re.compile(rb"^\* (\d+) EXPUNGE\r\n$")
RE_FETCH_FLAGS = re.compile(rb"^\* (\d+) FETCH \(FLAGS \(([^)]*)\)(?: UID (\d+))?\)\r\n$")
RE_TAGGED = re.compile(rb"^(\S+) (OK|NO|BAD)(?: (.*))?\r\n$", re.S)
RE_SEARCH = re.compile(rb"^\* SEARCH ?([0-9 ]*)\r\n$")


def classify(line: bytes):
    """-> tuple describing one pushed chunk; ('other', raw) for anything not needed structurally"""
    m = RE_EXISTS.match(line)
    if m:
        return ("exists", int(m.group(1)))
    m = RE_RECENT.match(line)
    if m:
        return ("recent", int(m.group(1)))
    m = RE_EXPUNGE.match(line)
    if m:
        return ("expunge", int(m.group(1)))
    m = RE_FETCH_FLAGS.match(line)
    if m:
        fl = sorted(x.decode("latin-1") for x in m.group(2).split())
        return ("fetchflags", int(m.group(1)), fl, int(m.group(3)) if m.group(3) else None)
    m = RE_SEARCH.match(line)
    if m:
        return ("search", [int(x) for x in m.group(1).split()])
    if line.startswith(b"* "):
        m2 = re.match(rb"^\* (\d+) FETCH ", line)
        if m2:
            return ("fetch", int(m2.group(1)), line)
        return ("untagged", line)
    m = RE_TAGGED.match(line)
    if m:
        return ("tagged", m.group(1).decode("latin-1"), m.group(2).decode(), (m.group(3) or b"").decode("latin-1"))
    return ("other", line)
