"""Generator of RFC 5322 / MIME messages for C16 and C07 (one seeded PRNG, structured and
mostly valid, with the hostile ingredients the properties name).

gen_message(rng, hostile=False) -> (raw bytes, features: list[str])

Ingredients: random header sets (missing From/Date/Subject, several address fields, folded
lines, long lines, RFC 2047 encoded words in utf-8/latin-1, quotes and backslashes, comments),
text/plain 7bit, 8bit with charset, quoted-printable, base64, nested multipart with preamble /
epilogue, message/rfc822 nested and at top level, empty body, missing final newline, LF or
CRLF line endings.  `hostile=True` raises the share of quotes, backslashes, parentheses and
braces in every string that ends up inside an IMAP quoted string.
"""
from __future__ import annotations

import base64
import quopri

WORDS = ["alpha", "beta", "gamma", "delta", "report", "re:", "fwd:", "invoice", "meeting", "x", "Q3", "the", "of",
         "and", "status", "notes", "2024", "a.b", "it's", "100%", "#7", "[list]", "v1.0"]
HOSTILE = ['"', '\\', '"q"', '\\"', '\\\\', '(', ')', '((', '{3}', '{', '}', '"unbalanced', 'back\\slash', '%', '*',
           ']', '[', "NIL", '""', '\\n']
UNI = ["café", "naïve", "Grüße", "日本語", "Ωmega", "élan"]
LOCALS = ["joe", "ann.b", "x", "info", "first.last", "a+b", "o'neil"]
DOMAINS = ["example.com", "y", "mail.example.org", "host.test"]
NAMES = ["Joe Q", "Ann B", "Support", "J. R. Smith", "Zoe"]


def _word(rng, hostile):
    r = rng.random()
    if r < (0.45 if hostile else 0.06):
        return rng.choice(HOSTILE)
    return rng.choice(WORDS)


def encoded_word(rng, text=None):
    text = text or rng.choice(UNI)
    k = rng.random()
    if k < 0.4:
        return "=?utf-8?b?" + base64.b64encode(text.encode()).decode() + "?="
    if k < 0.8:
        q = "".join(c if c.isascii() and c.isalnum() else "".join("=%02X" % b for b in c.encode()) for c in text)
        return "=?utf-8?q?" + q + "?="
    try:
        raw = text.encode("latin-1")
    except UnicodeEncodeError:
        raw = "caf\xe9".encode("latin-1")
    return "=?iso-8859-1?q?" + "".join(chr(b) if chr(b).isalnum() and b < 128 else "=%02X" % b for b in raw) + "?="


def unstructured(rng, hostile, feats):
    n = rng.choice([0, 1, 2, 3, 3, 5, 8, 20]) if rng.random() < 0.9 else 40
    parts = []
    for _ in range(n):
        if rng.random() < 0.12:
            parts.append(encoded_word(rng))
            feats.add("encoded-word")
        else:
            w = _word(rng, hostile)
            if w in HOSTILE:
                feats.add("hostile-header")
            parts.append(w)
    s = " ".join(parts)
    if len(s) > 78:
        feats.add("long-header")
    return s


def fold(rng, s, feats):
    """fold at some spaces (CRLF + WSP) — only where that cannot change the meaning"""
    if " " not in s or rng.random() > 0.3:
        return s
    out = []
    for tok in s.split(" "):
        if out and rng.random() < 0.3:
            out.append("\n" + rng.choice([" ", "\t", "  "]) + tok)
            feats.add("folded")
        else:
            out.append((" " if out else "") + tok)
    return "".join(out)


def phrase(rng, hostile, feats):
    r = rng.random()
    if r < 0.25:
        return None
    if r < (0.65 if hostile else 0.35):
        inner = rng.choice(NAMES)
        if hostile or rng.random() < 0.3:
            inner = inner.replace(" ", ' \\"x\\" ', 1) if rng.random() < 0.5 else inner + " \\\\ co"
            feats.add("hostile-header")
        if rng.random() < 0.3:
            inner = "Last, First"
        return '"' + inner + '"'
    if r < 0.8:
        feats.add("encoded-word")
        return encoded_word(rng)
    return rng.choice(NAMES)


def address(rng, hostile, feats):
    spec = rng.choice(LOCALS) + "@" + rng.choice(DOMAINS)
    ph = phrase(rng, hostile, feats)
    if ph is None:
        return spec if rng.random() < 0.5 else "<" + spec + ">"
    a = ph + " <" + spec + ">"
    if rng.random() < 0.1:
        a += " (a comment)"
    return a


def address_list(rng, hostile, feats):
    n = rng.choice([1, 1, 1, 2, 3])
    s = ", ".join(address(rng, hostile, feats) for _ in range(n))
    if n > 1 and rng.random() < 0.4:
        s = s.replace(", ", ",\n ", 1)
        feats.add("folded")
    return s


def header_block(rng, hostile, feats, mime=None, minimal=False):
    """list of 'Name: value' strings (may contain LF + WSP folds)"""
    h = []
    if rng.random() < (0.5 if minimal else 0.92):
        h.append("From: " + address_list(rng, hostile, feats))
    else:
        feats.add("no-from")
    for name, p in (("To", 0.8), ("Cc", 0.25), ("Bcc", 0.1), ("Sender", 0.12), ("Reply-To", 0.15)):
        if not minimal and rng.random() < p:
            h.append(name + ": " + address_list(rng, hostile, feats))
    if rng.random() < (0.4 if minimal else 0.9):
        h.append("Subject: " + fold(rng, unstructured(rng, hostile, feats), feats))
    else:
        feats.add("no-subject")
    if rng.random() < (0.4 if minimal else 0.9):
        h.append("Date: Mon, %02d Jan 2024 10:%02d:00 +0000" % (rng.randint(1, 28), rng.randint(0, 59)))
    else:
        feats.add("no-date")
    if rng.random() < 0.85:
        h.append("Message-ID: <%d.%d@%s>" % (rng.randint(1, 10 ** 6), rng.randint(1, 999), rng.choice(DOMAINS)))
    if rng.random() < 0.2:
        h.append("In-Reply-To: <%d@%s>" % (rng.randint(1, 999), rng.choice(DOMAINS)))
    if not minimal and rng.random() < 0.2:
        h.append("Received: from a.example (a.example [10.0.0.1])\n\tby b.example with ESMTP id 4ABC;\n\t"
                 "Mon, 01 Jan 2024 10:00:00 +0000")
        feats.add("folded")
    if not minimal and rng.random() < 0.3:
        h.append("X-Custom-%d: %s" % (rng.randint(1, 9), fold(rng, unstructured(rng, hostile, feats), feats)))
    if not minimal and rng.random() < 0.1:
        h.append("X-Empty:")
    if rng.random() < (0.3 if hostile else 0.08):
        h.append("Content-Language: " + rng.choice(["en", "en, fr", "de; q=1", 'x-"q"', "en\\us"]))
    rng.shuffle(h)
    if mime:
        h += mime
    return h


def _fname(rng, hostile, feats):
    if hostile or rng.random() < 0.15:
        feats.add("hostile-param")
        return rng.choice(['a\\"b.txt', 'back\\\\slash.bin', "sp ace.txt", "par(en).txt", "br{3}ace"])
    return rng.choice(["a.txt", "report.pdf", "x.bin"])


def leaf(rng, hostile, feats, allow_8bit=True):
    """-> (mime header lines, body text as str of code points < 256 with LF line ends)"""
    k = rng.random()
    mh = []
    if k < 0.35:
        lines = [" ".join(_word(rng, False) for _ in range(rng.randint(0, 9))) for _ in range(rng.randint(1, 6))]
        body = "\n".join(lines) + "\n"
        if rng.random() < 0.6:
            mh.append("Content-Type: text/plain; charset=us-ascii")
        feats.add("text-7bit")
    elif k < 0.5 and allow_8bit:
        cs = rng.choice(["utf-8", "iso-8859-1"])
        text = " ".join(rng.choice(UNI + WORDS) for _ in range(rng.randint(1, 8)))
        try:
            raw = text.encode(cs)
        except UnicodeEncodeError:
            raw = "caf\xe9 na\xefve".encode(cs)
        body = raw.decode("latin-1") + "\n"
        mh += ["Content-Type: text/plain; charset=" + cs, "Content-Transfer-Encoding: 8bit"]
        feats.add("text-8bit")
    elif k < 0.62:
        text = " ".join(rng.choice(UNI + WORDS) for _ in range(rng.randint(1, 12))) + "\n"
        body = quopri.encodestring(text.encode("utf-8")).decode("ascii")
        mh += ["Content-Type: text/plain; charset=utf-8", "Content-Transfer-Encoding: quoted-printable"]
        feats.add("quoted-printable")
    elif k < 0.8:
        data = bytes(rng.randrange(256) for _ in range(rng.choice([0, 1, 10, 57, 58, 200])))
        body = base64.encodebytes(data).decode("ascii")
        ct = "Content-Type: application/octet-stream"
        if rng.random() < 0.6:
            ct += '; name="' + _fname(rng, hostile, feats) + '"'
        mh += [ct, "Content-Transfer-Encoding: base64"]
        if rng.random() < 0.6:
            mh.append('Content-Disposition: attachment; filename="' + _fname(rng, hostile, feats) + '"')
        if rng.random() < 0.3:
            mh.append("Content-ID: <part%d@verif>" % rng.randint(1, 99))
        if rng.random() < 0.3:
            mh.append("Content-Description: " + unstructured(rng, hostile, feats)[:60])
        feats.add("base64")
    elif k < 0.9:
        body = "<html><body><p>" + " ".join(_word(rng, False) for _ in range(5)) + "</p></body></html>\n"
        mh.append("Content-Type: text/html; charset=us-ascii")
        feats.add("text-html")
    else:
        body = ""
        if rng.random() < 0.5:
            mh.append("Content-Type: text/plain")
        feats.add("empty-leaf")
    return mh, body


_bnd = [0]


def entity(rng, hostile, feats, depth, top=False):
    """-> (mime header lines, body str)"""
    k = rng.random()
    if depth < 3 and k < (0.35 if top else 0.25):
        _bnd[0] += 1
        unq = rng.random() < 0.3
        b = ("bnd_%d_%d" if unq else "=_bnd_%d_%d") % (depth, _bnd[0])  # a token may go unquoted
        sub = rng.choice(["mixed", "alternative", "related", "mixed"])
        nparts = rng.choice([1, 2, 2, 3])
        out = []
        if rng.random() < 0.3:
            out.append("This is a multi-part message in MIME format.\n")
            feats.add("preamble")
        for _ in range(nparts):
            mh, body = entity(rng, hostile, feats, depth + 1)
            out.append("--" + b + "\n" + "".join(x + "\n" for x in mh) + "\n" + body +
                       ("" if body.endswith("\n") or body == "" else "\n"))
        out.append("--" + b + "--\n")
        if rng.random() < 0.15:
            out.append("epilogue text\n")
            feats.add("epilogue")
        feats.add("multipart" + ("-nested" if depth else ""))
        bq = b if unq else '"' + b + '"'
        return ["Content-Type: multipart/%s; boundary=%s" % (sub, bq)], "".join(out)
    if depth < 3 and k < (0.47 if top else 0.35):
        feats.add("message/rfc822" + ("-top" if top else "-nested"))
        inner_feats = set()
        inner = compose(rng, hostile, inner_feats, depth + 1, minimal=rng.random() < 0.3)
        return ["Content-Type: message/rfc822"], inner
    return leaf(rng, hostile, feats)


def compose(rng, hostile, feats, depth=0, minimal=False, empty=False):
    if empty:
        mh, body = (["Content-Type: text/plain"] if rng.random() < 0.4 else []), ""
    else:
        mh, body = entity(rng, hostile, feats, depth, top=(depth == 0))
    mime = (["MIME-Version: 1.0"] if mh and rng.random() < 0.9 else []) + mh
    h = header_block(rng, hostile, feats, mime=mime, minimal=minimal)
    return "".join(x + "\n" for x in h) + "\n" + body


def gen_message(rng, hostile=False):
    feats = set()
    r = rng.random()
    text = compose(rng, hostile, feats, empty=(r < 0.08))
    if r < 0.08:
        feats.add("empty-body")  # header block and the blank line only
    elif r < 0.2 and text.endswith("\n") and not text.endswith("\n\n"):
        text = text[:-1]
        feats.add("no-final-newline")
    raw = text.encode("latin-1", "replace")
    if rng.random() < 0.55:
        raw = raw.replace(b"\n", b"\r\n")
        feats.add("CRLF")
    else:
        feats.add("LF")
    if any(b >= 128 for b in raw):
        feats.add("has-8bit-octets")
    return raw, sorted(feats)


# hand-written witnesses that always run first
WITNESSES = [
    (b"Subject: empty body\r\nFrom: x@y\r\n\r\n", ["empty-body", "witness-D12"]),
    (b"Subject: outer\r\nFrom: x@y\r\nMIME-Version: 1.0\r\nContent-Type: message/rfc822\r\n\r\n"
     b"Subject: inner\r\nFrom: i@y\r\n\r\ninner body\r\n", ["message/rfc822-top", "witness-toplevel-header"]),
    (b"Subject: eight\r\nFrom: x@y\r\nMIME-Version: 1.0\r\nContent-Type: text/plain; charset=iso-8859-1\r\n"
     b"Content-Transfer-Encoding: 8bit\r\n\r\nb\xe9d and breakfast\r\n", ["text-8bit", "witness-8bit-append"]),
    (b"Subject: no newline\nFrom: x@y\n\nlast line without newline", ["no-final-newline", "LF"]),
    (b"Subject: a \"q\" \\ b\r\nFrom: \"Joe \\\"x\\\" Q\" <j@y>\r\n\r\nhi\r\n", ["hostile-header", "witness-D11"]),
    (b"Received: from a (a [10.0.0.1])\r\n\tby b with ESMTP id 1;\r\n\tMon, 01 Jan 2024 10:00:00 +0000\r\n"
     b"From: Ann <a@y>\r\nSender: s@y\r\nReply-To: r@y\r\nTo: t@y\r\nCc: c@y\r\nBcc: b@y\r\nSubject: every field\r\n"
     b"Date: Mon, 01 Jan 2024 10:00:00 +0000\r\nMessage-ID: <1@y>\r\nIn-Reply-To: <0@y>\r\nReferences: <0@y>\r\n"
     b"X-Custom-1: one\r\nX-Custom-2: two\r\nX-Custom-3: three\r\nX-Empty:\r\nMIME-Version: 1.0\r\n"
     b"Content-Type: text/plain; charset=us-ascii\r\nContent-Language: en\r\n\r\nbody\r\n", ["many-headers"]),
    (b"From: x@y\r\n\r\n\r\n", ["blank-line-body"]),
    (b"Subject: one\r\n\r\nx", ["one-octet-body", "no-final-newline"]),
    (b"Subject: lf only\n\n\n", ["LF", "blank-line-body"]),
]


class Findings:
    """known-finding bookkeeping shared by c16/c07: a violation whose id is listed for the property
    in known_findings.json (or in the file named by VERIF_EXTRA_FINDINGS, used to try proposed
    entries before they are committed) prints KNOWN-FINDING once; anything else is a violation"""

    def __init__(self, ctx, per_kind=2):
        import json
        import os

        self.ctx = ctx
        self.known = {f.get("id") for f in ctx.findings()}
        extra = os.environ.get("VERIF_EXTRA_FINDINGS")
        if extra and os.path.exists(extra):
            for f in json.load(open(extra)).get("findings", []):
                if f.get("property") == ctx.prop:
                    self.known.add(f.get("id"))
        self.hit = set()
        self.counts = {}
        self.per_kind = per_kind

    def report(self, fid, what, replay, key=None):
        k = fid or key or what
        self.counts[k] = self.counts.get(k, 0) + 1
        if fid and fid in self.known:
            if fid not in self.hit:
                self.hit.add(fid)
                self.ctx.known_finding(fid, what)
            return
        if self.counts[k] <= self.per_kind:
            self.ctx.violation(what, replay)
