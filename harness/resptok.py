"""A strict, independent parser of IMAP server responses (RFC 3501 section 9, plus the
extensions asimap announces: UIDPLUS, LIST-EXTENDED, LIST-STATUS, NAMESPACE, ID, IDLE).

Written from the RFC grammar, not from asimap's formatting code.  Used by C07 (every byte any
session receives must parse) and by C16 (literals are cut out by their announced count).

    parse_one(data, pos=0)   -> (response dict, next position)       raises RespError
    parse_stream(data)       -> list of response dicts; must consume everything
    parse_chunk(chunk)       -> exactly one response, nothing left over

Strings are decoded: quoted strings are unescaped ("\\" may precede only DQUOTE or "\\"; raw CR,
LF, NUL, a bare "\\" or a missing closing quote are errors), literals are taken by count and
the CRLF after "}" is required.  Parentheses are checked by the grammar itself (every list has
a fixed shape).  One deliberate leniency, listed in the MANIFEST note: `resp-text` may be empty
after a response code ("* OK [UNSEEN 1]"), which RFC 9051 allows and RFC 3501 does not.
Octets >= 0x80 are accepted inside quoted strings and text (the property forbids only raw CR,
LF, unescaped DQUOTE and backslash); their number is reported by the checks.
"""
from __future__ import annotations

import re


class RespError(Exception):
    def __init__(self, msg, pos, data=b""):
        self.msg = msg
        self.pos = pos
        ctx = data[max(0, pos - 30):pos + 30]
        super().__init__(f"{msg} at octet {pos}: ...{ctx!r}...")


ATOM_SPECIALS = set(b'(){ %*"\\]') | set(range(0, 32)) | {127}
ASTRING_SPECIALS = ATOM_SPECIALS - {ord("]")}
TAG_SPECIALS = ASTRING_SPECIALS | {ord("+")}
RE_DATETIME = re.compile(rb"^[ 0-3][0-9]-(Jan|Feb|Mar|Apr|May|Jun|Jul|Aug|Sep|Oct|Nov|Dec)-[0-9]{4} "
                         rb"[0-2][0-9]:[0-5][0-9]:[0-6][0-9] [+-][0-9]{4}$")


class Cur:
    def __init__(self, data: bytes, pos=0):
        self.d = data
        self.p = pos
        self.n8 = 0  # octets >= 0x80 seen in quoted strings / text
        self.notes = []  # spacing deviations from the RFC 3501 ABNF that are tolerated and reported

    def err(self, msg):
        raise RespError(msg, self.p, self.d)

    def eof(self):
        return self.p >= len(self.d)

    def peek(self, n=1):
        return self.d[self.p:self.p + n]

    def at(self, lit: bytes):
        return self.d.startswith(lit, self.p)

    def ati(self, lit: bytes):
        return self.d[self.p:self.p + len(lit)].upper() == lit.upper()

    def expect(self, lit: bytes):
        if not self.at(lit):
            self.err(f"expected {lit!r}")
        self.p += len(lit)

    def sp(self):
        self.expect(b" ")

    def crlf(self):
        self.expect(b"\r\n")

    def number(self):
        s = self.p
        while self.p < len(self.d) and 48 <= self.d[self.p] <= 57:
            self.p += 1
        if s == self.p:
            self.err("expected a number")
        return int(self.d[s:self.p])

    def chars(self, specials, what):
        s = self.p
        while self.p < len(self.d) and self.d[self.p] not in specials and self.d[self.p] < 128:
            self.p += 1
        if s == self.p:
            self.err(f"expected {what}")
        return self.d[s:self.p]

    def atom(self):
        return self.chars(ATOM_SPECIALS, "an atom")

    def quoted(self):
        self.expect(b'"')
        out = bytearray()
        while True:
            if self.eof():
                self.err("unterminated quoted string")
            c = self.d[self.p]
            if c == 34:
                self.p += 1
                return bytes(out)
            if c == 92:
                if self.p + 1 >= len(self.d) or self.d[self.p + 1] not in (34, 92):
                    self.err("backslash in a quoted string not followed by DQUOTE or backslash")
                out.append(self.d[self.p + 1])
                self.p += 2
                continue
            if c in (13, 10, 0):
                self.err("raw CR/LF/NUL in a quoted string")
            if c >= 128:
                self.n8 += 1
            out.append(c)
            self.p += 1

    def literal(self):
        self.expect(b"{")
        n = self.number()
        self.expect(b"}")
        self.crlf()
        if self.p + n > len(self.d):
            self.err(f"literal announces {n} octets, only {len(self.d) - self.p} follow")
        v = self.d[self.p:self.p + n]
        self.p += n
        return v

    def string(self):
        if self.at(b'"'):
            return self.quoted()
        if self.at(b"{"):
            return self.literal()
        self.err("expected a string")

    def is_nil(self):
        return self.ati(b"NIL") and (self.p + 3 >= len(self.d) or self.d[self.p + 3] in ATOM_SPECIALS)

    def nstring(self):
        if self.is_nil():
            self.p += 3
            return None
        return self.string()

    def astring(self):
        if self.at(b'"') or self.at(b"{"):
            return self.string()
        return self.chars(ASTRING_SPECIALS, "an astring")

    def text(self):
        """TEXT-CHARs up to (not including) the CRLF"""
        s = self.p
        while self.p < len(self.d) and self.d[self.p] not in (13, 10, 0):
            if self.d[self.p] >= 128:
                self.n8 += 1
            self.p += 1
        return self.d[s:self.p]

    def plist(self, item, allow_empty=True):
        """ "(" [item *(SP item)] ")" """
        self.expect(b"(")
        out = []
        if self.at(b")"):
            if not allow_empty:
                self.err("empty list not allowed here")
            self.p += 1
            return out
        while True:
            out.append(item())
            if self.at(b")"):
                self.p += 1
                return out
            self.sp()


# ---------------------------------------------------------------------------- pieces
def flag(c: Cur, in_code=False):
    if c.at(b"\\"):
        c.p += 1
        if c.at(b"*"):
            c.p += 1
            return b"\\*"
        return b"\\" + c.atom()
    if in_code:
        return c.atom()
    # asimap's parser accepts "]" inside a keyword (C08 territory); outside a response code the
    # flag list is still unambiguous: tolerated, reported
    a = c.chars(ASTRING_SPECIALS, "a flag")
    if b"]" in a:
        c.notes.append("']' in a flag keyword")
    return a


def resp_text(c: Cur):
    code = None
    if c.at(b"["):
        c.p += 1
        name = c.chars(ATOM_SPECIALS, "a response code")
        arg = None
        if c.at(b" "):
            c.p += 1
            s = c.p
            if c.at(b"("):
                arg = c.plist(lambda: flag(c, in_code=True))
            else:
                while c.p < len(c.d) and c.d[c.p] not in (13, 10, 0, ord("]")):
                    c.p += 1
                if s == c.p:
                    c.err("empty response code argument")
                arg = c.d[s:c.p]
        c.expect(b"]")
        code = (name.upper(), arg)
        if c.at(b"\r\n"):
            return code, b""  # RFC 9051 leniency
        c.sp()
    t = c.text()
    if not t:
        c.err("empty human-readable text")
    return code, t


def address(c: Cur):
    c.expect(b"(")
    name = c.nstring()
    c.sp()
    adl = c.nstring()
    c.sp()
    mbox = c.nstring()
    c.sp()
    host = c.nstring()
    c.expect(b")")
    return (name, adl, mbox, host)


def addr_list(c: Cur):
    if c.is_nil():
        c.p += 3
        return None
    c.expect(b"(")
    out = [address(c)]
    while not c.at(b")"):
        if c.at(b" "):  # RFC 3501 has no SP between addresses; tolerated, reported
            c.p += 1
            c.notes.append("SP between addresses")
        out.append(address(c))
    c.p += 1
    return out


ENV_FIELDS = ("date", "subject", "from", "sender", "reply-to", "to", "cc", "bcc", "in-reply-to", "message-id")


def envelope(c: Cur):
    c.expect(b"(")
    env = {}
    for i, f in enumerate(ENV_FIELDS):
        if i:
            c.sp()
        env[f] = addr_list(c) if f in ("from", "sender", "reply-to", "to", "cc", "bcc") else c.nstring()
    c.expect(b")")
    return env


def fld_param(c: Cur):
    if c.is_nil():
        c.p += 3
        return None
    c.expect(b"(")
    out = []
    while True:
        k = c.string()
        c.sp()
        v = c.string()
        out.append((k, v))
        if c.at(b")"):
            c.p += 1
            return out
        c.sp()


def fld_dsp(c: Cur):
    if c.is_nil():
        c.p += 3
        return None
    c.expect(b"(")
    t = c.string()
    c.sp()
    p = fld_param(c)
    c.expect(b")")
    return (t, p)


def fld_lang(c: Cur):
    if c.at(b"("):
        return c.plist(c.string, allow_empty=False)
    return c.nstring()


def body_extension(c: Cur):
    if c.at(b"("):
        return c.plist(lambda: body_extension(c), allow_empty=False)
    if c.peek(1).isdigit():
        return c.number()
    return c.nstring()


def ext_tail(c: Cur, out: dict):
    """[SP body-fld-dsp [SP body-fld-lang [SP body-fld-loc *(SP body-extension)]]] then ")" """
    if c.at(b")"):
        return
    c.sp()
    out["disposition"] = fld_dsp(c)
    if c.at(b")"):
        return
    c.sp()
    out["language"] = fld_lang(c)
    if c.at(b")"):
        return
    c.sp()
    out["location"] = c.nstring()
    while not c.at(b")"):
        c.sp()
        out.setdefault("extensions", []).append(body_extension(c))


def body(c: Cur, depth=0):
    if depth > 200:
        c.err("body structure nested too deeply")
    c.expect(b"(")
    if c.at(b"("):
        parts = []
        while c.at(b"("):
            parts.append(body(c, depth + 1))
        out = {"multipart": True, "parts": parts}
        if c.at(b" "):
            c.sp()
        else:  # RFC 3501: 1*body SP media-subtype; asimap's non-extensible BODY omits the SP; reported
            c.notes.append("no SP before multipart subtype")
        out["subtype"] = c.string()
        if not c.at(b")"):
            c.sp()
            out["params"] = fld_param(c)
            ext_tail(c, out)
        c.expect(b")")
        return out
    out = {"multipart": False}
    out["type"] = c.string()
    c.sp()
    out["subtype"] = c.string()
    c.sp()
    out["params"] = fld_param(c)
    c.sp()
    out["id"] = c.nstring()
    c.sp()
    out["description"] = c.nstring()
    c.sp()
    out["encoding"] = c.string()
    c.sp()
    out["octets"] = c.number()
    mt, st = out["type"].upper(), out["subtype"].upper()
    if mt == b"MESSAGE" and st == b"RFC822":
        c.sp()
        out["envelope"] = envelope(c)
        c.sp()
        out["body"] = body(c, depth + 1)
        c.sp()
        out["lines"] = c.number()
    elif mt == b"TEXT":
        c.sp()
        out["lines"] = c.number()
    if not c.at(b")"):
        c.sp()
        out["md5"] = c.nstring()
        ext_tail(c, out)
    c.expect(b")")
    return out


def section(c: Cur):
    """ "[" [section-spec] "]" ["<" number ">"] ; returns the text as sent"""
    s = c.p
    c.expect(b"[")
    if not c.at(b"]"):
        # section-part
        while c.peek(1).isdigit():
            n = c.number()
            if n == 0:
                c.err("section part number 0")
            if c.at(b"."):
                c.p += 1
            else:
                break
        if not c.at(b"]"):
            word = c.chars(set(b" ]") | set(range(0, 32)), "a section name").upper()
            if word in (b"HEADER.FIELDS", b"HEADER.FIELDS.NOT"):
                c.sp()
                c.plist(c.astring, allow_empty=False)
            elif word not in (b"HEADER", b"TEXT", b"MIME"):
                c.err(f"unknown section text {word!r}")
    c.expect(b"]")
    if c.at(b"<"):
        c.p += 1
        c.number()
        c.expect(b">")
    return c.d[s:c.p]


def msg_att(c: Cur):
    s = c.p
    while c.p < len(c.d) and (c.d[c.p:c.p + 1].isalnum() or c.d[c.p] == ord(".")):
        c.p += 1
    name = c.d[s:c.p].upper()
    if not name:
        c.err("expected a FETCH data item name")
    if name == b"FLAGS":
        c.sp()
        return (name, c.plist(lambda: flag(c)))
    if name in (b"UID", b"RFC822.SIZE"):
        c.sp()
        return (name, c.number())
    if name == b"INTERNALDATE":
        c.sp()
        v = c.quoted()
        if not RE_DATETIME.match(v):
            c.err(f"INTERNALDATE {v!r} is not a date-time")
        return (name, v)
    if name == b"ENVELOPE":
        c.sp()
        return (name, envelope(c))
    if name == b"BODYSTRUCTURE":
        c.sp()
        return (name, body(c))
    if name in (b"RFC822", b"RFC822.HEADER", b"RFC822.TEXT"):
        c.sp()
        return (name, c.nstring())
    if name == b"BODY":
        if c.at(b"["):
            sec = section(c)
            c.sp()
            return (name + sec, c.nstring())
        c.sp()
        return (name, body(c))
    c.err(f"unknown FETCH data item {name!r}")


def mailbox(c: Cur):
    return c.astring()


def mbox_list(c: Cur):
    flags = c.plist(lambda: flag(c))
    c.sp()
    if c.is_nil():
        c.p += 3
        delim = None
    else:
        delim = c.quoted()
        if len(delim) != 1:
            c.err("hierarchy delimiter must be one character")
    c.sp()
    name = mailbox(c)
    ext = None
    if c.at(b" "):  # RFC 5258 mbox-list-extended
        c.sp()
        ext = c.plist(lambda: (c.astring(), (c.sp(), tagged_ext_val(c))[1]), allow_empty=False)
    return {"flags": flags, "delim": delim, "name": name, "ext": ext}


def tagged_ext_val(c: Cur):
    if c.at(b"("):
        return c.plist(lambda: tagged_ext_val(c))
    if c.peek(1).isdigit():
        return c.number()
    return c.astring()


def namespace(c: Cur):
    if c.is_nil():
        c.p += 3
        return None
    c.expect(b"(")
    out = []
    while c.at(b"("):
        c.p += 1
        prefix = c.string()
        c.sp()
        delim = c.nstring()
        c.expect(b")")
        out.append((prefix, delim))
    if not out:
        c.err("empty namespace list")
    c.expect(b")")
    return out


STATUS_ATTS = (b"MESSAGES", b"RECENT", b"UIDNEXT", b"UIDVALIDITY", b"UNSEEN")


# ---------------------------------------------------------------------------- responses
def parse_one(data: bytes, pos=0):
    c = Cur(data, pos)
    r = _response(c)
    c.crlf()
    r["n8"] = c.n8
    r["notes"] = c.notes
    r["raw"] = data[pos:c.p]
    return r, c.p


def _response(c: Cur):
    if c.at(b"+"):
        c.p += 1
        c.sp()
        code, t = resp_text(c)
        return {"kind": "continue", "code": code, "text": t}
    if c.at(b"* "):
        c.p += 2
        if c.peek(1).isdigit():
            n = c.number()
            c.sp()
            word = c.atom().upper()
            if word in (b"EXISTS", b"RECENT", b"EXPUNGE"):
                return {"kind": word.decode().lower(), "n": n}
            if word == b"FETCH":
                if n == 0:
                    c.err("FETCH for message number 0")
                c.sp()
                items = c.plist(lambda: msg_att(c), allow_empty=False)
                return {"kind": "fetch", "n": n, "items": items}
            c.err(f"unknown numbered response {word!r}")
        word = c.atom().upper()
        if word in (b"OK", b"NO", b"BAD", b"BYE", b"PREAUTH"):
            c.sp()
            code, t = resp_text(c)
            return {"kind": "status", "tag": None, "status": word.decode(), "code": code, "text": t}
        if word == b"CAPABILITY":
            caps = []
            while c.at(b" "):
                c.sp()
                caps.append(c.atom())
            if not caps:
                c.err("empty CAPABILITY")
            return {"kind": "capability", "caps": caps}
        if word == b"FLAGS":
            c.sp()
            return {"kind": "flags", "flags": c.plist(lambda: flag(c))}
        if word in (b"LIST", b"LSUB"):
            c.sp()
            r = mbox_list(c)
            r["kind"] = word.decode().lower()
            return r
        if word == b"SEARCH":
            nums = []
            while c.at(b" ") and not c.at(b" \r\n"):
                c.sp()
                nums.append(c.number())
            if c.at(b" \r\n"):
                c.p += 1  # asimap sends "* SEARCH " for no match: a trailing SP; tolerated, reported
                c.notes.append("trailing SP after SEARCH")
                return {"kind": "search", "nums": nums}
            return {"kind": "search", "nums": nums}
        if word == b"STATUS":
            c.sp()
            name = mailbox(c)
            c.sp()

            def att():
                a = c.atom().upper()
                if a not in STATUS_ATTS:
                    c.err(f"unknown STATUS attribute {a!r}")
                c.sp()
                return (a, c.number())

            return {"kind": "status-data", "name": name, "atts": c.plist(att)}
        if word == b"NAMESPACE":
            ns = []
            for _ in range(3):
                c.sp()
                ns.append(namespace(c))
            return {"kind": "namespace", "ns": ns}
        if word == b"ID":
            c.sp()
            if c.is_nil():
                c.p += 3
                return {"kind": "id", "params": None}
            return {"kind": "id", "params": c.plist(lambda: (c.string(), (c.sp(), c.nstring())[1]))}
        c.err(f"unknown untagged response {word!r}")
    s0 = c.p
    while c.p < len(c.d) and c.d[c.p] not in TAG_SPECIALS:
        if c.d[c.p] >= 128:
            c.n8 += 1  # the tag is the client's; asimap echoes 8-bit tags (C08 territory), counted
        c.p += 1
    if s0 == c.p:
        c.err("expected a tag")
    tag = c.d[s0:c.p]
    c.sp()
    word = c.atom().upper()
    if word not in (b"OK", b"NO", b"BAD"):
        c.err(f"tagged response with status {word!r}")
    c.sp()
    code, t = resp_text(c)
    return {"kind": "status", "tag": tag, "status": word.decode(), "code": code, "text": t}


def parse_stream(data: bytes):
    out = []
    pos = 0
    while pos < len(data):
        r, pos = parse_one(data, pos)
        out.append(r)
    return out


def parse_chunk(chunk: bytes):
    r, pos = parse_one(chunk, 0)
    if pos != len(chunk):
        raise RespError("octets after the end of the response in the same write", pos, chunk)
    return r


def fetch_item(resp, name: bytes):
    """value of a FETCH data item (exact name as sent, e.g. b'BODY[HEADER]<2>')"""
    for k, v in resp["items"]:
        if k == name:
            return v
    raise KeyError(name)
