import importlib
import os
import sys
import traceback
from pathlib import Path

sys.path.insert(0, str(Path(__file__).resolve().parent))
import core  # noqa: E402


def main(argv):
    if len(argv) < 2:
        print("usage: check Cxx quick|thorough | check Cxx --replay path")
        return 2
    prop = argv[0].upper()
    mod = importlib.import_module(f"props.{prop.lower()}")
    seed = int(os.environ.get("VERIF_SEED", "20260925"))
    if argv[1] == "--replay":
        ctx = core.Ctx(prop, "quick", seed)
        return mod.replay(ctx, argv[2])
    tier = argv[1]
    if tier not in ("quick", "thorough"):
        tier = os.environ.get("VERIF_TIER", "quick")
    ctx = core.Ctx(prop, tier, seed)
    try:
        mod.run(ctx)
    except Exception:
        # an internal error of the machinery must not look like a pass
        tb = traceback.format_exc()
        print(tb)
        ctx.proof_broken.append({"what": "internal error of the check", "traceback": tb[-3000:]})
    return ctx.finish()


if __name__ == "__main__":
    sys.exit(main(sys.argv[1:]))
