"""C09 — mailbox names cannot reach outside the user's mail directory.

Proof:  coq/Properties/C09.v — for every command and every name/reference/pattern (arbitrary
        strings): every path derived is lexically inside the root (C09_confined), escaping names are
        refused (C09_refused_otherwise, C09_command_refused), the validator accepts exactly the names
        that stay inside (C09_accept_iff), normpath facts.
Tie:    X  (1) Model/Path.v vs os.path.normpath / os.path.join / os.path.dirname / str.split and
               the real asimap.mbox.canonical_mbox_name on every string over {a . /} up to length
               6 (quick) / 8 (thorough) plus random longer strings (spaces, INBOX spellings, control
               and non-ASCII characters); the model is evaluated inside Coq.
           (2) end to end in a jail (the World's temp dir: mail root + a decoy neighbour): every
               mailbox-name position of every command x the attack language x every encoding
               (atom, quoted, literal), after a fresh start and after a history + restart.  After
               each command the jail outside the mail root must be byte-for-byte unchanged, the
               response must not reveal the decoy, and every command the model refuses
               (cmd_paths = Err) must be answered NO/BAD.  For CREATE that answers OK the
               directories made must be the ones the model derives.
           (3) the mailbox table after a scripted history vs Model.Path.db_run (C09_db_rows_inside is
               about that model); after every world all rows must be canonical names.
"""
from __future__ import annotations

import hashlib
import itertools
import json
import mailbox
import os
import posixpath
import re
import shutil
import sys
from pathlib import Path, PurePosixPath

import core
from core import clist, cbool
import world as W

ROOTS = ["/m", "/m/", "", "rel", "/"]
CHUNK = 500
DECOY_N = 7
FULL_ENC_NAMES = 18


# ------------------------------------------------------------------ Coq terms
def cs(s: str) -> str:
    return "[" + ";".join(str(ord(c)) for c in s) + "]"


def copts(s) -> str:
    return "None" if s is None else f"(Some {cs(s)})"


FDEFS = """
From Asimap Require Import Base.Res Model.Path Spec.Inside.
Open Scope Z_scope.
Fixpoint strs_eqb (a b : list (list Z)) : bool :=
  match a, b with [], [] => true | x :: a', y :: b' => str_eqb x y && strs_eqb a' b' | _, _ => false end.
Definition opt_eqb (a : res (list Z)) (b : option (list Z)) : bool :=
  match a, b with Ok x, Some y => str_eqb x y | Err _, None => true | _, _ => false end.
Definition roots : list (list Z) := %s.
(* (s, normpath, validator result, joins with each root, dirname, split, check the validator?) *)
Definition fcase := (list Z * list Z * option (list Z) * list (list Z) * list Z * list (list Z) * bool)%%type.
Definition fcheck (c : fcase) : bool :=
  let '(s, np, cn, js, dn, sp, withv) := c in
  str_eqb (normpath s) np
  && (negb withv || opt_eqb (canonical_mbox_name s) cn)
  && strs_eqb (map (fun r => path_join r s) roots) js
  && str_eqb (dirname s) dn
  && strs_eqb (split_slash s) sp
  && str_eqb (join_slash sp) s
  (* the spec-level reading of the validator agrees as well (C09_accept_iff, evaluated) *)
  && (negb withv || Bool.eqb (negb (leaves_root (strip1 s))) (match cn with Some _ => true | None => false end)).
Fixpoint bad_from (i : nat) (cs : list fcase) : list nat :=
  match cs with [] => [] | c :: r => if fcheck c then bad_from (S i) r else i :: bad_from (S i) r end.
""" % clist([cs(r) for r in ROOTS])


def get_validator():
    try:
        import asimap.mbox as mb
    except Exception:
        return None
    return getattr(mb, "canonical_mbox_name", None)


def impl_row(s, validator):
    from asimap.mbox import InvalidMailbox

    np = os.path.normpath(s)
    cn = None
    if validator is not None:
        try:
            cn = validator(s)
        except InvalidMailbox:
            cn = None
    js = [os.path.join(r, s) for r in ROOTS]
    return (s, np, cn, js, os.path.dirname(s), s.split("/"))


def frow_term(row, withv):
    s, np, cn, js, dn, sp = row
    return (f"({cs(s)}, {cs(np)}, {copts(cn)}, {clist([cs(j) for j in js])}, {cs(dn)}, "
            f"{clist([cs(x) for x in sp])}, {cbool(withv)})")


def gen_strings(ctx):
    maxlen = 8 if ctx.thorough else 6
    out = []
    for n in range(0, maxlen + 1):
        for t in itertools.product("a./", repeat=n):
            out.append("".join(t))
    n_enum = len(out)
    rng = ctx.rng
    alpha = list("a./ INBOXinbox0") + ["é", "\x7f", "\x01", "*", "%", "ß", "İ", "K", "\\", '"',
                                       "中", "\t"]
    comps = ["..", ".", "", "a", "inbox", "INBOX", "InBoX", "x y", "..a", "a..", "...", " ..", ".. ", "decoy",
             "Mail", "0", "12", "İnbox", " "]
    nrand = 3000 if ctx.thorough else 500
    for _ in range(nrand):
        if rng.random() < 0.5:
            k = rng.randrange(0, 15)
            out.append("".join(rng.choice(alpha) if rng.random() < 0.4 else rng.choice("a./") for _ in range(k)))
        else:
            k = rng.randrange(1, 7)
            out.append("/" * rng.choice([0, 0, 0, 1, 2, 3]) + "/".join(rng.choice(comps) for _ in range(k))
                       + rng.choice(["", "", "/"]))
    for c in comps:
        out += [c, "/" + c, c + "/", "//" + c]
    return out, n_enum


def function_level(ctx, proof_ok):
    validator = get_validator()
    if validator is None:
        ctx.proof_broken.append({"what": "asimap.mbox.canonical_mbox_name (the validator Model/Path.v models) does "
                                         "not exist in this tree: mailbox names are not validated"})
    strings, n_enum = gen_strings(ctx)
    rows = []
    for s in strings:
        try:
            rows.append(impl_row(s, validator))
        except Exception as e:
            ctx.violation("the name validator raised something other than InvalidMailbox",
                          {"name": s, "exception": repr(e), "replay": f"asimap.mbox.canonical_mbox_name({s!r})"})
    # python-only side conditions of the model
    for s in strings:
        if "\x00" in s:
            continue
        a = os.path.normpath(str(PurePosixPath("/m") / s))
        b = os.path.normpath(os.path.join("/m", s))
        if a != b:
            ctx.proof_broken.append({"what": "pathlib's `/` and os.path.join differ modulo normpath (the model treats "
                                             "server.maildir / name as os.path.join)", "name": s, "pathlib": a, "join": b})
            break
    inbox_letters = set("inbox")
    for cp in range(0x110000):
        lo = chr(cp).lower()
        if lo and lo in "inbox" and not (cp < 128):
            ctx.proof_broken.append({"what": "a non-ASCII character lower-cases into 'inbox' letters; is_inbox of the "
                                             "model is ASCII only", "codepoint": hex(cp)})
            break
    if not proof_ok:
        # the model could not be built: nothing to evaluate against
        ctx.extra["function_level"] = {"strings": len(rows), "evaluated_in_coq": 0}
        return
    chunks = [rows[i:i + CHUNK] for i in range(0, len(rows), CHUNK)]
    texts = []
    for ch in chunks:
        t = FDEFS + "Definition cases : list fcase := " + clist([frow_term(r, validator is not None) for r in ch]) + ".\n"
        t += "Eval vm_compute in (bad_from 0 cases).\n"
        texts.append(t)
    outs = ctx.coq.eval_many("c09f", texts)
    bad = []
    for k, out in enumerate(outs):
        v = core.parse_coq_values(out)[0]
        bad += [k * CHUNK + int(x) for x in re.findall(r"\d+", v)]
    dist = {"enumerated_over_a_dot_slash": n_enum, "random_and_structured": len(rows) - n_enum,
            "refused_by_validator": sum(1 for r in rows if r[2] is None) if validator else None,
            "normal_form_absolute": sum(1 for r in rows if r[1].startswith("/")),
            "normal_form_leading_dotdot": sum(1 for r in rows if r[1] == ".." or r[1].startswith("../")),
            "non_ascii_or_control": sum(1 for r in rows if any(ord(c) > 126 or ord(c) < 32 for c in r[0]))}
    ctx.extra["function_level"] = dist
    for r in rows:
        ctx.count({"f": r[0]}, nontrivial=("/" in r[0] or "." in r[0]))
    for i in bad[:4]:
        s, np, cn, js, dn, sp = rows[i]
        ctx.proof_broken.append({"what": "model/code tie: Model/Path.v disagrees with os.path / the validator",
                                 "name": s, "os.path.normpath": np, "canonical_mbox_name": cn, "joins": js,
                                 "dirname": dn})
        # is it a failing input of the property?  accepted although it escapes
        if cn is not None:
            full = os.path.normpath(os.path.join("/m", cn))
            if not (full == "/m" or full.startswith("/m/")):
                ctx.violation("the validator accepts a name that denotes a path outside the mail directory",
                              {"name": s, "accepted_as": cn, "path_for_root_/m": full,
                               "replay": f"asimap.mbox.canonical_mbox_name({s!r})"})
    # independent of the model: what the validator accepts must normalise to inside, what it refuses ...
    if validator is not None:
        for (s, np, cn, js, dn, sp) in rows:
            if cn is None:
                continue
            full = os.path.normpath(os.path.join("/m", cn))
            if cn.startswith("/") or cn == ".." or cn.startswith("../") or not (full == "/m" or full.startswith("/m/")):
                ctx.violation("the validator accepts a name that denotes a path outside the mail directory",
                              {"name": s, "accepted_as": cn, "path_for_root_/m": full,
                               "replay": f"asimap.mbox.canonical_mbox_name({s!r})"})
                break


# ------------------------------------------------------------------ the jail
def snapshot(jail: Path, skip: Path):
    """every entry of the jail outside the mail root: type, size, mtime, content hash"""
    out = {}
    for dp, dns, fns in os.walk(jail, followlinks=False):
        if Path(dp) == skip:
            dns[:] = []
            continue
        dns[:] = [d for d in dns if Path(dp) / d != skip]
        for n in dns + fns:
            p = os.path.join(dp, n)
            r = os.path.relpath(p, jail)
            st = os.lstat(p)
            if os.path.islink(p):
                out[r] = ("link", os.readlink(p))
            elif os.path.isdir(p):
                out[r] = ("dir", st.st_mtime_ns, oct(st.st_mode))
            else:
                with open(p, "rb") as f:
                    h = hashlib.sha1(f.read()).hexdigest()
                out[r] = ("file", st.st_size, st.st_mtime_ns, h)
    st = os.lstat(jail)
    out["."] = ("dir", st.st_mtime_ns, oct(st.st_mode))
    return out


def dirs_under(root: Path):
    out = set()
    for dp, dns, _ in os.walk(root):
        for d in dns:
            out.add(os.path.join(dp, d))
    return out


def snap_diff(a, b):
    return {k: {"before": a.get(k), "after": b.get(k)} for k in sorted(set(a) | set(b)) if a.get(k) != b.get(k)}


def make_decoy(w):
    d = w.tmp / "decoy"
    if d.exists():
        shutil.rmtree(d)
    mh = mailbox.MH(str(d), create=True)
    for i in range(DECOY_N):
        mh.add(W.make_msg(900 + i, extra_headers="X-Decoy: c09-decoy-secret\n"))
    mh.set_sequences({"unseen": list(range(1, DECOY_N + 1))})
    sub = mailbox.MH(str(d / "sub"), create=True)
    sub.add(W.make_msg(990, extra_headers="X-Decoy: c09-decoy-secret\n"))
    (w.tmp / "secret.txt").write_text("c09-decoy-secret\n")


ANCESTOR_LITTER = [Path("/tmp/.mh_sequences"), Path("/.mh_sequences")]

ATOM_OK = re.compile(r"^[^\s(){%*\"\\\x00-\x1f\x7f\]]+$")
LIST_ATOM_OK = re.compile(r"^[^\s(){\"\\\x00-\x1f\x7f\]]+$")


def encodings(name: str, list_pat=False):
    out = []
    if (LIST_ATOM_OK if list_pat else ATOM_OK).match(name):
        out.append(("atom", name))
    if not any(c in name for c in '"\\\r\n'):
        out.append(("quoted", '"' + name + '"'))
    out.append(("literal", "{%d}\r\n%s" % (len(name.encode("latin-1")), name)))
    return out


def _walk_ok(start_depth, comps):
    """lexical walk from `start_depth` levels below the jail: never above the jail itself"""
    d = start_depth
    for c in comps:
        if c in ("", "."):
            continue
        if c == "..":
            d -= 1
            if d < 0:
                return False
        else:
            d += 1
    return True


def safe_name(name: str, jail: str) -> bool:
    """The check also runs against broken trees (the unfixed one, mutants).  Whatever such a tree makes
    of a name — relative to the mail root, or absolute — it must stay inside the jail, so that a
    failing run can damage nothing but the World's own temp dir."""
    jc = [c for c in jail.split("/") if c]
    if "\x00" in name:
        return False
    rel = name.lstrip("/")
    if not _walk_ok(1, rel.split("/")):          # read relative to <jail>/Mail
        return False
    if name.startswith("/"):                     # read as an absolute path: must lead into the jail
        comps = [c for c in os.path.normpath("/" + rel).split("/") if c]
        raw = [c for c in rel.split("/") if c not in ("", ".")]
        if raw[:len(jc)] != jc:
            # "/" alone (and "/." ...) denotes nothing
            return all(c in ("", ".") for c in rel.split("/"))
        return _walk_ok(0, raw[len(jc):]) and comps[:len(jc)] == jc
    return True


def attack_names(w, ctx):
    jail = str(w.tmp)           # "/tmp/asimap-verif-xxxx": absolute names stay inside the jail
    base = [
        "..", "../x", "../decoy", "../decoy/sub", "../decoy/..", "a/../../x", "a/../../decoy", "a/b/../../../decoy",
        "./../decoy", "../Mail/inbox", "..//decoy", "../decoy/",
        jail + "/decoy", "/" + jail + "/decoy", "//" + jail + "/decoy", "/" + jail + "/abs-new",
        "/" + jail + "/Mail/../decoy", jail + "/Mail/../decoy", "/" + jail + "/./decoy/sub", "/", ".", "",
        "a//b", "./x", "x/..", "INBOX/../..", "inbox/../../decoy", "INBOX/../../decoy/sub",
        "name with spaces/../../decoy", "../name with spaces", ".. /x", " ../decoy", "..a/x", "...", ".../decoy",
        "%2e%2e/decoy", "..%2fdecoy", "a/./b", "victim/../../decoy", "/inbox", "/victim/../../decoy",
    ]
    if ctx.thorough:
        base += ["a/../b/../../decoy", "../decoy/../decoy", "x y/../../decoy/sub", "..\\decoy", "../d\"q",
                 "é/../../decoy", "/" + jail + "//decoy", "/" + jail + "/Mail/inbox", "/" + jail + "/Mail/../decoy/sub",
                 "inbox/..", "inbox/../../Mail/inbox", "../decoy/../Mail/victim"]
    comps = ["..", "..", ".", "", "a", "decoy", "Mail", "inbox", "INBOX", "x y", "victim"]
    want = len(base) + (40 if ctx.thorough else 8)
    tries = 0
    while len(base) < want and tries < 2000:
        tries += 1
        k = ctx.rng.randrange(1, 6)
        pre = ctx.rng.choice(["", "", "", "/", "/" + jail + "/", jail + "/Mail/"])
        base.append(pre + "/".join(ctx.rng.choice(comps) for _ in range(k)))
    seen, out = set(), []
    for n in base:
        if n in seen or not safe_name(n, jail):
            continue
        seen.add(n)
        out.append(n)
        # the twin names nothing that exists: the answers must not tell the two apart
        if n.endswith("decoy") and n.replace("decoy", "nodecoy") not in seen:
            seen.add(n.replace("decoy", "nodecoy"))
            out.append(n.replace("decoy", "nodecoy"))
    return out


MSG = W.make_msg(1).decode()


def positions():
    lit = "{%d}\r\n%s" % (len(MSG), MSG)
    return [
        ("SELECT", "mbox", lambda n: f"t SELECT {n}"),
        ("EXAMINE", "mbox", lambda n: f"t EXAMINE {n}"),
        ("CREATE", "mbox", lambda n: f"t CREATE {n}"),
        ("DELETE", "mbox", lambda n: f"t DELETE {n}"),
        ("RENAME.src", "mbox", lambda n: f"t RENAME {n} renamed-to"),
        ("RENAME.dst", "mbox", lambda n: f"t RENAME victim {n}"),
        ("RENAME.inbox-dst", "mbox", lambda n: f"t RENAME inbox {n}"),
        ("SUBSCRIBE", "mbox", lambda n: f"t SUBSCRIBE {n}"),
        ("UNSUBSCRIBE", "mbox", lambda n: f"t UNSUBSCRIBE {n}"),
        ("STATUS", "mbox", lambda n: f"t STATUS {n} (MESSAGES UNSEEN RECENT UIDNEXT UIDVALIDITY)"),
        ("APPEND", "mbox", lambda n: f"t APPEND {n} {lit}"),
        ("COPY", "mbox", lambda n: f"t COPY 1 {n}"),
        ("UID COPY", "mbox", lambda n: f"t UID COPY * {n}"),
        ("MOVE", "mbox", lambda n: f"t MOVE 1 {n}"),
        ("LIST.ref", "mbox", lambda n: f't LIST {n} "*"'),
        ("LIST.pat", "pat", lambda n: f't LIST "" {n}'),
        ("LIST.ref%", "mbox", lambda n: f't LIST {n} "%"'),
        ("LSUB.ref", "mbox", lambda n: f't LSUB {n} "*"'),
        ("LSUB.pat", "pat", lambda n: f't LSUB "" {n}'),
        ("LIST.ext-pats", "pat", lambda n: f't LIST "" ("%" {n})'),
        ("LIST.status", "pat", lambda n: f't LIST "" {n} RETURN (STATUS (MESSAGES UNSEEN))'),
        ("LIST.subscribed", "pat", lambda n: f't LIST (SUBSCRIBED) "" {n}'),
    ]


def handler_names(text):
    """what the command handler receives: the parser's view of the name arguments"""
    from asimap.parse import BadCommand, IMAPClientCommand

    cmd = IMAPClientCommand(text)
    try:
        cmd.parse()
    except BadCommand:
        return None
    except Exception as e:
        return ("exception", repr(e))
    return {"command": str(cmd.command).lower(),
            "uid": getattr(cmd, "uid_command", False),
            "name": getattr(cmd, "mailbox_name", None),
            "src": getattr(cmd, "mailbox_src_name", None),
            "dst": getattr(cmd, "mailbox_dst_name", None),
            "pat": getattr(cmd, "list_mailbox", None),
            "pats": list(getattr(cmd, "list_patterns", []) or [])}


def model_cmds(h):
    """Coq terms (Model.Path.cmd) for a parsed command; LIST with several patterns = one per pattern"""
    c = h["command"]
    one = {"select": "CSelect", "examine": "CExamine", "create": "CCreate", "delete": "CDelete",
           "subscribe": "CSubscribe", "unsubscribe": "CUnsubscribe", "status": "CStatus", "append": "CAppend",
           "copy": "CCopy", "move": "CMove"}
    if c in one:
        return [f"({one[c]} {cs(h['name'])})"]
    if c == "rename":
        return [f"(CRename {cs(h['src'])} {cs(h['dst'])})"]
    if c in ("list", "lsub"):
        k = "CList" if c == "list" else "CLsub"
        pats = h["pats"] if h["pats"] else [h["pat"]]
        return [f"({k} {cs(h['name'])} {cs(p)})" for p in pats]
    return []


EDEFS = """
From Asimap Require Import Base.Res Model.Path Spec.Inside.
Open Scope Z_scope.
Definition refused (root : list Z) (cs : list cmd) : bool :=
  existsb (fun c => match cmd_paths root c with Err _ => true | Ok _ => false end) cs.
Fixpoint refused_from (i : nat) (l : list (list Z * list cmd)) : list nat :=
  match l with [] => [] | (r, cs) :: t => if refused r cs then i :: refused_from (S i) t else refused_from (S i) t end.
Definition paths_of (root : list Z) (c : cmd) : list (list Z) := match cmd_paths root c with Ok ps => ps | Err _ => [] end.
Definition all_inside (root : list Z) (c : cmd) : bool := forallb (insideb root) (paths_of root c).
"""


def history(w, kind):
    """a past that the attack runs after"""
    w.session("A")
    for line in ("t CREATE victim", "t SELECT inbox"):
        w.cmd("A", line)
    lit = "{%d}\r\n%s" % (len(MSG), MSG)
    w.cmd("A", f"t APPEND inbox {lit}")
    w.cmd("A", f"t APPEND inbox {lit}")
    if kind == "fresh":
        return
    for line in ("t CREATE a/b", "t SUBSCRIBE a/b", f"t APPEND a/b {lit}", "t CREATE old", "t RENAME old new",
                 "t DELETE new", "t RENAME a/b c", "t CREATE \"x y\"", "t DELETE a", 't LIST "" "*"',
                 "t UNSELECT"):
        w.cmd("A", line)
    w.restart()
    w.session("A")
    w.cmd("A", "t SELECT inbox")


def ensure_state(w):
    """the fixtures the positions rely on: `victim` exists, inbox is selected and holds a message"""
    h = w.handler("A")
    lit = "{%d}\r\n%s" % (len(MSG), MSG)
    if not (w.root / "victim").is_dir():
        w.cmd("A", "t CREATE victim")
    if getattr(h, "mbox", None) is None or h.mbox.name != "inbox":
        w.cmd("A", "t SELECT inbox")
    if len(w.mh_keys("inbox")) < 2:
        w.cmd("A", f"t APPEND inbox {lit}")
        w.cmd("A", f"t APPEND inbox {lit}")
    w.drain("A")


REVEAL = [re.compile(rb"c09-decoy-secret"), re.compile(rb"cid-9\d\d")]
LISTED = re.compile(rb'^\* (?:LIST|LSUB) \([^)]*\) "/" "(.*)"(?: \(.*\))?\r\n$', re.S)
STATUSED = re.compile(rb'^\* STATUS "(.*)" \(', re.S)


def masked(o: bytes, sent_name: str) -> bytes:
    """a response line with our own name (and anything the server quotes in '...') blanked"""
    b = o.replace(sent_name.encode("latin-1", "replace"), b"<name>")
    return re.sub(rb"'[^']*'", b"'<name>'", b)


def judge_response(out, sent_name):
    """-> list of complaints about what the response shows, independent of the model"""
    bad = []
    for o in out:
        c = W.classify(o)
        # the server may quote the name we sent in its NO/BAD text: that reveals nothing
        body = masked(o, sent_name) if (c[0] == "tagged" and c[2] in ("NO", "BAD")) else o
        for rx in REVEAL:
            if rx.search(body):
                bad.append(f"response shows {rx.pattern!r}: {o[:120]!r}")
        m, ms = LISTED.match(o), STATUSED.match(o)
        if m or ms:
            # LIST/LSUB show database names; STATUS echoes the client's spelling (a leading "/" is allowed)
            nm = (m or ms).group(1).decode("latin-1")
            if (m and nm.startswith("/")) or ".." in nm.split("/"):
                bad.append(f"a mailbox outside the mail directory is listed: {o[:120]!r}")
    return bad


def only_selected_mailbox_news(c):
    """besides the tagged NO/BAD a refused command may only carry queued news of the selected inbox
    (EXISTS / RECENT / EXPUNGE / FETCH FLAGS), with the inbox's own message count"""
    for line in c["response"]:
        k = W.classify(line.encode("latin-1"))
        if k[0] == "tagged":
            continue
        if k[0] in ("recent", "expunge", "fetchflags"):
            continue
        if k[0] == "exists" and k[1] == c["inbox_count"]:
            continue
        return False
    return True


def inbox_count(w):
    try:
        return len(w.mh_keys("inbox"))
    except Exception:
        return None


def active_outside(w):
    """active mailboxes whose folder path is not inside the mail root (white-box invariant)"""
    root = os.path.normpath(str(w.root))
    bad = []
    for name, mb in list(w.server.active_mailboxes.items()):
        raw = str(mb.mailbox._path)
        p = os.path.normpath(raw)
        if not (p == root or p.startswith(root + "/")) or name.startswith("/") or ".." in name.split("/") \
                or ".." in raw.split("/"):
            bad.append({"name": name, "path": raw})
    return bad


def db_names(w):
    async def q():
        return [r[0] async for r in w.server.db.query("SELECT name FROM mailboxes ORDER BY name")]

    return w.run(q())


def check_db(ctx, w, kind):
    validator = get_validator()
    from asimap.mbox import MailboxException

    for nm in db_names(w):
        okname = not (nm.startswith("/") or ".." in nm.split("/"))
        if okname and validator is not None:
            try:
                okname = validator(nm) == nm
            except MailboxException:
                okname = False
        if not okname:
            ctx.violation("the mailbox table holds a name that is not a canonical name inside the mail directory",
                          {"history": kind, "row_name": nm, "replay": "./check C09 --replay <this file>"})
            break


def run_world(ctx, kind, names, cases, restart_every=None):
    w = W.World()
    litter0 = {p: p.exists() for p in ANCESTOR_LITTER}
    n_since = 0
    try:
        make_decoy(w)
        history(w, kind)
        name_list = names(w)
        for pi, (pname, slot, mk) in enumerate(positions()):
            for ni, name in enumerate(name_list):
                encs = encodings(name, list_pat=(slot == "pat"))
                if not ctx.thorough and ni >= FULL_ENC_NAMES:
                    encs = [encs[(ni + pi) % len(encs)]]   # quick: the tail of the list rotates encodings
                for enc, token in encs:
                    text = mk(token)
                    try:
                        ensure_state(w)
                    except Exception:
                        # the previous command wrecked the session: start over in this world
                        try:
                            w.session("A")
                            ensure_state(w)
                        except Exception as e:
                            # ... or the mail root (a broken tree renamed or deleted the inbox)
                            if not ctx.violations:
                                ctx.proof_broken.append({"what": "end-to-end world became unusable",
                                                         "after": cases[-1]["command"] if cases else None,
                                                         "error": repr(e)})
                            return
                    if not (w.tmp / "decoy" / "1").exists():
                        make_decoy(w)
                    h = handler_names(text)
                    before = snapshot(w.tmp, w.root)
                    dirs0 = dirs_under(w.root) if pname == "CREATE" else None
                    exc = None
                    try:
                        out = w.cmd("A", text)
                    except Exception as e:
                        exc = repr(e)
                        out = w.drain("A")
                    after = snapshot(w.tmp, w.root)
                    dirs1 = dirs_under(w.root) if pname == "CREATE" else None
                    tagged = None
                    for o in reversed(out):
                        c = W.classify(o)
                        if c[0] == "tagged":
                            tagged = c[2]
                            break
                    case = {"history": kind, "position": pname, "encoding": enc, "name": name, "command": text,
                            "handler_sees": h, "status": tagged, "exception": exc,
                            "response": [o.decode("latin-1")[:200] for o in out][:12],
                            "root": str(w.root), "inbox_count": inbox_count(w),
                            "new_dirs": sorted(dirs1 - dirs0) if dirs0 is not None else None}
                    d = snap_diff(before, after)
                    if d:
                        ctx.violation(f"{pname}: a mailbox name changed the file system outside the mail directory",
                                      dict(case, outside_diff=d, replay=f"./check C09 --replay <this file>"))
                    ao = active_outside(w)
                    if ao:
                        ctx.violation(f"{pname}: the server opened a folder outside the mail directory",
                                      dict(case, opened=ao, replay="./check C09 --replay <this file>"))
                    for complaint in judge_response(out, name):
                        ctx.violation(f"{pname}: {complaint.split(':')[0]}",
                                      dict(case, complaint=complaint, replay="./check C09 --replay <this file>"))
                        break
                    cases.append(case)
                    ctx.count({"h": kind, "p": pname, "e": enc, "n": name}, nontrivial=True)
                    n_since += 1
                    if restart_every and n_since >= restart_every:
                        n_since = 0
                        w.restart()
                        w.session("A")
        check_db(ctx, w, kind)
    finally:
        w.close()
        for p, existed in litter0.items():
            if not existed and p.exists() and p.stat().st_size == 0:
                p.unlink()


def end_to_end(ctx, proof_ok):
    cases: list[dict] = []

    def names(w):
        return attack_names(w, ctx)

    short = lambda w: attack_names(w, ctx)[:12]
    run_world(ctx, "fresh", names, cases)
    run_world(ctx, "history+restart", names if ctx.thorough else short, cases,
              restart_every=(97 if ctx.thorough else None))
    # ---- the model's verdict on every command that reached a handler
    idx = [i for i, c in enumerate(cases) if isinstance(c["handler_sees"], dict) and model_cmds(c["handler_sees"])]
    refused = set()
    create_paths = {}
    if proof_ok and idx:
        chunks = [idx[i:i + CHUNK] for i in range(0, len(idx), CHUNK)]
        texts = []
        for ch in chunks:
            items = []
            for i in ch:
                c = cases[i]
                items.append(f"({cs(c['root'])}, {clist(model_cmds(c['handler_sees']))})")
            t = EDEFS + "Definition cases : list (list Z * list cmd) := " + clist(items) + ".\n"
            t += "Eval vm_compute in (refused_from 0 cases).\n"
            texts.append(t)
        # CREATE answered OK: which directories does the model derive?
        cre = [i for i in idx if cases[i]["position"] == "CREATE" and cases[i]["status"] == "OK"]
        if cre:
            items = [f"(paths_of {cs(cases[i]['root'])} {model_cmds(cases[i]['handler_sees'])[0]})" for i in cre]
            texts.append(EDEFS + "Eval vm_compute in " + clist(items) + ".\n")
        outs = ctx.coq.eval_many("c09e", texts)
        for k, ch in enumerate(chunks):
            v = core.parse_coq_values(outs[k])[0]
            for x in re.findall(r"\d+", v):
                refused.add(ch[int(x)])
        if cre:
            v = core.parse_coq_values(outs[-1])[0]
            data = json.loads(v.replace(";", ","))
            for i, ps in zip(cre, data):
                create_paths[i] = ["".join(chr(x) for x in p) for p in ps]
    refused_ids = {id(cases[i]) for i in refused}
    pairs = 0
    # ---- existence must not show: `<x>decoy` (exists outside) and `<x>nodecoy` (does not) answer alike
    by_key = {(c["history"], c["position"], c["encoding"], c["name"]): c for c in cases}
    for (h, p, e, n), c in list(by_key.items()):
        if not n.endswith("decoy") or n.endswith("nodecoy"):
            continue
        t = by_key.get((h, p, e, n.replace("decoy", "nodecoy")))
        if t is None:
            continue
        if id(c) not in refused_ids:
            continue  # a name inside the root: existence may of course show
        pairs += 1
        news = ("exists", "recent", "expunge", "fetchflags")   # queued news of the selected inbox
        a = [masked(x.encode("latin-1"), n) for x in c["response"]
             if W.classify(x.encode("latin-1"))[0] not in news]
        b = [masked(x.encode("latin-1"), t["name"]) for x in t["response"]
             if W.classify(x.encode("latin-1"))[0] not in news]
        if a != b:
            ctx.violation(f"{p}: the answer tells an existing directory outside the mail directory from a missing one",
                          dict(c, twin=t["command"], twin_response=t["response"],
                               replay="./check C09 --replay <this file>"))
    dist = {}
    for i, c in enumerate(cases):
        key = c["position"]
        d = dist.setdefault(key, {"cases": 0, "model_refuses": 0, "NO": 0, "BAD": 0, "OK": 0, "other": 0})
        d["cases"] += 1
        d[c["status"] if c["status"] in ("NO", "BAD", "OK") else "other"] += 1
        if i in refused:
            d["model_refuses"] += 1
            if c["status"] not in ("NO", "BAD"):
                ctx.violation(f"{c['position']}: a name that reaches outside the mail directory was not refused",
                              dict(c, expected="NO or BAD (Model.Path.cmd_paths = Err)",
                                   replay="./check C09 --replay <this file>"))
            elif not only_selected_mailbox_news(c):
                ctx.violation(f"{c['position']}: a refused name still produced untagged data",
                              dict(c, expected="NO or BAD only (Model.Path.cmd_paths = Err)",
                                   replay="./check C09 --replay <this file>"))
        if i in create_paths:
            model = {os.path.normpath(p) for p in create_paths[i]}
            made = {os.path.normpath(p) for p in (c["new_dirs"] or [])}
            if not made <= model:
                ctx.proof_broken.append({"what": "model/code tie: CREATE made directories the model does not derive",
                                         "command": c["command"], "made": sorted(made), "model": sorted(model)})
    ctx.extra["end_to_end"] = {"commands": len(cases), "judged_by_model": len(idx), "model_refuses": len(refused),
                               "by_position": dist,
                               "by_encoding": {e: sum(1 for c in cases if c["encoding"] == e)
                                               for e in ("atom", "quoted", "literal")},
                               "by_history": {h: sum(1 for c in cases if c["history"] == h)
                                              for h in ("fresh", "history+restart")},
                               "existence_pairs_compared": pairs,
                               "parser_refused": sum(1 for c in cases if c["handler_sees"] is None)}
    if proof_ok and idx and not refused:
        ctx.proof_broken.append({"what": "the attack language contains no name the model refuses (vacuous run)"})


def table_level(ctx, proof_ok):
    """the mailbox table after a scripted history vs Model.Path.db_run (an over-approximation)"""
    def sel(old):
        return f"(fun r => str_eqb r {cs(old)} || startswith r {cs(old + '/')})"

    script = [
        ("t SELECT inbox", f"OpGet {cs('inbox')}"),
        ("t CREATE a/b", f"OpCreate {cs('a/b')}"),
        ('t CREATE "x y"', f"OpCreate {cs('x y')}"),
        ("t CREATE ../esc", f"OpCreate {cs('../esc')}"),
        ("t RENAME a c", f"OpRename {cs('a')} {cs('c')} {sel('a')}"),
        ("t RENAME c ../esc2", f"OpRename {cs('c')} {cs('../esc2')} {sel('c')}"),
        ("t CREATE c/b/d", f"OpCreate {cs('c/b/d')}"),
        ("t DELETE c/b/d", f"OpDelete {cs('c/b/d')}"),
        ("t RENAME inbox saved", f"OpCreate {cs('saved')}"),
        ('t STATUS "/x y" (MESSAGES)', f"OpGet {cs('/x y')}"),
        ("t CREATE INBOX/sub", f"OpCreate {cs('INBOX/sub')}"),
        ("t CREATE /lead//slash/./", f"OpCreate {cs('/lead/slash')}"),
        ('t LIST "" "*"', None),
    ]
    w = W.World()
    try:
        w.session("A")
        outs = [(line, [o.decode("latin-1")[:100] for o in w.cmd("A", line)]) for line, _ in script]
        real = set(db_names(w))
        listed = set()
        for o in outs[-1][1]:
            m = LISTED.match(o.encode("latin-1"))
            if m:
                listed.add(m.group(1).decode("latin-1"))
        check_db(ctx, w, "table")
    finally:
        w.close()
    ctx.count({"table": [l for l, _ in script]}, nontrivial=True)
    if not proof_ok:
        return
    t = ("From Asimap Require Import Base.Res Model.Path.\nOpen Scope Z_scope.\nEval vm_compute in (db_run "
         + clist([op for _, op in script if op]) + ").\n")
    v = core.parse_coq_values(ctx.coq.eval_cases("c09t", t))[0]
    model = {"".join(chr(x) for x in row) for row in json.loads(v.replace(";", ","))}
    ctx.extra["table_level"] = {"rows_real": sorted(real), "rows_model": sorted(model)}
    if not real <= model:
        ctx.proof_broken.append({"what": "model/code tie: the mailbox table holds rows Model.Path.db_run does not derive",
                                 "extra_rows": sorted(real - model), "history": outs})
    shown = {("inbox" if n == "INBOX" else n) for n in listed}
    if not shown <= real:
        ctx.proof_broken.append({"what": "model/code tie: LIST shows a name that is not a row of the mailbox table",
                                 "names": sorted(shown - real)})


def run(ctx):
    ctx.coverage["rule"] = ("function level: every string over {a . /} up to length 6 (quick) / 8 (thorough) plus random "
                            "strings (spaces, INBOX spellings, control and non-ASCII characters, slash-joined special "
                            "components); non-trivial = contains '/' or '.'.  end to end: every mailbox-name position x "
                            "attack name x encoding (atom/quoted/literal) x history (fresh | history+restart); distinct = "
                            "distinct (history, position, encoding, name)")
    import time

    phases = {}
    t0 = time.time()
    ok = ctx.prove("Properties/C09.v")
    phases["prove"] = round(time.time() - t0, 1)
    t0 = time.time()
    function_level(ctx, ok)
    phases["function_level"] = round(time.time() - t0, 1)
    t0 = time.time()
    table_level(ctx, ok)
    phases["table_level"] = round(time.time() - t0, 1)
    t0 = time.time()
    end_to_end(ctx, ok)
    phases["end_to_end"] = round(time.time() - t0, 1)
    ctx.extra["phase_seconds"] = phases
    ctx.trusted += [
        "modelled, not verified: the kernel's path resolution (lexical `inside` = no symbolic links inside the mail "
        "root; RENAME's transient symlink is taken as the rename it ends as), mailbox.MH / pathlib joining root and "
        "name as os.path.join does (compared modulo normpath on every run), the parser handing the handlers "
        "os.path.normpath(name)",
        "Model/Path.v cmd_paths lists the path derivations of the handlers by reading client.py/mbox.py/"
        "user_server.py (over-approximation); tied by the end-to-end run: refusals and CREATE's directories"]
    ctx.assume += ["the mail root is str(Path): not empty and without a trailing '/' (root_ok)",
                   "no symbolic links are planted inside the mail root (find_all_folders follows them)",
                   "database rows carry names that went through the validator (fresh database, or one written by "
                   "the fixed code)"]


def replay(ctx, path):
    r = json.load(open(path))
    print(json.dumps({k: r.get(k) for k in ("what", "history", "position", "encoding", "name", "command", "status",
                                             "response", "outside_diff", "complaint", "expected", "broken")},
                     indent=1)[:3000])
    if "command" not in r:
        if r.get("name") is not None and get_validator() is not None:
            try:
                print("now:", repr(get_validator()(r["name"])))
            except Exception as e:
                print("now:", repr(e))
        return 0
    w = W.World()
    litter0 = {p: p.exists() for p in ANCESTOR_LITTER}
    try:
        make_decoy(w)
        history(w, r.get("history", "fresh"))
        ensure_state(w)
        text = r["command"].replace(r.get("root", "\0").rsplit("/", 1)[0], str(w.tmp))
        before = snapshot(w.tmp, w.root)
        try:
            out = w.cmd("A", text)
        except Exception as e:
            out = [repr(e).encode()]
        after = snapshot(w.tmp, w.root)
        d = snap_diff(before, after)
        print("replayed:", text[:200])
        print("response:", out[:8])
        print("outside diff:", json.dumps(d, indent=1)[:1500])
        bad = bool(d) or bool(judge_response(out, r.get("name", "")))
        st = None
        for o in reversed(out):
            c = W.classify(o)
            if c[0] == "tagged":
                st = c[2]
                break
        if r.get("expected", "").startswith("NO or BAD") and st not in ("NO", "BAD"):
            bad = True
        print("REPRODUCED" if bad else "not reproduced")
        return 1 if bad else 0
    finally:
        w.close()
        for p, existed in litter0.items():
            if not existed and p.exists() and p.stat().st_size == 0:
                p.unlink()
