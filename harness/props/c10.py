"""C10 — concurrent sessions behave like some sequential order and never deadlock.

Proof:  coq/Properties/C10.v (admission relation sound for the commands' footprints; commuting steps
        => every interleaving equals a serial execution, any number of commands; the
        one-mailbox-at-a-time discipline of COPY/MOVE excludes deadlock, with mutual exclusion).
Tie:    X (a) Mailbox.would_conflict vs Model/Sched.v on an enumerated domain (every command kind x
              PEEK x message sets x running lists of <= 1 commands exhaustively, longer lists sampled);
          (b) schedule exploration: after a generated history, 2-3 sessions issue commands at the
              same time under seeded perturbation of every I/O completion (database thread, file
              executor, arrival offsets) in virtual time; every command must complete (no deadlock,
              no starvation, never by the watchdog); the tagged results and the final mailbox
              contents must equal those of SOME sequential order of the same commands in the
              proved sequential model (evaluated in Coq, Model/Linear.v); every session's stream is
              replayed with the C01 oracle afterwards;
          (c) opposite-direction COPY/MOVE, commands queued behind EXPUNGE, DELETE/RENAME of a
              mailbox with queued commands: completion.
"""
import asyncio
import itertools
import json
import multiprocessing as mp
import random
import re
import types

import core
from core import clist, cz, cbool, cstr
import mboxx
import world as W

KINDS = ["append", "check", "close", "delete", "expunge", "move", "rename", "copy", "fetchpeek", "fetch", "noop", "select",
         "status", "examine", "search", "store"]
COQK = {"append": "KAppend", "check": "KCheck", "close": "KClose", "delete": "KDelete", "expunge": "KExpunge",
        "move": "KMove", "rename": "KRename", "copy": "KCopy", "fetchpeek": "(KFetch true)", "fetch": "(KFetch false)",
        "noop": "KNoop", "select": "KSelect", "status": "KStatus", "examine": "KExamine", "search": "KSearch",
        "store": "KStore"}
SETS = [[], [1], [2], [1, 2]]


def mk_cmd(kind, st):
    from asimap.parse import IMAPClientCommand, IMAPCommand

    c = IMAPClientCommand("x")
    c.command = IMAPCommand("fetch" if kind.startswith("fetch") else kind)
    c.fetch_peek = kind != "fetch"
    c.msg_set_as_set = set(st) if st else None
    return c


def conflict_level(ctx):
    from asimap.mbox import Mailbox

    cases = []
    singles = [(k, s) for k in KINDS for s in SETS]
    runs = [[]] + [[x] for x in singles]
    for _ in range(3000 if ctx.thorough else 600):
        runs.append([ctx.rng.choice(singles) for _ in range(ctx.rng.choice([2, 2, 3]))])
    for c in singles:
        for r in runs if len(runs) < 200 else (runs[:65] + ctx.rng.sample(runs[65:], 40 if not ctx.thorough else 200)):
            for deleted in (False, True):
                stub = types.SimpleNamespace(executing_tasks=[mk_cmd(*x) for x in r],
                                             sequences={"Deleted": {1} if deleted else set()})
                try:
                    got = bool(Mailbox.would_conflict(stub, mk_cmd(*c)))
                except Exception as e:
                    ctx.violation("would_conflict raised", {"command": c, "running": r, "error": repr(e)})
                    continue
                cases.append((c, r, deleted, got))
                ctx.count({"cmd": c, "running": r, "deleted": deleted}, nontrivial=len(r) > 0)
    def cc(x):
        return f"{{| c_kind := {COQK[x[0]]}; c_set := {clist([cz(v) for v in x[1]])} |}}"
    texts = []
    for i in range(0, len(cases), 500):
        ch = cases[i:i + 500]
        t = "From Asimap Require Import Base.Res Model.Sched.\nOpen Scope Z_scope.\n"
        t += ("Fixpoint bad (i : nat) (cs : list (cmd * list cmd * bool * bool)) : list nat := match cs with [] => [] | "
              "(c, r, d, g) :: rest => if Bool.eqb (would_conflict r d c) g then bad (S i) rest else i :: bad (S i) rest end.\n")
        t += "Definition cases := " + clist([f"({cc(c)}, {clist([cc(x) for x in r])}, {cbool(d)}, {cbool(g)})" for c, r, d, g in ch]) + ".\n"
        t += "Eval vm_compute in (bad 0 cases).\n"
        texts.append(t)
    outs = ctx.coq.eval_many("c10w", texts)
    for k, out in enumerate(outs):
        for i in [int(x) for x in re.findall(r"\d+", core.parse_coq_values(out)[0])][:2]:
            c, r, d, g = cases[k * 500 + i]
            ctx.violation("Mailbox.would_conflict differs from the admission relation the theorems are about",
                          {"command": c, "running": r, "deleted_nonempty": d, "implementation": g})
    ctx.extra["would_conflict_cases"] = len(cases)


CONC_KINDS = {"store": 10, "fetch": 8, "expunge": 8, "append": 6, "copy": 6, "move": 6, "noop": 3, "search": 2, "check": 1}


def concurrent_case(args):
    """args = (seed,) for a generated case, (seed, fixed) for a corpus case: fixed = {"prefix": [op...], "cmds": [op...]}
    (a history that once exposed a defect, kept in corpus/c10.json; run under the schedule the seed gives)"""
    seed = args[0]
    fixed = args[1] if len(args) > 1 else None
    rng = random.Random(seed)
    if fixed:
        ids = [o[1] for o in fixed["prefix"] + fixed["cmds"] if len(o) > 1 and isinstance(o[1], int)]
        nsess = max(ids + [2])
    else:
        nsess = rng.choice([2, 3, 3])
    h = mboxx.History(rng, nsess=nsess, mix={"append": 12, "select": 10, "idle": 0, "restart": 0, "poll": 1, "deliver": 2,
                                              "close": 1, "unselect": 1})
    w = W.World(seed=seed)
    res = {"seed": seed, "error": None, "corpus": bool(fixed)}
    try:
        if fixed:
            h.run(w, 0)
            for op in fixed["prefix"]:
                if op[0] == "mkbox":
                    continue           # History.run has created the second mailbox
                issuer = mboxx.SESS.get(op[1]) if len(op) > 1 and isinstance(op[1], int) else None
                pre_ = h.snapshot(w)
                obs = h._run(w, op, issuer)
                h.ops.append(op); h.obs.append(obs); h.snaps.append((pre_, h.snapshot(w))); h.note(w, op, obs)
        else:
            h.run(w, rng.randint(6, 22))
        # everybody selects something so that commands are meaningful
        for i in range(1, nsess + 1):
            if h.selected[i] is None and not fixed:
                op = ("select", i, rng.choice(h.boxes), False)
                obs = h._run(w, op, mboxx.SESS[i])
                h.ops.append(op); h.obs.append(obs); h.snaps.append((h.snapshot(w), h.snapshot(w))); h.note(w, op, obs)
        prefix = list(h.ops)
        # one command per session, issued together
        cmds = list(fixed["cmds"]) if fixed else []
        sess = list(range(1, nsess + 1))
        rng.shuffle(sess)
        for s in ([] if fixed else sess[:rng.choice([2, nsess])]):
            h.mix = dict(CONC_KINDS)
            for _ in range(50):
                kinds = list(CONC_KINDS)
                k = rng.choices(kinds, [CONC_KINDS[x] for x in kinds])[0]
                saved = h.mix
                h.mix = {x: (1 if x == k else 0) for x in list(saved) + ["select", "unselect", "close", "idle", "poll", "deliver", "restart", "noop", "check", "search"]}
                h.mix[k] = 1
                op = h.choose()
                h.mix = saved
                if op[0] == k and len(op) > 1 and op[1] == s:
                    cmds.append(op)
                    break
        if len(cmds) < 2:
            res["skip"] = True
            return res
        pre = h.snapshot(w)
        w.set_jitter(random.Random(seed ^ 0x5A5A))
        texts = []
        for op in cmds:
            texts.append(cmd_text(op))

        async def one(op, text, delay):
            if delay:
                await asyncio.sleep(delay)
            return await w.acmd(mboxx.SESS[op[1]], text)

        async def batch():
            return await asyncio.wait_for(asyncio.gather(*[one(op, t, rng.choice([0, 0, 0.001, 0.004])) for op, t in zip(cmds, texts)],
                                                         return_exceptions=True), 600)
        t0 = w.loop.time()
        try:
            outs = w.loop.run_until_complete(batch())
        except asyncio.TimeoutError:
            res["deadlock"] = {"commands": [repr(c) for c in cmds], "prefix": [repr(o) for o in prefix]}
            return res
        w.set_jitter(None)
        w.quiesce()
        elapsed = w.loop.time() - t0
        w.settle(25)    # let every management task poll: deliveries still pending are taken in (as OPoll in the model)
        obs = {}
        tagged = []
        moveok = []
        data = []
        for op, o in zip(cmds, outs):
            if isinstance(o, Exception):
                res["error"] = f"{op!r} raised {o!r}"
                return res
            rs = mboxx.to_resps(o + w.proxy(mboxx.SESS[op[1]]).take())
            obs[op[1]] = rs
            tg = [r for r in rs if r[0] in ("ok", "no", "bad")]
            tagged.append(tg[-1] if tg else ("other", b"none"))
            mk = [r for r in rs if r[0] == "moveok"]
            moveok.append(mk[-1] if mk else None)
            data.append([r for r in rs if r[0] in ("fetch", "body", "search")])
        for sid, name in mboxx.SESS.items():
            if name in w.sessions and sid not in obs:
                ch = w.proxy(name).take()
                if ch:
                    obs[sid] = mboxx.to_resps(ch)
        h.ops.append(("batch",)); h.obs.append(obs); h.snaps.append((pre, h.snapshot(w)))
        # flush everybody, then the stream oracle
        for i in range(1, nsess + 1):
            op = ("noop", i)
            o2 = h._run(w, op, mboxx.SESS[i])
            h.ops.append(op); h.obs.append(o2); h.snaps.append((None, h.snapshot(w)))
        # nothing is left behind that starves later commands: a command that needs the mailbox to itself (CHECK) is
        # answered at once by every session that has a mailbox selected
        for i in range(1, nsess + 1):
            if h.selected.get(i):
                t1 = w.loop.time()
                o3 = w.cmd(mboxx.SESS[i], "z CHECK")
                if w.loop.time() - t1 >= 100 or any(b"timed out" in x for x in o3) or not any(x.startswith(b"z ") for x in o3):
                    res["starved"] = {"session": i, "reply": [repr(x[:100]) for x in o3], "virtual_seconds": w.loop.time() - t1,
                                      "commands": [repr(c) for c in cmds], "prefix": [repr(o) for o in prefix]}
                    break
        post = h.snapshot(w)
        res.update({"prefix": prefix, "cmds": cmds, "tagged": tagged, "moveok": moveok, "data": data, "elapsed": elapsed, "final": post["boxes"],
                    "stream_oracle": mboxx.replay_oracle(h)[:3], "uid_oracle": mboxx.uid_oracle(h)[:3],
                    "timed_out": any(b"timed out" in x for o in outs if not isinstance(o, Exception) for x in o),
                    "pack": h.pack})
    except Exception:
        import traceback
        res["error"] = traceback.format_exc()[-1500:]
    finally:
        w.close()
    return res


def cmd_text(op):
    k = op[0]
    if k == "store":
        _, _, uidc, st, act, silent, fl = op
        name = {"+": "+FLAGS", "-": "-FLAGS", "=": "FLAGS"}[act] + (".SILENT" if silent else "")
        return f"t {'UID ' if uidc else ''}STORE {mboxx.set_text(st)} {name} {mboxx.imap_flags(fl)}"
    if k == "fetch":
        _, _, uidc, st, kind = op
        att = {"flags": "(FLAGS)", "peek": "(BODY.PEEK[HEADER.FIELDS (SUBJECT)] INTERNALDATE)",
               "body": "(BODY[HEADER.FIELDS (SUBJECT)] INTERNALDATE)",
               "both": "(FLAGS BODY[HEADER.FIELDS (SUBJECT)] INTERNALDATE)"}[kind]
        return f"t {'UID ' if uidc else ''}FETCH {mboxx.set_text(st)} {att}"
    if k == "expunge":
        return "t EXPUNGE" if op[2] is None else f"t UID EXPUNGE {mboxx.set_text(op[2])}"
    if k == "append":
        _, _, m, fl, date, cid = op
        lit = W.make_msg(cid)
        return f't APPEND {m} {mboxx.imap_flags(fl)} "{mboxx.fmt_date(date)}" {{{len(lit)}}}\r\n' + lit.decode()
    if k in ("copy", "move"):
        _, _, uidc, st, dst = op
        return f"t {'UID ' if uidc else ''}{k.upper()} {mboxx.set_text(st)} {dst}"
    if k == "search":
        _, _, uidc, flag = op
        key = {"\\Seen": "SEEN", "\\Deleted": "DELETED", "\\Flagged": "FLAGGED", "\\Answered": "ANSWERED",
               "\\Draft": "DRAFT", "\\Recent": "RECENT"}.get(flag, f"KEYWORD {flag}")
        return f"t {'UID ' if uidc else ''}SEARCH {key}"
    return f"t {k.upper()}"


def atoms_term(i, op, tagged, moveok, data=()):
    """a command as its documented steps"""
    want = mboxx.c_resp(tagged)
    if op[0] in ("copy", "move"):
        _, s, uidc, st, dst = op
        mv = op[0] == "move"
        atoms = [f"(ARead {i} {s} {cbool(uidc)} {mboxx.c_set(st)} {cstr(dst)} {cbool(mv)} {want})"]
        if mv:
            mk = mboxx.c_resp(moveok) if moveok else "(ROk CNone)"
            atoms.append(f"(AAdd {i} {s} {cstr(dst)} true {mk})")
            atoms.append(f"(ADel {i} {s} {want})")
        else:
            atoms.append(f"(AAdd {i} {s} {cstr(dst)} false {want})")
        return clist(atoms)
    return clist([f"(AOp {mboxx.c_op(op)} {want} {clist([mboxx.c_resp(r) for r in data])})"])


def digest_term(boxes):
    items = []
    for name, st in sorted(boxes.items()):
        msgs = []
        for key, uid in zip(st["keys"], st["uids"]):
            seqs = sorted(n for n, ks in st["seqs"].items() if key in ks)
            msgs.append(f"({cz(uid)}, {clist([cstr(x) for x in seqs])})")
        items.append(f"({cstr(name)}, {clist(msgs)})")
    return clist(items)


def schedule_level(ctx):
    n = 400 if ctx.thorough else 64
    seeds = [ctx.rng.randrange(1 << 30) for _ in range(n)]
    # the corpus first: histories that once exposed a defect, each under several schedules
    import ast
    corpus = json.load(open(core.VERIF / "corpus" / "c10.json"))
    jobs = []
    for e in corpus:
        fx = {"prefix": [ast.literal_eval(x) for x in e["prefix"]], "cmds": [ast.literal_eval(x) for x in e["cmds"]]}
        for k in range(8 if ctx.thorough else 3):
            jobs.append((ctx.rng.randrange(1 << 30), fx))
    ctx.extra["corpus_cases"] = len(jobs)
    jobs += [(s,) for s in seeds]
    with mp.get_context("fork").Pool(min(core.NPROC, len(jobs))) as pool:
        results = pool.map(concurrent_case, jobs, chunksize=1)
    good = []
    for r in results:
        if r.get("skip"):
            continue
        if r.get("error"):
            ctx.violation("the implementation raised during a concurrent batch", {"case_seed": r["seed"], "error": r["error"]})
            continue
        if r.get("starved"):
            ctx.violation("after a concurrent batch a command that needs the mailbox to itself is no longer answered "
                          "(something the batch left behind is taken for a running command)", dict(r["starved"], case_seed=r["seed"]))
            continue
        if r.get("deadlock"):
            ctx.violation("concurrent commands did not all complete (deadlock or starvation)", dict(r["deadlock"], case_seed=r["seed"]))
            continue
        kinds = sorted(c[0] for c in r["cmds"])
        ctx.count({"case_seed": r["seed"], "commands": [repr(c) for c in r["cmds"]], "prefix_len": len(r["prefix"])},
                  nontrivial=len(set(kinds)) > 1 or "expunge" in kinds)
        if r["timed_out"] or r["elapsed"] >= 100:
            ctx.violation("a concurrent command was finished by the watchdog / took implausibly long",
                          {"case_seed": r["seed"], "commands": [repr(c) for c in r["cmds"]], "elapsed": r["elapsed"]})
        for (k, d) in (r["stream_oracle"] + r["uid_oracle"])[:1]:
            ctx.violation("after a concurrent batch a session's view is illegal or stale: " + d,
                          {"case_seed": r["seed"], "prefix": [repr(o) for o in r["prefix"]], "commands": [repr(c) for c in r["cmds"]]})
        good.append(r)
    # linearizability against the proved sequential model, inside Coq
    texts, groups = [], []
    per = 8
    for i in range(0, len(good), per):
        g = good[i:i + per]
        t = mboxx.MODEL_HDR + "From Asimap Require Import Model.Linear Model.PhasesCmp.\n"
        for j, r in enumerate(g):
            ps, pn, pd = r["pack"]
            cm = clist([atoms_term(i, op, tg, mk, dt) for i, (op, tg, mk, dt) in
                        enumerate(zip(r["cmds"], r["tagged"], r["moveok"], r["data"]))])
            t += (f"Definition lin_{j} := linearizable_steps (init_world {ps} {pn} {pd}) {clist([mboxx.c_op(o) for o in r['prefix']])} "
                  f"{cm} {digest_term(r['final'])}.\n")
        t += "Eval vm_compute in " + clist([f"lin_{j}" for j in range(len(g))]) + ".\n"
        # the two-step model of FETCH/STORE/SEARCH against the atomic one, on every world of these histories
        t += "Eval vm_compute in " + clist([f"first_disagreement (init_world {r['pack'][0]} {r['pack'][1]} {r['pack'][2]}) "
                                            f"{clist([mboxx.c_op(o) for o in r['prefix']])} 0" for r in g]) + ".\n"
        texts.append(t)
        groups.append(g)
    outs = ctx.coq.eval_many("c10l", texts, timeout=1200)
    nonlin = 0
    for g, out in zip(groups, outs):
        pv = core.parse_coq_values(out)
        for r, d in zip(g, re.findall(r"-?\d+", pv[1])):
            if int(d) >= 0:
                ctx.proof_broken.append({"what": "Model/Phases.v (arrive; execute) and Model/Mbox.v step disagree on a reachable world",
                                         "case_seed": r["seed"], "op_index": int(d), "prefix": [repr(o) for o in r["prefix"]]})
        vals = re.findall(r"true|false", pv[0])
        for r, v in zip(g, vals):
            if v == "false":
                nonlin += 1
                if nonlin <= 3:
                    ctx.violation("no sequential order of the concurrently issued commands explains the results",
                                  {"case_seed": r["seed"], "prefix": [repr(o) for o in r["prefix"]],
                                   "concurrent_commands": [repr(c) for c in r["cmds"]], "tagged_results": [repr(t) for t in r["tagged"]],
                                   "data_sent_to_issuers": [[repr(x) for x in d] for d in r["data"]],
                                   "final_mailboxes": {k: {"uids": v2["uids"], "seqs": v2["seqs"]} for k, v2 in r["final"].items()},
                                   "how": "schedule = seeded jitter on every I/O completion (seed ^ 0x5A5A) + arrival offsets"})
    ctx.extra["concurrent_batches"] = len(good)
    ctx.coverage["traces_validated_against_impl"] = len(good) - nonlin


def namespace_races(ctx):
    """DELETE / RENAME of a mailbox that has commands queued: everything completes"""
    import itertools
    combos = list(itertools.product(range(4), range(4), range(4)))
    if not ctx.thorough:
        combos = ctx.rng.sample(combos, 16)
    for pick in combos:
        seed = ctx.rng.randrange(1 << 30)
        rng = random.Random(seed)
        w = W.World(seed=seed)
        try:
            for n in ("A", "B", "C"):
                w.session(n)
            w.cmd("A", "t CREATE box1")
            w.cmd("A", "t CREATE box2")
            for i in range(4):
                lit = W.make_msg(i + 1)
                w.cmd("A", f"t APPEND box1 {{{len(lit)}}}\r\n" + lit.decode())
            w.cmd("A", "t SELECT box1")
            w.cmd("B", "t SELECT box1")
            w.set_jitter(random.Random(seed + 1))
            cmds = [("A", ["t FETCH 1:* (FLAGS BODY[])", "t STORE 1:* +FLAGS (\\Deleted)", "t EXPUNGE", "t MOVE 1:2 box2"][pick[0]]),
                    ("B", ["t STORE 2 +FLAGS (kw1)", "t COPY 1:* box2", "t NOOP", "t SEARCH ALL"][pick[1]]),
                    ("C", ["t DELETE box1", "t RENAME box1 box3", "t DELETE box2", "t RENAME box2 box4"][pick[2]])]

            async def batch():
                return await asyncio.wait_for(asyncio.gather(*[w.acmd(s, c) for s, c in cmds], return_exceptions=True), 600)
            try:
                outs = w.loop.run_until_complete(batch())
            except asyncio.TimeoutError:
                ctx.violation("commands racing a DELETE/RENAME did not all complete", {"seed": seed, "commands": cmds})
                continue
            ctx.count({"namespace_race": cmds}, nontrivial=True)
            for (s, c), o in zip(cmds, outs):
                if isinstance(o, Exception):
                    ctx.violation("a command racing a DELETE/RENAME raised", {"seed": seed, "commands": cmds, "error": repr(o)})
                elif not any(re.match(rb"^t (OK|NO|BAD)", x) for x in o) and b"* BYE" not in b"".join(o):
                    ctx.violation("a command racing a DELETE/RENAME got no tagged reply", {"seed": seed, "commands": cmds, "out": repr(o)})
                elif any(b"timed out" in x for x in o):
                    ctx.violation("a command racing a DELETE/RENAME was finished by the watchdog", {"seed": seed, "commands": cmds})
        finally:
            w.close()


def move_races(ctx):
    """MOVE's removal phase against other sessions' commands on the same mailbox: a non-UID FETCH/STORE/SEARCH of another
    session is never sent an EXPUNGE, and every FETCH line it is sent names a position of the list it has been told"""
    others = ["t FETCH 1:* (FLAGS BODY[])", "t FETCH 1:* (FLAGS)", "t STORE 1:* +FLAGS (kw1)", "t SEARCH ALL", "t FETCH 3:4 BODY[]"]
    moves = ["t MOVE 1:2 box2", "t UID MOVE 1 box1", "t MOVE 2 box1", "t UID MOVE 3:4 box2"]
    n = 0
    for mv in moves:
        for ot in others:
            for rep in range(6 if ctx.thorough else 2):
                seed = ctx.rng.randrange(1 << 30)
                w = W.World(seed=seed)
                try:
                    w.session("A"); w.session("B")
                    w.cmd("A", "t CREATE box1"); w.cmd("A", "t CREATE box2")
                    for i in range(4):
                        lit = W.make_msg(i + 1)
                        w.cmd("A", f"t APPEND box1 {{{len(lit)}}}\r\n" + lit.decode())
                    w.cmd("A", "t SELECT box1"); w.cmd("B", "t SELECT box1")
                    w.drain("A"); w.drain("B")
                    w.set_jitter(random.Random(seed + 7))
                    delay = random.Random(seed).choice([0, 0.0005, 0.001, 0.002, 0.004])

                    async def later(sess, text, d):
                        await asyncio.sleep(d)
                        return await w.acmd(sess, text)

                    async def batch():
                        return await asyncio.wait_for(asyncio.gather(later("A", mv, 0), later("B", ot, delay), return_exceptions=True), 600)
                    outs = w.loop.run_until_complete(batch())
                    w.set_jitter(None)
                    n += 1
                    ctx.count({"move_race": [mv, ot], "seed": seed}, nontrivial=True)
                    ob = outs[1]
                    if isinstance(ob, Exception):
                        ctx.violation("a command racing a MOVE raised", {"commands": [mv, ot], "seed": seed, "error": repr(ob)})
                        continue
                    view = 4
                    for line in ob:
                        m = re.match(rb"^\* (\d+) (EXPUNGE|EXISTS|FETCH)", line)
                        if not m:
                            continue
                        k, what = int(m.group(1)), m.group(2)
                        if what == b"EXISTS":
                            view = k
                        elif what == b"EXPUNGE":
                            ctx.violation("an EXPUNGE was sent to a session in the middle of its non-UID command (MOVE of another session)",
                                          {"commands": {"A": mv, "B": ot}, "seed": seed, "sent_to_B": [repr(x[:80]) for x in ob]})
                            break
                        elif k > view:
                            ctx.violation("a FETCH response names a position beyond the list the session has been told about",
                                          {"commands": {"A": mv, "B": ot}, "seed": seed, "sent_to_B": [repr(x[:80]) for x in ob]})
                            break
                finally:
                    w.close()
    ctx.extra["move_races"] = n


def expunge_races(ctx):
    """a UID command of one session queued while another session's EXPUNGE removes lower messages: it is applied to
    the messages its UIDs denote when it runs, and answers with those UIDs"""
    n = 0
    for cmd_a, want_uid in (("t UID STORE 4 +FLAGS (\\Flagged)", 4), ("t UID FETCH 5 (FLAGS)", 5), ("t UID STORE 3:4 +FLAGS (kw1)", None),
                            ("t UID COPY 4 box2", 4), ("t UID FETCH 3:* (FLAGS)", None)):
        for rep in range(8 if ctx.thorough else 3):
            seed = ctx.rng.randrange(1 << 30)
            w = W.World(seed=seed)
            try:
                w.session("A"); w.session("B")
                w.cmd("A", "t CREATE box1"); w.cmd("A", "t CREATE box2")
                for i in range(5):
                    lit = W.make_msg(i + 1)
                    w.cmd("A", f"t APPEND box1 {{{len(lit)}}}\r\n" + lit.decode())
                w.cmd("A", "t SELECT box1"); w.cmd("B", "t SELECT box1")
                w.cmd("B", "t STORE 1:2 +FLAGS.SILENT (\\Deleted)")
                w.cmd("A", "t NOOP")
                w.drain("A"); w.drain("B")
                w.set_jitter(random.Random(seed + 11))
                delay = random.Random(seed).choice([0, 0.0003, 0.0005, 0.001, 0.002, 0.004])

                async def later(sess, text, d):
                    await asyncio.sleep(d)
                    return await w.acmd(sess, text)

                async def batch():
                    return await asyncio.wait_for(asyncio.gather(later("B", "t EXPUNGE", 0), later("A", cmd_a, delay),
                                                                 return_exceptions=True), 600)
                outs = w.loop.run_until_complete(batch())
                w.set_jitter(None)
                n += 1
                ctx.count({"expunge_race": cmd_a, "seed": seed}, nontrivial=True)
                oa = outs[1]
                if isinstance(oa, Exception):
                    ctx.violation("a UID command racing an EXPUNGE raised", {"command": cmd_a, "seed": seed, "error": repr(oa)})
                    continue
                mb = w.server.active_mailboxes["box1"]
                # what the answer says: every "* n FETCH (... UID u)" line pairs a position with the UID at that position NOW
                # (the EXPUNGEs were sent first for a UID command) and, for a single UID, that UID
                for line in oa:
                    m = re.match(rb"^\* (\d+) FETCH \(.*UID (\d+)", line)
                    if m and want_uid is not None and int(m.group(2)) != want_uid:
                        ctx.violation("a UID command queued behind another session's EXPUNGE was applied to a message other than "
                                      "the one its UID denotes", {"command": cmd_a, "seed": seed, "sent_to_A": [repr(x[:90]) for x in oa]})
                        break
                if "STORE 4" in cmd_a:
                    flagged = sorted(mb.uids[mb.msg_keys.index(k)] for k in mb.sequences.get("flagged", []) if k in mb.msg_keys)
                    if flagged != [4]:
                        ctx.violation("UID STORE 4 racing an EXPUNGE of messages 1:2 flagged other messages",
                                      {"flagged_uids": flagged, "seed": seed, "sent_to_A": [repr(x[:90]) for x in oa]})
                if "kw1" in cmd_a:
                    kw = sorted(mb.uids[mb.msg_keys.index(k)] for k in mb.sequences.get("kw1", []) if k in mb.msg_keys)
                    if kw != [3, 4]:
                        ctx.violation("UID STORE 3:4 racing an EXPUNGE of messages 1:2 changed other messages",
                                      {"kw1_uids": kw, "seed": seed, "sent_to_A": [repr(x[:90]) for x in oa]})
                if "COPY" in cmd_a:
                    ok = [x for x in oa if b"COPYUID" in x]
                    if ok and not re.search(rb"COPYUID \d+ 4 ", ok[0]):
                        ctx.violation("UID COPY 4 racing an EXPUNGE copied another message", {"reply": repr(ok[0]), "seed": seed})
            finally:
                w.close()
    ctx.extra["expunge_races"] = n


def run(ctx):
    ctx.coverage["rule"] = ("would_conflict: every (kind, set) command against every running list of <=1 commands and sampled "
                            "lists of 2-3, both Deleted states; schedules: a generated history of 6-22 commands, then one "
                            "command from each of 2-3 sessions (STORE/FETCH/EXPUNGE/UID EXPUNGE/APPEND/COPY/MOVE/NOOP/SEARCH/"
                            "CHECK, UID and non-UID) issued together under a seeded perturbation of all I/O completions; "
                            "non-trivial = the batch mixes command kinds or contains an EXPUNGE. First: the corpus of histories that once "
                            "exposed a defect (corpus/c10.json), each under several schedules. After every batch each selected session "
                            "issues CHECK (no starvation). Per batch the linearizability oracle (in Coq) must find an order of the "
                            "commands' documented steps giving the same tagged results, the same data for the addressed messages and "
                            "the same final mailboxes; the two-step model is compared with the atomic one on every prefix world. "
                            "Then DELETE/RENAME races (16 of 64 combinations, all in thorough) and MOVE races against FETCH/STORE/SEARCH")
    ok = ctx.prove("Properties/C10.v")
    ctx.coq.build(["Model/Linear.vo", "Model/PhasesCmp.vo"])
    ctx.coq.unlock()
    conflict_level(ctx)
    schedule_level(ctx)
    namespace_races(ctx)
    move_races(ctx)
    expunge_races(ctx)
    ctx.assume += ["PARTIAL: fairness of asyncio and termination of each command body are assumptions; threads are modelled as "
                   "completion events; the schedule space is sampled (seeded jitter on every I/O completion), not enumerated",
                   "the footprints of Model/Sched.v are declared, not derived from the command bodies (EXPUNGE/CLOSE with nothing "
                   "\\Deleted now have the honest one: they depend on nobody marking a message until they have looked)",
                   "Model/Phases.v splits FETCH/STORE/SEARCH only; the other commands take part in interleavings as whole steps "
                   "(they run alone, or - COPY - read under the admission relation)"]


def replay(ctx, path):
    r = json.load(open(path))
    print(json.dumps(r, indent=1)[:4000])
    return 0
