"""C06 — every command is answered exactly once, promptly, whatever its arguments.

Proof:  coq/Properties/C06.v — (i) BaseClientHandler.command as a function from the handler's
        outcome to what is pushed: exactly one tagged line for every outcome (IDLE's comes with DONE);
        (ii) in the world model every command step sends its issuer exactly one tagged response, as
        the last thing, for all arguments and all reachable states.
Tie:    X — every command of the IMAP command set x argument classes (sets in range / beyond /
        `*` on empty / huge; existing, deleted, \\Noselect (also restored after a restart), missing
        mailboxes; malformed syntax) x session states, sent through the REAL IMAPClientProxy.run
        loop under the virtual clock: exactly one complete tagged line with the command's tag, after
        all untagged data, at a virtual elapsed time below COMMAND_TIMEOUT (never the watchdog), the
        connection still usable afterwards unless BYE was sent.
"""
import json
import multiprocessing as mp
import random
import re

import core
import world as W
import proxyx

SETS = ["1", "1:3", "*", "2:*", "3:1", "1,3", "4", "1:9", "9:*", "*:*", "99999999999", "1:2,2:3", "0", "0:2"]
STATES = ["auth", "sel", "exam", "selempty"]
BOXES = ["inbox", "INBOX", "work", "nosel", "nosel/child", "gone", "missing", "a/b/c", "\"sp ace\""]


def templates(rng):
    lit = W.make_msg(rng.randint(1000, 9999))
    mb = lambda: rng.choice(BOXES)  # noqa: E731
    st = lambda: rng.choice(SETS)  # noqa: E731
    t = [
        "CAPABILITY", "NOOP", "NAMESPACE", "ID NIL", 'ID ("name" "verif")', "CHECK", "CLOSE", "UNSELECT", "EXPUNGE",
        f"SELECT {mb()}", f"EXAMINE {mb()}", f"CREATE {mb()}", f"CREATE new{rng.randint(1, 99)}/x", f"DELETE {mb()}",
        f"RENAME {mb()} ren{rng.randint(1, 99)}", f"RENAME {mb()} {mb()}", f"RENAME {mb()} nope/deeper/x",
        f"SUBSCRIBE {mb()}", f"UNSUBSCRIBE {mb()}", 'LIST "" "*"', f'LIST "" {mb()}', 'LSUB "" "*"', 'LIST "nosel/" "%"',
        f"STATUS {mb()} (MESSAGES UIDNEXT UIDVALIDITY UNSEEN RECENT)",
        f"APPEND {mb()} {{{len(lit)}}}\r\n" + lit.decode(), f'APPEND {mb()} (\\Seen kw1) "01-Jan-2024 10:00:00 +0000" {{{len(lit)}}}\r\n' + lit.decode(),
        f"APPEND {mb()} (\\Recent unseen) {{{len(lit)}}}\r\n" + lit.decode(),
        f"UID EXPUNGE {st()}", "SEARCH ALL", f"SEARCH {st()}", f"UID SEARCH UID {st()}", "SEARCH TEXT line NOT DELETED",
        f"SEARCH OR {st()} SEEN", f"FETCH {st()} FLAGS", f"FETCH {st()} (BODY[] RFC822.SIZE INTERNALDATE)", f"FETCH {st()} ALL",
        f"UID FETCH {st()} (FLAGS BODY.PEEK[HEADER])", f"FETCH {st()} (BODY[1.2.3])", f"FETCH {st()} BODY[TEXT]<0.5>",
        f"STORE {st()} +FLAGS (\\Seen)", f"STORE {st()} FLAGS.SILENT (kw1 \\Deleted)", f"STORE {st()} -FLAGS (\\Recent)",
        f"UID STORE {st()} +FLAGS (Seen)", f"COPY {st()} {mb()}", f"UID COPY {st()} {mb()}", f"MOVE {st()} {mb()}",
        f"UID MOVE {st()} {mb()}", "IDLE", "LOGOUT", "LOGIN someone pw", "AUTHENTICATE PLAIN",
        # malformed
        "FOO", "", "FETCH", "STORE 1", "SELECT", "FETCH 0 FLAGS", "FETCH 1 (", "SEARCH", "COPY 1", "STATUS inbox", "UID",
        "UID FOO 1", "APPEND inbox", "FETCH 1:2:3 FLAGS", "STORE 1 +FLAGS", "LIST", "RENAME onlyone", "SEARCH BEFORE 31-Feb-2020",
    ]
    return t


def build_world(seed, restart):
    w = W.World(seed=seed)
    w.session("S")
    for i in range(3):
        lit = W.make_msg(i + 1)
        w.cmd("S", f"x APPEND inbox {{{len(lit)}}}\r\n" + lit.decode())
    for c in ("CREATE work", "CREATE nosel/child", "DELETE nosel", "CREATE gone", "DELETE gone", 'CREATE "sp ace"'):
        w.cmd("S", "x " + c)
    if restart:
        w.restart()
    return w


def setup_state(px, state):
    if state == "sel":
        px.command("SELECT inbox")
    elif state == "exam":
        px.command("EXAMINE inbox")
    elif state == "selempty":
        px.command("SELECT work")


def check_reply(r, cmdtext, timeout, idle=False):
    """-> list of problems for one observed command"""
    bad = []
    out, tagged = r["out"], r["tagged"]
    bye = b"* BYE" in out
    if len(tagged) != 1:
        if not (idle and not tagged):
            bad.append(f"{len(tagged)} tagged replies for tag {r['tag']}")
    if r["elapsed"] >= timeout or b"Command timed out" in out:
        bad.append(f"answered only after {r['elapsed']:.0f} virtual seconds (the command watchdog)")
    if out and not out.endswith(b"\r\n") and not (idle and out.endswith(b"+ idling")):
        bad.append("the reply does not end in CRLF")
    if tagged:
        tail = out[out.rfind(tagged[-1]) + len(tagged[-1]):]
        if tail.strip() and not bye:
            bad.append(f"data after the tagged reply: {tail[:60]!r}")
        if not tagged[-1].endswith(b"\r\n"):
            bad.append("tagged line without CRLF")
    if r["dropped"] and not bye:
        bad.append("the connection was dropped without BYE")
    return bad, bye


# probes that once exposed a defect (or a seeded one): run first, by the first batch
CORPUS_PROBES = [("sel", "UID EXPUNGE 0"), ("sel", "UID EXPUNGE 0:2"), ("sel", "UID EXPUNGE 99"), ("exam", "EXPUNGE"),
                 ("sel", "EXPUNGE"), ("selempty", "UID EXPUNGE 1:*"), ("sel", "FETCH 0 FLAGS"), ("sel", "STORE 9:* +FLAGS (\\Seen)"),
                 ("auth", "SELECT nosel"), ("auth", "STATUS gone (MESSAGES)")]


def probe_batch(args):
    seed, nprobes, restart = args
    rng = random.Random(seed)
    from asimap.client import COMMAND_TIMEOUT

    results = []  # (case, problems)
    w = build_world(seed, restart)
    try:
        for k in range(nprobes):
            if k and k % 25 == 0:
                w.close()
                w = build_world(seed + k, restart)
            state = rng.choice(STATES)
            cmd = rng.choice(templates(rng))
            if seed < 0 and k < len(CORPUS_PROBES):
                state, cmd = CORPUS_PROBES[k]
            px = proxyx.ProxySession(w)
            try:
                setup_state(px, state)
                idle = cmd == "IDLE"
                r = px.command(cmd, expect_tagged=not idle)
                problems, bye = check_reply(r, cmd, COMMAND_TIMEOUT, idle=idle)
                if idle and not r["dropped"]:
                    if b"+ idling" not in r["out"]:
                        problems.append("IDLE was not answered with a continuation")
                    r2 = px.command("DONE", tag=r["tag"])
                    # the tagged reply of IDLE comes with DONE and carries IDLE's tag
                    p2, _ = check_reply(r2, "DONE", COMMAND_TIMEOUT)
                    problems += ["after DONE: " + x for x in p2]
                if not bye and not r["dropped"]:
                    r3 = px.command("NOOP")
                    if len(r3["tagged"]) != 1 or not r3["tagged"][0].startswith(r3["tag"].encode() + b" OK"):
                        problems.append(f"the session is not usable afterwards: NOOP -> {r3['out'][:80]!r}")
                results.append(({"state": state, "command": cmd.split("\r\n")[0][:70], "restarted": restart,
                                 "reply": (r["tagged"][0][:60].decode("latin-1") if r["tagged"] else None)}, problems,
                                {"out": repr(r["out"][:400]), "elapsed": r["elapsed"]}))
            except Exception as e:
                import traceback
                results.append(({"state": state, "command": cmd[:70], "restarted": restart}, ["harness/implementation raised: " + repr(e)],
                                {"traceback": traceback.format_exc()[-1200:]}))
            finally:
                px.close()
    finally:
        w.close()
    return results


def outcome_level(ctx):
    """BaseClientHandler.command with a stub handler producing every outcome class, vs the Coq model"""
    import asyncio
    from asimap.client import BaseClientHandler
    from asimap.exceptions import Bad, No
    from asimap.parse import IMAPClientCommand

    loop = W.VLoop()
    asyncio.set_event_loop(loop)
    obs = {}
    try:
        for name in ["ret_none", "ret_str", "ret_false", "raise_no", "raise_bad", "raise_timeout", "raise_other", "missing"]:
            fc = W.FakeProxy("o")

            class H(BaseClientHandler):
                async def do_noop(self, cmd, name=name):
                    if name == "ret_none":
                        return None
                    if name == "ret_str":
                        return "[CODE 1]"
                    if name == "ret_false":
                        return False
                    if name == "raise_no":
                        raise No("no text")
                    if name == "raise_bad":
                        raise Bad("bad text")
                    if name == "raise_timeout":
                        raise TimeoutError()
                    raise KeyError("boom\nsecond line")

            h = H(fc)
            cmd = IMAPClientCommand("t1 NOOP" if name != "missing" else "t1 CHECK")
            cmd.parse()
            raised = False
            try:
                loop.run_until_complete(h.command(cmd))
            except Exception:
                raised = True
            lines = fc.take()
            tagged = [x for x in lines if x.startswith(b"t1 ")]
            kind = [x.split(b" ")[1].decode() for x in tagged]
            crlf = all(x.endswith(b"\r\n") and x.count(b"\n") == 1 for x in lines)
            obs[name] = (kind, crlf, raised)
            ctx.count({"outcome": name, "pushed": [x.decode("latin-1") for x in lines]}, nontrivial=True)
    finally:
        loop.close()
    enc = {"OK": 0, "NO": 1, "BAD": 2}
    order = ["ret_none", "ret_str", "ret_false", "raise_no", "raise_bad", "raise_timeout", "raise_other", "missing"]
    coqn = {"ret_none": "HNone", "ret_str": "HStr", "ret_false": "HFalse", "raise_no": "HNo", "raise_bad": "HBad",
            "raise_timeout": "HTimeout", "raise_other": "HOther", "missing": "HMissing"}
    t = "From Asimap Require Import Base.Res Model.Outcome.\nOpen Scope Z_scope.\n"
    t += "Eval vm_compute in (map (fun o => (map tag_code (pushed o), keeps_connection o)) [" + "; ".join(coqn[n] for n in order) + "]).\n"
    out = ctx.coq.eval_cases("c06o", t)
    val = core.parse_coq_values(out)[0]
    pairs = re.findall(r"\(\[([^\]]*)\], (true|false)\)", val)
    for n, (codes, keep) in zip(order, pairs):
        model_kinds = [int(x) for x in re.findall(r"\d+", codes)]
        kinds, crlf, raised = obs[n]
        if [enc[k] for k in kinds] != model_kinds or (keep == "true") == raised or not crlf:
            ctx.violation("BaseClientHandler.command: pushed lines differ from the proved outcome table",
                          {"outcome": n, "implementation": {"tagged": kinds, "all_lines_crlf": crlf, "raised": raised},
                           "model": {"tagged_codes": model_kinds, "keeps_connection": keep}})


def race_batch(seed):
    """Two connections.  One sends a command that takes the whole mailbox for itself (DELETE / RENAME / EXPUNGE of many
    messages / CLOSE); the other sends a command for the same mailbox a few event-loop turns later, so that it arrives while
    the first is being carried out (queued, or already taken off the queue and held by the management task).  Every one of
    the commands must get exactly one tagged reply of its own, below COMMAND_TIMEOUT of virtual time."""
    import asyncio
    from asimap.client import COMMAND_TIMEOUT

    rng = random.Random(seed)
    results = []
    firsts = ["DELETE victim", "RENAME victim moved", "DELETE victim", "SELECT-EXPUNGE", "DELETE victim"]
    seconds = ["STATUS victim (MESSAGES)", "SELECT victim", "EXAMINE victim", "APPEND", "STATUS victim (UIDNEXT)", "DELETE victim",
               'LIST "" "*"']
    for k in range(6):
        first, second, turns = rng.choice(firsts), rng.choice(seconds), rng.choice([0, 1, 2, 4, 6, 10, 15, 25])
        w = W.World(seed=seed + k)
        a = b = None
        try:
            w.session("S")
            w.cmd("S", "x CREATE victim")
            w.deliver("victim", rng.choice([3, 12, 30]), unseen=True)
            a, b = proxyx.ProxySession(w), proxyx.ProxySession(w)
            a.command("STATUS victim (MESSAGES)"); b.command("STATUS victim (MESSAGES)")
            if first == "SELECT-EXPUNGE":
                a.command("SELECT victim"); a.command("STORE 1:* +FLAGS.SILENT (\\Deleted)")
                amsg = b"ra EXPUNGE"
            else:
                amsg = b"ra " + first.encode()
            if second == "APPEND":
                lit = W.make_msg(7000 + k)
                bmsg = b"rb APPEND victim {%d}\r\n" % len(lit) + lit
            else:
                bmsg = b"rb " + second.encode()
            t0 = w.loop.time()
            a.feed(amsg)
            for _ in range(turns):
                w.loop.run_until_complete(asyncio.sleep(0))
            b.feed(bmsg)
            outs = {"ra": b"", "rb": b""}
            pats = {t: re.compile(rb"(?m)^" + t.encode() + rb" (OK|NO|BAD)[^\r\n]*\r\n") for t in outs}
            when = {}
            while True:
                w.quiesce()
                outs["ra"] += a.take(); outs["rb"] += b.take()
                for t in outs:
                    if t not in when and pats[t].search(outs[t]):
                        when[t] = w.loop.time() - t0
                if len(when) == 2 or w.loop.time() - t0 > COMMAND_TIMEOUT + 30:
                    break
                w.settle(1.0)
            elapsed = w.loop.time() - t0
            problems = []
            for t, sess in (("ra", a), ("rb", b)):
                got = pats[t].findall(outs[t])
                if len(got) != 1:
                    problems.append(f"{t} ({(amsg if t == 'ra' else bmsg)[:40]!r}): {len(got)} tagged replies after {elapsed:.0f} virtual seconds")
                if b"Command timed out" in outs[t] or when.get(t, elapsed) >= COMMAND_TIMEOUT:
                    problems.append(f"{t} ({(amsg if t == 'ra' else bmsg)[:40]!r}): answered only by the command watchdog "
                                    f"({when.get(t, elapsed):.0f} virtual seconds)")
            for t, sess in (("a", a), ("b", b)):
                if not sess.dropped:
                    r3 = sess.command("NOOP")
                    if len(r3["tagged"]) != 1:
                        problems.append(f"session {t} is not usable afterwards: NOOP -> {r3['out'][:80]!r}")
            results.append(({"race": [amsg.decode("latin-1")[:40], bmsg.decode("latin-1")[:40]], "turns_between": turns}, problems,
                            {"first_connection": repr(outs["ra"][-300:]), "second_connection": repr(outs["rb"][-300:]), "elapsed": elapsed}))
        except Exception as e:  # noqa: BLE001
            import traceback
            results.append(({"race": [first, second], "turns_between": turns}, ["harness/implementation raised: " + repr(e)],
                            {"traceback": traceback.format_exc()[-1200:]}))
        finally:
            for px in (a, b):
                if px is not None:
                    px.close()
            w.close()
    return results


def run(ctx):
    ctx.coverage["rule"] = ("random (state, command) pairs: states {authenticated, selected inbox(3 msgs), examine, selected "
                            "empty mailbox} x ~75 command templates instantiated with message sets {in range, beyond, * , "
                            "huge, reversed} and mailbox names {existing, INBOX, \\Noselect placeholder and its child, "
                            "deleted, missing, nested, with space}, half of the worlds restarted first; each probe goes "
                            "through the real IMAPClientProxy.run and is followed by a NOOP; distinct by (state, command "
                            "text); non-trivial = every probe. Plus two-connection races: DELETE / RENAME / EXPUNGE of a mailbox on one connection, "
                            "STATUS / SELECT / EXAMINE / APPEND / DELETE / LIST for it on another 0-25 event-loop turns later")
    ok = ctx.prove("Properties/C06.v")
    outcome_level(ctx)
    nb = 32 if ctx.thorough else 16
    per = 60 if ctx.thorough else 40
    jobs = [(ctx.rng.randrange(1 << 30), per, i % 2 == 1) for i in range(nb)]
    jobs[0] = (-1 - ctx.rng.randrange(1 << 20), per, False)     # a negative seed marks the batch that starts with CORPUS_PROBES
    with mp.get_context("fork").Pool(min(core.NPROC, nb)) as pool:
        allres = pool.map(probe_batch, jobs, chunksize=1)
    replies = {}
    shown = 0
    for res in allres:
        for case, problems, detail in res:
            ctx.count(case, nontrivial=True)
            k = (case.get("reply") or "none").split(" ")[1] if case.get("reply") else "none"
            replies[k] = replies.get(k, 0) + 1
            if problems and shown < 8:
                shown += 1
                ctx.violation("a command was not answered exactly once / promptly / usably: " + problems[0],
                              {"case": case, "problems": problems, "observed": detail})
    ctx.extra["reply_kinds"] = replies
    nr = 16 if ctx.thorough else 8
    with mp.get_context("fork").Pool(min(core.NPROC, nr)) as pool:
        races = pool.map(race_batch, [ctx.rng.randrange(1 << 30) for _ in range(nr)], chunksize=1)
    nrace = 0
    for res in races:
        for case, problems, detail in res:
            nrace += 1
            ctx.count(case, nontrivial=True)
            if problems and shown < 10:
                shown += 1
                ctx.violation("two connections, one mailbox: a command was not answered exactly once / promptly: " + problems[0],
                              {"case": case, "problems": problems, "observed": detail})
    ctx.extra["two_connection_races"] = nrace
    ctx.assume += ["'promptly' = the tagged reply is produced at a virtual elapsed time below COMMAND_TIMEOUT with all other "
                   "timers free to fire, i.e. not by the watchdog",
                   "commands run one at a time per connection (IMAPClientProxy.run is sequential); linearizability of concurrent commands is "
                   "C10's, but that each of two racing commands is ANSWERED is probed here too (two-connection races)"]


def replay(ctx, path):
    r = json.load(open(path))
    print(json.dumps(r, indent=1)[:3000])
    return 0
