"""C03 — a UID always names the same message.

Proof:  coq/Properties/C03.v (binding of UID to content/internal date stable over any further
        history incl. packing; one message per UID; UID and sequence forms resolve as specified)
Tie:    X on Model/Mbox.v with content-tagged messages (Subject carries the content id, the file
        mtime the internal date): every body FETCH (by UID and by number, PEEK and not) is compared
        with the model; packing forced with a threshold of 4 messages; restarts; the binding oracle
        runs on white-box snapshots of the real folder files.
"""
import json

import core
import mboxx
import world as W
from props.c01 import report_diffs, _mix

MIX = {"fetch": 16, "expunge": 10, "move": 6, "copy": 5, "append": 8, "deliver": 6, "poll": 7, "restart": 2,
       "store": 8, "select": 6, "noop": 4, "close": 2, "idle": 1, "search": 1, "check": 1, "unselect": 1}


def delivery_before_pack(ctx):
    """An MH tool is another process: it can drop a message into the folder after the management task's resync and before
    its pack (the task holds no folder lock in between).  The server must not renumber a file it has not taken in: after
    the pack (or the pack it declined) and one more delivery, every UID still names the message it named before."""
    import re
    from asimap.mbox import Mailbox

    def view(w, box):
        mb = w.server.active_mailboxes[box]
        out = {}
        for uid, key in zip(mb.uids, mb.msg_keys):
            m = re.search(rb"Message-ID: <(\d+)@verif>", (w.root / box / str(key)).read_bytes())
            out[uid] = int(m.group(1)) if m else None
        return out, mb.next_uid

    n = 0
    for total in ((8, 12) if ctx.thorough else (8,)):
        for unseen in (True, False):
            w = W.World(seed=ctx.rng.randrange(1 << 30), pack_limits=(4, 0.8))
            injected = []
            orig = Mailbox._pack_if_necessary
            try:
                w.session("A")
                w.deliver("inbox", total, unseen=True)
                w.cmd("A", "a SELECT inbox")
                w.cmd("A", f"a STORE 2:{total - 3} +FLAGS.SILENT (\\Deleted)")

                async def wrapped(self, _orig=orig):
                    if not injected and self.name == "inbox" and self.num_msgs < total:
                        injected.extend(w.deliver("inbox", 1, unseen=unseen, bump=False))
                    return await _orig(self)
                Mailbox._pack_if_necessary = wrapped
                w.cmd("A", "a EXPUNGE")
                before, nxt0 = view(w, "inbox")
                w.cmd("A", "a UNSELECT")
                for _ in range(3):
                    w.settle(25)
                Mailbox._pack_if_necessary = orig
                if not injected:
                    continue
                w.bump_mtime("inbox")
                w.settle(25)
                w.deliver("inbox", 1, unseen=True)
                w.settle(25)
                w.cmd("A", "a SELECT inbox")
                after, nxt1 = view(w, "inbox")
                n += 1
                ctx.count({"delivery_between_resync_and_pack": total, "unseen": unseen}, nontrivial=True)
                moved = {u: (before[u], after.get(u)) for u in before if after.get(u) != before[u]}
                cids = sorted(c for c in after.values() if c is not None)
                if moved or nxt1 < nxt0 or len(after) != len(before) + 2 or len(set(cids)) != len(cids):
                    ctx.violation("a delivery between the management task's resync and its pack: afterwards a UID names another "
                                  f"message or a message is missing: {moved or (sorted(before), sorted(after))}",
                                  {"messages_delivered_first": total, "uid_to_message_before": before, "uid_to_message_after": after,
                                   "uidnext": [nxt0, nxt1], "injected_message_number": injected})
            finally:
                Mailbox._pack_if_necessary = orig
                w.close()
    ctx.extra["delivery_before_pack_cases"] = n


def run(ctx):
    ctx.coverage["rule"] = ("histories of 45/70 commands (1-3 sessions, two mailboxes) biased to body fetches by UID and by "
                            "number, expunges/moves of arbitrary subsets, deliveries, polls with packing at 4 messages, "
                            "restarts; non-trivial = a body fetch happened after an expunge or a pack in that history. Plus: a delivery injected "
                            "between the management task's resync and its pack of a sparse folder, then one more delivery")
    ok = ctx.prove("Properties/C03.v")
    n = 400 if ctx.thorough else 64
    hs = mboxx.generate(ctx, n, 70 if ctx.thorough else 45, mix=MIX, pack=(4, 4, 5))
    for h in [h for h in hs if h.error][:3]:
        ctx.violation("the implementation raised while running a history",
                      {"seed": h.seed, "ops": [repr(o) for o in h.ops], "error": h.error})
    hs = [h for h in hs if not h.error]
    packs = 0
    for h in hs:
        kinds = [o[0] + (":" + o[4] if o[0] == "fetch" else "") for o in h.ops]
        packs_h = mboxx.packs_seen(h)
        packs += packs_h
        first = min([i for i, x in enumerate(kinds) if x in ("expunge", "move")] or [10 ** 6])
        nt = any(x in ("fetch:peek", "fetch:body") for x in kinds[first:]) or packs_h > 0
        ctx.count({"sessions": h.nsess, "ops": [repr(o) for o in h.ops[:12]] + ["..."], "n_ops": len(h.ops), "seed": h.seed},
                  nontrivial=nt)
        for (k, d) in (mboxx.binding_oracle(h) + mboxx.uid_oracle(h))[:1]:
            ctx.violation("UID/content binding violated on the implementation: " + d,
                          {"seed": h.seed, "step": k, "ops_up_to_step": [repr(o) for o in h.ops[:k + 1]],
                           "snapshot_after": h.snaps[k][1]["boxes"] if h.snaps[k][1] else None})
    delivery_before_pack(ctx)
    ctx.coq.build(["Model/MboxCmp.vo"])
    bad, _ = mboxx.compare(ctx, "c03", hs)
    report_diffs(ctx, "C03", hs, bad, "model (proved) and implementation disagree (content / internal date / UID of a fetch)")
    ctx.coverage["traces_validated_against_impl"] = len(hs) - len({i for i, _ in bad})
    ctx.extra.update({"histories": len(hs), "packs_observed": packs, "op_mix": _mix(hs)})
    ctx.assume += ["content identity = the Subject tag the harness puts in each message; internal date = file mtime (whole seconds)",
                   "interleavings inside a command (a second session racing an EXPUNGE) are C10's"]


def replay(ctx, path):
    print(json.dumps(json.load(open(path)), indent=1)[:4000])
    return 0
