"""C03 — a UID always names the same message.

Proof:  coq/Properties/C03.v (binding of UID to content/internal date stable over any further
        history incl. packing; one message per UID; UID and sequence forms resolve as specified)
Tie:    X on Model/Mbox.v with content-tagged messages (Subject carries the content id, the file
        mtime the internal date): every body FETCH (by UID and by number, PEEK and not) is compared
        with the model; packing forced with a threshold of 4 messages; restarts; the binding oracle
        runs on white-box snapshots of the real folder files.
"""
import json

import core
import mboxx
from props.c01 import report_diffs, _mix

MIX = {"fetch": 16, "expunge": 10, "move": 6, "copy": 5, "append": 8, "deliver": 6, "poll": 7, "restart": 2,
       "store": 8, "select": 6, "noop": 4, "close": 2, "idle": 1, "search": 1, "check": 1, "unselect": 1}


def run(ctx):
    ctx.coverage["rule"] = ("histories of 45/70 commands (1-3 sessions, two mailboxes) biased to body fetches by UID and by "
                            "number, expunges/moves of arbitrary subsets, deliveries, polls with packing at 4 messages, "
                            "restarts; non-trivial = a body fetch happened after an expunge or a pack in that history")
    ok = ctx.prove("Properties/C03.v")
    n = 400 if ctx.thorough else 64
    hs = mboxx.generate(ctx, n, 70 if ctx.thorough else 45, mix=MIX, pack=(4, 4, 5))
    for h in [h for h in hs if h.error][:3]:
        ctx.violation("the implementation raised while running a history",
                      {"seed": h.seed, "ops": [repr(o) for o in h.ops], "error": h.error})
    hs = [h for h in hs if not h.error]
    packs = 0
    for h in hs:
        kinds = [o[0] + (":" + o[4] if o[0] == "fetch" else "") for o in h.ops]
        packs_h = mboxx.packs_seen(h)
        packs += packs_h
        first = min([i for i, x in enumerate(kinds) if x in ("expunge", "move")] or [10 ** 6])
        nt = any(x in ("fetch:peek", "fetch:body") for x in kinds[first:]) or packs_h > 0
        ctx.count({"sessions": h.nsess, "ops": [repr(o) for o in h.ops[:12]] + ["..."], "n_ops": len(h.ops), "seed": h.seed},
                  nontrivial=nt)
        for (k, d) in (mboxx.binding_oracle(h) + mboxx.uid_oracle(h))[:1]:
            ctx.violation("UID/content binding violated on the implementation: " + d,
                          {"seed": h.seed, "step": k, "ops_up_to_step": [repr(o) for o in h.ops[:k + 1]],
                           "snapshot_after": h.snaps[k][1]["boxes"] if h.snaps[k][1] else None})
    ctx.coq.build(["Model/MboxCmp.vo"])
    bad, _ = mboxx.compare(ctx, "c03", hs)
    report_diffs(ctx, "C03", hs, bad, "model (proved) and implementation disagree (content / internal date / UID of a fetch)")
    ctx.coverage["traces_validated_against_impl"] = len(hs) - len({i for i, _ in bad})
    ctx.extra.update({"histories": len(hs), "packs_observed": packs, "op_mix": _mix(hs)})
    ctx.assume += ["content identity = the Subject tag the harness puts in each message; internal date = file mtime (whole seconds)",
                   "interleavings inside a command (a second session racing an EXPUNGE) are C10's"]


def replay(ctx, path):
    print(json.dumps(json.load(open(path)), indent=1)[:4000])
    return 0
