"""C15 — a message set denotes the same messages in every command.

Proof:   coq/Properties/C15.v  (theorems about Gen/SeqSet.v, regenerated from utils.py)
Tie:     G  sequence_set_to_list is translated by py2v on every run
         X  (a) the Python function vs the Coq spec `denote` vs the generated Gallina, on an
                enumerated small scope (validates the translator and finds failing inputs);
            (b) FETCH/STORE/COPY/SEARCH/UID EXPUNGE/MOVE on a real mailbox vs `denote`.
"""
from __future__ import annotations

import itertools
import re

import core
from core import cz, clist, cbool
import world as W


def atoms(n, uid):
    lo = 1 if uid else 0
    return ["*"] + list(range(lo, n + 2))


def elements(n, uid):
    at = atoms(n, uid)
    el = list(at)
    for a in at:
        for b in at:
            el.append((a, b))
    if uid:
        el.append(0)  # a lone 0 is refused in UID mode too
    return el


def c_atom(a):
    return "AStar" if a == "*" else f"(ANum {cz(a)})"


def c_elt(e):
    if e == "*":
        return "EStar"
    if isinstance(e, tuple):
        return f"(ERange {c_atom(e[0])} {c_atom(e[1])})"
    return f"(ENum {cz(e)})"


def c_set(s):
    return clist([c_elt(e) for e in s])


def set_text(s):
    def a(x):
        return "*" if x == "*" else str(x)

    return ",".join((f"{a(e[0])}:{a(e[1])}" if isinstance(e, tuple) else a(e)) for e in s)


SPEC_DEFS = """
From Asimap Require Import Base.Res Spec.SetSem.
Open Scope Z_scope.
Definition zmem (x : Z) (l : list Z) : bool := existsb (Z.eqb x) l.
Fixpoint zlist_eqb (a b : list Z) : bool :=
  match a, b with [] , [] => true | x :: a', y :: b' => (x =? y) && zlist_eqb a' b' | _, _ => false end.
Definition oeqb (a b : option (list Z)) : bool :=
  match a, b with None, None => true | Some x, Some y => zlist_eqb x y | _, _ => false end.
(* what the property says a set addresses: the denotation restricted to what exists, or a refusal *)
Definition spec (s : list sset_elt) (mx : Z) (uid : bool) (live : list Z) : option (list Z) :=
  if uid then (if forallb elt_pos s then Some (filter (fun u => zmem u live) (denote mx s)) else None)
  else (if forallb (elt_ok mx) s then Some (denote mx s) else None).
Definition check (c : list sset_elt * Z * bool * list Z * option (list Z)) : bool :=
  let '(s, mx, uid, live, obs) := c in oeqb (spec s mx uid live) obs.
Fixpoint bad_from (i : nat) (cs : list (list sset_elt * Z * bool * list Z * option (list Z))) : list nat :=
  match cs with [] => [] | c :: r => if check c then bad_from (S i) r else i :: bad_from (S i) r end.
"""

GEN_DEFS = """
From Asimap Require Import Gen.SeqSet.
Definition gcheck (c : list sset_elt * Z * bool * list Z * option (list Z)) : bool :=
  let '(s, mx, uid, live, obs) := c in
  oeqb (match sequence_set_to_list s mx uid with Ok l => Some l | Err _ => None end) obs.
Fixpoint gbad_from (i : nat) (cs : list (list sset_elt * Z * bool * list Z * option (list Z))) : list nat :=
  match cs with [] => [] | c :: r => if gcheck c then gbad_from (S i) r else i :: gbad_from (S i) r end.
"""


def case_term(s, mx, uid, live, obs):
    o = "None" if obs is None else f"(Some {clist([cz(x) for x in obs])})"
    return f"({c_set(s)}, {cz(mx)}, {cbool(uid)}, {clist([cz(x) for x in live])}, {o})"


def coq_check(ctx, name, cases, with_gen):
    """cases: list of (s, mx, uid, live, obs).  Returns (spec_bad_indices, gen_bad_indices|None)."""
    chunks = [cases[i:i + 400] for i in range(0, len(cases), 400)]
    texts = []
    for ch in chunks:
        t = SPEC_DEFS + (GEN_DEFS if with_gen else "")
        t += ("Definition cases : list (list sset_elt * Z * bool * list Z * option (list Z)) := "
              + clist([case_term(*c) for c in ch]) + ".\n")   # typed: a chunk of all-empty results must still elaborate
        t += "Eval vm_compute in (bad_from 0 cases).\n"
        if with_gen:
            t += "Eval vm_compute in (gbad_from 0 cases).\n"
        texts.append(t)
    outs = ctx.coq.eval_many(name, texts)
    sbad, gbad = [], ([] if with_gen else None)
    for k, out in enumerate(outs):
        vals = core.parse_coq_values(out)
        lists = [[int(x) for x in re.findall(r"\d+", v.split(":")[0] if False else v)] if v.strip("[] ") else []
                 for v in vals]
        sbad += [k * 400 + i for i in lists[0]]
        if with_gen:
            gbad += [k * 400 + i for i in lists[1]]
    return sbad, gbad


def py_seqset(s, mx, uid):
    from asimap.exceptions import Bad
    from asimap.utils import sequence_set_to_list

    try:
        return list(sequence_set_to_list(list(s), mx, uid))
    except Bad:
        return None


def function_level(ctx, proof_ok):
    """(a) Python function vs spec vs generated Gallina on an enumerated small scope."""
    maxn = 5 if ctx.thorough else 3
    cases = []
    for n in range(0, maxn + 1):
        for uid in (False, True):
            el = elements(n, uid)
            sets = [[e] for e in el] + [[a, b] for a in el for b in el]
            if len(sets) > (6000 if ctx.thorough else 1200):
                sets = [[e] for e in el] + ctx.rng.sample([[a, b] for a in el for b in el],
                                                          5000 if ctx.thorough else 900)
            trip = [[ctx.rng.choice(el) for _ in range(3)] for _ in range(1500 if ctx.thorough else 200)]
            for s in sets + trip:
                if uid and any(isinstance(e, tuple) and 0 in e for e in s):
                    continue
                mx = n if not uid else max(n, 1)
                live = list(range(1, n + 1)) if not uid else list(range(1, mx + 3))
                try:
                    obs = py_seqset(s, mx, uid)
                except Exception as e:  # any other exception is itself a violation
                    ctx.violation("sequence_set_to_list raised an exception other than Bad",
                                  {"set": set_text(s), "seq_max": mx, "uid_cmd": uid, "exception": repr(e)})
                    continue
                cases.append((s, mx, uid, live, obs))
    gen_ok = ctx.extra.get("generated", {}).get("SeqSet", {}).get("status") == "ok"
    try:
        sbad, gbad = coq_check(ctx, "c15f", cases, with_gen=gen_ok and proof_ok)
    except core.CoqError:
        sbad, gbad = coq_check(ctx, "c15f", cases, with_gen=False)
    for c in cases:
        ctx.count({"set": set_text(c[0]), "max": c[1], "uid": c[2]}, nontrivial=len(c[0]) > 0)
    for i in sbad[:5]:
        s, mx, uid, live, obs = cases[i]
        ctx.violation("sequence_set_to_list disagrees with the denotation of the set",
                      {"function": "asimap.utils.sequence_set_to_list", "set": set_text(s), "seq_max": mx,
                       "uid_cmd": uid, "observed": obs,
                       "replay": f"sequence_set_to_list({list(s)!r}, {mx}, {uid})"})
    if gbad:
        i = gbad[0]
        ctx.proof_broken.append({"what": "translator validation: Gen/SeqSet.v and utils.sequence_set_to_list differ",
                                 "set": set_text(cases[i][0]), "seq_max": cases[i][1], "uid_cmd": cases[i][2]})
    ctx.extra["function_level_cases"] = len(cases)
    return cases


# ------------------------------------------------------------------ command level
def build_world(n):
    """a mailbox with n messages and sparse UIDs, plus an empty destination mailbox"""
    w = W.World()
    w.session("A")
    total = n + 2 if n > 0 else 0
    for i in range(total):
        lit = W.make_msg(i + 1)
        w.cmd("A", f"x APPEND inbox {{{len(lit)}}}\r\n" + lit.decode())
    w.cmd("A", "x CREATE dest")
    w.cmd("A", "x SELECT inbox")
    if total:
        w.cmd("A", f"x STORE 2,{total} +FLAGS (\\Deleted)")
        w.cmd("A", "x EXPUNGE")
    return w


def uids_of(w):
    return list(w.server.active_mailboxes["inbox"].uids)


def tagged(out):
    for o in reversed(out):
        c = W.classify(o)
        if c[0] == "tagged":
            return c
    return None


def run_command(w, kind, uidmode, s, live):
    """run one command naming set s; returns the observed addressed identifiers
    (sequence numbers for non-UID, UIDs for UID commands) or None for BAD; raises on anything else"""
    st = set_text(s)
    pre = "UID " if uidmode else ""
    if kind == "fetch":
        out = w.cmd("A", f"t {pre}FETCH {st} (UID)")
        got = []
        for o in out:
            m = re.match(rb"^\* (\d+) FETCH \(UID (\d+)\)\r\n$", o)
            if m:
                got.append(int(m.group(2)) if uidmode else int(m.group(1)))
        res = sorted(got)
    elif kind == "store":
        out = w.cmd("A", f"t {pre}STORE {st} +FLAGS (kw)")
        got = []
        for o in out:
            c = W.classify(o)
            if c[0] == "fetchflags":
                got.append(c[3] if uidmode else c[1])
        res = sorted(got)
    elif kind == "search":
        key = f"UID {st}" if uidmode else st
        out = w.cmd("A", f"t {pre}SEARCH {key}")
        res = None
        for o in out:
            c = W.classify(o)
            if c[0] == "search":
                res = sorted(c[1])
    elif kind == "copy":
        out = w.cmd("A", f"t {pre}COPY {st} dest")
        t = tagged(out)
        res = []
        m = re.search(r"\[COPYUID \d+ (\S+) (\S+)\]", t[3]) if t else None
        if m:
            srcu = []
            for part in m.group(1).split(","):
                a, _, b = part.partition(":")
                srcu += list(range(int(a), int(b or a) + 1))
            res = sorted(srcu) if uidmode else sorted(live.index(u) + 1 for u in srcu)
    else:
        raise ValueError(kind)
    t = tagged(out)
    if t is None:
        raise RuntimeError(f"no tagged reply: {out!r}")
    if t[2] == "BAD":
        return None, out
    if t[2] == "NO":
        return "NO", out
    return res, out


def command_level(ctx):
    sizes = [0, 1, 3, 5] if ctx.thorough else [0, 3]
    per = 60 if ctx.thorough else 14
    cases = []
    meta = []
    for n in sizes:
        w = build_world(n)
        try:
            live = uids_of(w)
            assert len(live) == n, (live, n)
            for uidmode in (False, True):
                top = (live[-1] if live else 1) if uidmode else n
                el = elements(top if uidmode else n, uidmode)
                el = [e for e in el if not (uidmode and (e == 0 or (isinstance(e, tuple) and 0 in e)))]
                for kind in ("fetch", "store", "search", "copy"):
                    for _ in range(per):
                        k = ctx.rng.choice([1, 1, 2, 3])
                        s = [ctx.rng.choice(el) for _ in range(k)]
                        if not uidmode and kind in ("fetch", "store", "copy", "search") and any(
                                (e == 0 or (isinstance(e, tuple) and 0 in e)) for e in s):
                            continue  # "0" is not in the grammar; parser territory (C08)
                        if kind == "copy" and n == 0:
                            continue  # COPY on an empty mailbox is C06 territory
                        try:
                            obs, out = run_command(w, kind, uidmode, s, live)
                        except Exception as e:
                            ctx.violation(f"{kind}: no orderly reply for a message set",
                                          {"command": kind, "uid": uidmode, "set": set_text(s), "uids": live,
                                           "error": repr(e)})
                            continue
                        if obs == "NO":
                            # FETCH on an empty mailbox answers NO "Mailbox empty"; nothing was addressed
                            if n == 0:
                                obs = None
                            else:
                                ctx.violation(f"{kind}: NO for a message set", {"set": set_text(s), "out": repr(out)})
                                continue
                        if kind == "search" and not uidmode and obs is not None:
                            pass
                        mx = top if uidmode else n
                        if kind == "search" and not uidmode:
                            # a SEARCH key may simply match nothing instead of BAD
                            okset = all(_elt_ok(e, n) for e in s)
                            if not okset:
                                if obs is not None and any(x < 1 or x > n for x in obs):
                                    ctx.violation("SEARCH returned a message outside the mailbox",
                                                  {"set": set_text(s), "observed": obs})
                                continue
                        cases.append((s, mx, uidmode, live if uidmode else list(range(1, n + 1)), obs))
                        meta.append({"n": n, "uids": live, "command": ("UID " if uidmode else "") + kind.upper(),
                                     "set": set_text(s), "observed": obs})
                        ctx.count(meta[-1], nontrivial=True)
        finally:
            w.close()
    # destructive commands: fresh world each
    for _ in range(12 if ctx.thorough else 4):
        n = ctx.rng.choice([3, 5])
        w = build_world(n)
        try:
            live = uids_of(w)
            top = live[-1]
            el = [e for e in elements(top, True) if not (e == 0 or (isinstance(e, tuple) and 0 in e))]
            s = [ctx.rng.choice(el) for _ in range(ctx.rng.choice([1, 2]))]
            kind = ctx.rng.choice(["uidexpunge", "move"])
            if kind == "uidexpunge":
                w.cmd("A", "t STORE 1:* +FLAGS.SILENT (\\Deleted)")
                out = w.cmd("A", f"t UID EXPUNGE {set_text(s)}")
            else:
                out = w.cmd("A", f"t UID MOVE {set_text(s)} dest")
            t = tagged(out)
            after = uids_of(w)
            removed = sorted(set(live) - set(after))
            obs = removed if t and t[2] == "OK" else None
            cases.append((s, top, True, live, obs))
            meta.append({"n": n, "uids": live, "command": {"uidexpunge": "UID EXPUNGE", "move": "UID MOVE"}[kind], "set": set_text(s), "observed": obs})
            ctx.count(meta[-1], nontrivial=True)
        finally:
            w.close()
    sbad, _ = coq_check(ctx, "c15c", cases, with_gen=False)
    for i in sbad[:5]:
        ctx.violation("a command addressed other messages than its set denotes",
                      dict(meta[i], expected="denote(set) restricted to existing messages; BAD for out-of-range",
                           replay="./check C15 --replay <this file>"))
    ctx.extra["command_level_cases"] = len(cases)


def _elt_ok(e, n):
    def ok(a):
        return (n >= 1) if a == "*" else (1 <= a <= n)

    if isinstance(e, tuple):
        return ok(e[0]) and ok(e[1])
    return ok(e)


def run(ctx):
    ctx.coverage["rule"] = ("function level: every set of <=2 elements (sampled above a cap) plus random 3-element sets "
                            "over atoms {*,0..N+1}, N<=3 (quick) / N<=5 (thorough), UID and non-UID; command level: "
                            "random sets in FETCH/STORE/SEARCH/COPY/MOVE/UID EXPUNGE (UID and non-UID) on real "
                            "mailboxes with sparse UIDs. distinct = distinct (set,max,mode[,command]); non-trivial = "
                            "non-empty set")
    ok = ctx.prove("Properties/C15.v")
    function_level(ctx, ok)
    command_level(ctx)
    ctx.assume += ["sequence sets reach the functions in the representation parse.py produces (C08 covers the parser)",
                   "MH/SQLite/email packages behave as observed in the correspondence runs"]


def replay(ctx, path):
    import json

    r = json.load(open(path))
    print(json.dumps(r, indent=1)[:2000])
    return 0
