"""C19 — the front-end relays exactly the commands the byte stream denotes.

Proof:  coq/Properties/C19.v — for every stream made of commands with any number of
        (non-)synchronising literals, blank lines and refused (over-limit) literals/commands the
        loop of Model/Frame.v hands on exactly the denoted commands, asks `+` exactly for the
        synchronising literals and restarts cleanly after every refusal; the `{len}\\n` IPC framing
        is inverted by the de-framer for every message the front-end can hand on; the response
        relay is the identity on CRLF-terminated chunks of any length.
Tie:    X — generated streams under ALL segmentations into <= 3 (quick) / 4 (thorough) reads
        (short streams), byte-by-byte and random segmentations (longer ones) are fed to the REAL
        IMAPClient.start through an asyncio.StreamReader; after every segment the events so far
        (bytes written to the client, messages handed to IMAPSubprocessInterface.message, the IPC
        bytes that message() writes) are compared with the model run on the prefix fed so far
        (inside Coq, vm_compute).  The IPC bytes go through the real IMAPClientProxy.run; response
        streams through the real msgs_to_client of both servers; POP3Client.start likewise.
        Pins: the literal regex source text, MAX_INPUT_SIZE (three modules), line terminators,
        reader limits, int() digit limit.
Oracle: the spec itself (reference tokenization known from how a stream was generated) is applied
        to the implementation's own trace, independently of the model.
"""
from __future__ import annotations

import ast
import asyncio
import inspect
import itertools
import json
import logging
import re
import sys

import core
from core import cbool, cz

if str(core.REPO) not in sys.path:
    sys.path.insert(0, str(core.REPO))

CRLF = b"\r\n"


def cb(b):
    return core.cbytes(b)


REGEX_TEXT = rb"\{(\d+)(\+)?\}$"
REAL_MAXIN = 10 * 1024 * 1024
REAL_RLIMIT = 65536
REAL_MAXDIGITS = 4300
REAL_RELAY_LIMIT = 131072
CONT = b"+ Ready for more input\r\n"
BAD_EMPTY = b"* BAD We do not accept empty messages.\r\n"
BAD_LIT = b"* BAD literal size exceeds maximum allowed size\r\n"
BAD_CMD = b"* BAD command exceeds maximum allowed size\r\n"
BAD_LINE = b"* BAD line exceeds maximum allowed length\r\n"


_VIOL: dict = {}
_PENDING: list = []


def viol(ctx, what, replay, cap=3, prio=5):
    """record a violation; at most `cap` replays per kind of violation (the count is kept).  They are
    handed to ctx at the end of the run, one of each kind first, so that the replay files the
    framework writes (the first six) show different defects rather than six faces of one."""
    _VIOL[what] = _VIOL.get(what, 0) + 1
    if _VIOL[what] <= cap:
        _PENDING.append((_VIOL[what], prio, len(_PENDING), what, replay))


def flush_violations(ctx):
    for (_, _, _, what, replay) in sorted(_PENDING):
        ctx.violation(what, replay)
    del _PENDING[:]


def mods():
    import asimap.constants as K
    import asimap.pop3_server as P
    import asimap.server as S
    import asimap.user_server as U

    return S, U, P, K


# ------------------------------------------------------------------ pins
def pins(ctx):
    S, U, P, K = mods()
    broken = []

    def pin(name, got, want):
        if got != want:
            broken.append({"pin": name, "source_now": repr(got), "model_assumes": repr(want)})

    for m, nm in ((S, "server"), (U, "user_server")):
        r = m.RE_LITERAL_STRING_START
        pin(f"{nm}.RE_LITERAL_STRING_START.pattern", r.pattern, REGEX_TEXT)
        pin(f"{nm}.RE_LITERAL_STRING_START.flags", r.flags, 0)
    pin("constants.MAX_INPUT_SIZE", K.MAX_INPUT_SIZE, REAL_MAXIN)
    pin("server.MAX_INPUT_SIZE", S.MAX_INPUT_SIZE, K.MAX_INPUT_SIZE)
    pin("user_server.MAX_INPUT_SIZE", U.MAX_INPUT_SIZE, K.MAX_INPUT_SIZE)
    pin("IMAPClient.LINE_TERMINATOR", S.IMAPClient.LINE_TERMINATOR, b"\r\n")
    pin("IMAPClientProxy.LINE_TERMINATOR", U.IMAPClientProxy.LINE_TERMINATOR, b"\n")
    pin("POP3Client.LINE_TERMINATOR", P.POP3Client.LINE_TERMINATOR, b"\r\n")
    pin("asyncio.streams._DEFAULT_LIMIT", asyncio.streams._DEFAULT_LIMIT, REAL_RLIMIT)
    pin("sys.get_int_max_str_digits()", sys.get_int_max_str_digits(), REAL_MAXDIGITS)
    # the reader limits the servers ask for: start_server without limit=, open_connection limit=131072
    lim = {}
    for m, nm in ((S, "server"), (P, "pop3_server"), (U, "user_server")):
        tree = ast.parse(inspect.getsource(m))
        for node in ast.walk(tree):
            if isinstance(node, ast.Call) and isinstance(node.func, ast.Attribute) and \
                    node.func.attr in ("start_server", "open_connection"):
                kw = {k.arg: ast.literal_eval(k.value) for k in node.keywords
                      if k.arg == "limit" and isinstance(k.value, ast.Constant)}
                lim.setdefault(f"{nm}.{node.func.attr}", []).append(kw.get("limit"))
    pin("reader limits requested in the source", lim,
        {"server.start_server": [None], "server.open_connection": [REAL_RELAY_LIMIT],
         "pop3_server.start_server": [None], "pop3_server.open_connection": [None],
         "user_server.start_server": [None]})
    # the constants written in Model/Frame.v (real_cfg)
    try:
        out = ctx.coq.eval_cases("c19k", "From Asimap Require Import Base.Res Model.Frame.\nOpen Scope Z_scope.\n"
                                 "Eval vm_compute in (maxin real_cfg, rlimit real_cfg, maxdigits real_cfg).\n")
        pin("Model/Frame.v real_cfg (maxin, rlimit, maxdigits)", [int(x) for x in re.findall(r"\d+", core.parse_coq_values(out)[0])],
            [K.MAX_INPUT_SIZE, asyncio.streams._DEFAULT_LIMIT, sys.get_int_max_str_digits()])
    except core.CoqError as e:
        broken.append({"pin": "Model/Frame.v real_cfg", "source_now": "coq error", "model_assumes": e.log[-300:]})
    ctx.extra["pins"] = {"checked": 15, "broken": broken}
    for b in broken:
        ctx.proof_broken.append({"what": "pin: a constant the model of C19 assumes has changed in the source", **b})
    return not broken


# ------------------------------------------------------------------ fakes
class FakeWriter:
    def __init__(self, sink, kind):
        self.sink, self.kind, self.closed = sink, kind, False

    def write(self, d):
        self.sink.append((self.kind, bytes(d)))

    async def drain(self):
        pass

    def get_extra_info(self, _):
        return ("127.0.0.1", 4321)

    def is_closing(self):
        return self.closed

    def close(self):
        self.closed = True

    async def wait_closed(self):
        pass


class FakeServer:
    debug = False


async def settle(task, reader):
    """let the task run until it is finished or blocked in the reader"""
    for _ in range(100000):
        if task.done() or reader._waiter is not None:
            return
        await asyncio.sleep(0)
    raise RuntimeError("the loop under test neither finished nor blocked in its reader")


def seg_points(cuts, n):
    return [c for c in cuts if 0 < c < n] + [n]


# ------------------------------------------------------------------ the real front-end
async def drive_front(stream, cuts, maxin, rlimit):
    """IMAPClient.start fed `stream` cut at `cuts`.  Returns (events, obs): events = list of
    ('W', bytes) | ('M', msg, ipc_bytes); obs = [(prefix_len, n_events, done)] after each segment,
    the last entry taken after feed_eof with prefix_len = -1."""
    S, U, P, K = mods()
    S.MAX_INPUT_SIZE = maxin
    events = []
    reader = asyncio.StreamReader(limit=rlimit)
    w = FakeWriter(events, "W")
    cl = S.IMAPClient(FakeServer(), "c19", "127.0.0.1", 4321, reader, w)
    intf = cl.subprocess_intf
    ipc = []
    intf.writer = FakeWriter(ipc, "I")
    intf.client_handler.state = "authenticated"
    real_message = intf.message

    async def message(m):
        del ipc[:]
        keep = await real_message(m)
        events.append(("M", bytes(m), b"".join(b for _, b in ipc)))
        return keep

    intf.message = message
    task = asyncio.ensure_future(cl.start())
    await settle(task, reader)
    obs = []
    pos = 0
    for cut in seg_points(cuts, len(stream)):
        if task.done():
            break
        reader.feed_data(stream[pos:cut])
        pos = cut
        await settle(task, reader)
        obs.append((pos, len(events), task.done()))
    if not task.done():
        reader.feed_eof()
        await settle(task, reader)
    if not task.done():
        task.cancel()
        raise RuntimeError("IMAPClient.start did not end after EOF")
    task.result()
    obs.append((-1, len(events), w.closed))
    return events, obs


def strip_greeting(events):
    if events and events[0][0] == "W" and events[0][1].startswith(b"* OK [CAPABILITY"):
        return events[1:], 1
    return events, 0


# ------------------------------------------------------------------ stream generators
class Cmd:
    """command text in the shape of Spec/FrameSpec.v: first line text, then literals
    (digits, plus, data, text after the data)"""

    def __init__(self, first, lits=()):
        self.first, self.lits = first, list(lits)

    def denote(self):
        out = self.first
        for (ds, plus, data, text) in self.lits:
            out += announce(ds, plus) + CRLF + data + text
        return out

    def last_text(self):
        return self.lits[-1][3] if self.lits else self.first

    def pre_len(self):
        return len(self.denote()) - len(self.last_text())

    def conts(self):
        return [CONT for (_, plus, _, _) in self.lits if not plus]

    def coq(self):
        ls = "; ".join(f"{{| l_digits := {cb(ds)}; l_plus := {cbool(plus)}; l_data := {cb(data)}; l_text := {cb(text)} |}}"
                       for (ds, plus, data, text) in self.lits)
        return f"{{| c_first := {cb(self.first)}; c_lits := [{ls}] |}}"


def announce(ds, plus):
    return b"{" + ds + (b"+" if plus else b"") + b"}"


class Item:
    """one item of a generated stream (Spec/FrameSpec.v: item) with what the property says must
    happen to it: commands handed on, octets written back"""

    def __init__(self, kind, cmd=None, w=b"", ds=b"", plus=False, data=b""):
        self.kind, self.cmd, self.w, self.ds, self.plus, self.data = kind, cmd, w, ds, plus, data
        if kind == "cmd":
            self.raw, self.msgs, self.writes = cmd.denote() + CRLF, [cmd.denote()], cmd.conts()
            self.coq = f"(ICmd {cmd.coq()})"
        elif kind == "blank":
            self.raw, self.msgs, self.writes = w + CRLF, [], [BAD_EMPTY]
            self.coq = f"(IBlank {cb(w)})"
        elif kind == "biglit":
            self.raw, self.msgs, self.writes = cmd.denote() + announce(ds, plus) + CRLF + data, [], cmd.conts() + [BAD_LIT]
            self.coq = f"(IBigLit {cmd.coq()} {cb(ds)} {cbool(plus)} {cb(data)})"
        elif kind == "bigacc":
            self.raw = cmd.denote() + announce(ds, plus) + CRLF + data
            self.msgs, self.writes = [], cmd.conts() + ([] if plus else [CONT]) + [BAD_CMD]
            self.coq = (f"(IBigAcc {cmd.coq()} {{| l_digits := {cb(ds)}; l_plus := {cbool(plus)}; "
                        f"l_data := {cb(data)}; l_text := [] |}})")
        elif kind == "bigline":
            self.raw, self.msgs, self.writes = cmd.denote() + CRLF, [], cmd.conts() + [BAD_CMD]
            self.coq = f"(IBigLine {cmd.coq()})"
        else:
            raise ValueError(kind)


class Expect:
    """a corpus stream with hand-written expectations (no Spec-shaped items)"""
    kind, plus, coq = "corpus", False, None

    def __init__(self, msgs, writes):
        self.msgs, self.writes, self.raw = msgs, writes, b""


WORDS = [b"NOOP", b"LOGIN", b"u", b"APPEND", b"inbox", b"FETCH", b"1:*", b"(FLAGS)", b"x", b"SELECT", b"\"a b\"",
         b"UID", b"STORE", b"+FLAGS", b"(\\Seen)", b"{", b"}", b"{3", b"3}", b"+", b"{+}", b"{}", b"\r", b"\n", b"{3}x"]
LOOKALIKE = [b"\r\nz9 LOGOUT\r\n", b"\r\n", b"{3}\r\nabc", b"a2 NOOP\r\n", b"\r\n\r\n", b"{99+}\r\n", b" ", b"\r", b"\n"]


def rand_text(rng, lo, hi):
    n = rng.randint(lo, hi)
    out = b""
    while len(out) < n:
        out += rng.choice(WORDS) + (b" " if rng.random() < 0.8 else b"")
    out = out[:n]
    while CRLF in out:
        out = out.replace(CRLF, b"\r ")
    return out


def clean_last(t):
    """make t a legal last line text: no trailing white space, no literal announcement at the end"""
    t = t.rstrip()
    while re.search(REGEX_TEXT, t):
        t = t[:-1].rstrip()
    return t


def rand_data(rng, n):
    out = b""
    while len(out) < n:
        out += rng.choice(LOOKALIKE) if rng.random() < 0.5 else bytes([rng.choice(b"abcxyz{}+0123 \r\n")])
    return out[:n]


def digits(rng, n):
    s = str(n).encode()
    if rng.random() < 0.15:
        s = b"0" * rng.randint(1, 3) + s
    return s


def gen_cmd(rng, tagno, budget, complete=True, nl=None):
    """command text of at most `budget` octets; complete: its last text is a legal last line"""
    for _ in range(30):
        first = b"a%d " % tagno + rand_text(rng, 1, max(1, min(12, budget // 3)))
        lits = []
        for _ in range(rng.choice([0, 0, 1, 1, 2, 3]) if nl is None else nl):
            n = rng.choice([0, 1, 2, 3, 5, 8])
            text = rand_text(rng, 0, 5) if rng.random() < 0.6 else b""
            lits.append((digits(rng, n), rng.random() < 0.5, rand_data(rng, n), text))
        c = Cmd(first, lits)
        if complete:
            if c.lits:
                ds, plus, data, text = c.lits[-1]
                c.lits[-1] = (ds, plus, data, clean_last(text))
            else:
                c.first = clean_last(c.first)
        if c.denote() and len(c.denote()) <= budget and (c.lits or c.first.strip()):
            return c
    return None


def gen_stream(rng, maxin, rlimit):
    """a stream made of items; returns (raw, items)"""
    items = []
    tagno = 0
    for _ in range(rng.randint(1, 5)):
        tagno += 1
        r = rng.random()
        if r < 0.5:
            c = gen_cmd(rng, tagno, maxin)
            if c:
                items.append(Item("cmd", c))
        elif r < 0.6:
            items.append(Item("blank", w=rng.choice([b"", b" ", b"\t ", b"\r", b"\n", b" \x0b\x0c", b"\n\r"])))
        elif r < 0.78:
            # over-limit literal, synchronising or not, after some in-limit command text
            c = gen_cmd(rng, tagno, max(4, maxin - 8), complete=False, nl=rng.choice([0, 0, 1, 2]))
            if not c:
                continue
            plus = rng.random() < 0.5
            n = maxin + rng.choice([1, 1, 2, 7, 40])
            items.append(Item("biglit", c, ds=digits(rng, n), plus=plus, data=rand_data(rng, n) if plus else b""))
        elif r < 0.9:
            # a literal within the limit that takes the accumulated size to limit-1 .. limit+4
            c = gen_cmd(rng, tagno, max(4, maxin // 2), complete=False, nl=rng.choice([0, 0, 1]))
            if not c:
                continue
            plus = rng.random() < 0.5
            room = maxin - len(c.denote()) - 2
            for n in sorted({max(0, room - len(announce(str(room).encode(), plus)) + d) for d in (-1, 0, 1, 2, 4)},
                            key=lambda _: rng.random()):
                ds = digits(rng, n)
                total = len(c.denote()) + len(announce(ds, plus)) + 2 + n
                if n > maxin:
                    continue
                data = rand_data(rng, n)
                if total > maxin:
                    items.append(Item("bigacc", c, ds=ds, plus=plus, data=data))
                else:
                    items.append(Item("cmd", Cmd(c.first, c.lits + [(ds, plus, data, b"")])))
                break
        else:
            # a last line that takes the command to limit-1 .. limit+2
            c = gen_cmd(rng, tagno, max(4, maxin // 2), complete=False, nl=rng.choice([0, 0, 1]))
            if not c:
                continue
            pad = maxin - len(c.denote()) + rng.choice([-1, 0, 1, 2])
            tail = b"w" * max(1, pad)
            if c.lits:
                ds, plus, data, text = c.lits[-1]
                c.lits[-1] = (ds, plus, data, text + tail)
            else:
                c.first += tail
            if c.pre_len() > maxin:
                continue
            items.append(Item("bigline" if len(c.denote()) > maxin else "cmd", c))
    raw = b"".join(i.raw for i in items)
    if not items or any(len(ln) > rlimit for ln in raw.split(CRLF)):
        return None
    return raw, items


def gen_boundary(rng, maxin):
    """sizes at limit-1 / limit / limit+1, each followed by a NOOP that must still be relayed"""
    out = []
    noop = Item("cmd", Cmd(b"c9 NOOP"))
    for n in (maxin - 1, maxin, maxin + 1):
        for plus in (False, True):
            c = Cmd(b"e ")
            ds = str(n).encode()
            if n > maxin:
                it = Item("biglit", c, ds=ds, plus=plus, data=b"q" * n if plus else b"")
            else:
                it = Item("bigacc", c, ds=ds, plus=plus, data=b"q" * n)
            out.append((it.raw + noop.raw, [it, noop]))
    for total in (maxin - 1, maxin, maxin + 1):
        c = Cmd(b"b " + b"x" * (total - 2))
        it = Item("bigline" if total > maxin else "cmd", c)
        out.append((it.raw + noop.raw, [it, noop]))
        n = 5
        head = b"b " + b"y" * (total - 2 - len(b"{5}") - 2 - n)
        it = Item("bigacc", Cmd(head), ds=b"5", plus=False, data=b"d" * n) if total > maxin else \
            Item("cmd", Cmd(head, [(b"5", False, b"d" * n, b"")]))
        out.append((it.raw + noop.raw, [it, noop]))
    return out


def gen_malformed(rng):
    n = rng.randint(1, 40)
    alpha = [b"{", b"}", b"+", b"0", b"1", b"2", b"9", b"\r", b"\n", b"\r\n", b"\r\n", b" ", b"a", b"{2}\r\n", b"{1+}\r\n",
             b"{30}\r\n", b"\t"]
    return b"".join(rng.choice(alpha) for _ in range(n))


NOOP2, NOOP3 = b"a2 NOOP", b"a3 NOOP"
CORPUS = [
    # (name, MAX_INPUT_SIZE, reader limit, stream, what the property demands: (commands handed on, octets written) | None)
    ("D15 witness: over-limit synchronising literal, two commands behind it", 20, REAL_RLIMIT,
     b"a1 LOGIN u {50}\r\na2 NOOP\r\na3 NOOP\r\n", ([NOOP2, NOOP3], [BAD_LIT])),
    ("over-limit LITERAL+ whose octets look like commands", 20, REAL_RLIMIT,
     b"a1 LOGIN u {50+}\r\n" + b"x" * 20 + b"\r\nz9 LOGOUT\r\n" + b"x" * 17 + b"\r\na2 NOOP\r\na3 NOOP\r\n",
     ([NOOP2, NOOP3], [BAD_LIT, BAD_EMPTY])),
    ("over-limit LITERAL+ cut short by EOF", 20, REAL_RLIMIT, b"a1 X {50+}\r\nxxxxxxxx\r\na2 NOOP\r\n", ([], [BAD_LIT])),
    ("accumulated size over the limit, rest of the command behind it", 20, REAL_RLIMIT,
     b"a1 X {18}\r\n" + b"x" * 18 + b"\r\na2 NOOP\r\n", ([NOOP2], [CONT, BAD_CMD, BAD_EMPTY])),
    ("white space: trailing blanks, blank lines, announcement followed by blanks", 64, REAL_RLIMIT,
     b"a1 NOOP  \r\n\r\n  \r\na2 X {3}  \r\nabc\r\n", None),
    ("literal text that looks like a command and like an announcement", 64, REAL_RLIMIT,
     b"a1 APPEND x {12}\r\n\r\nz LOGOUT\r\n {5+}\r\n{9}\r\n\r\na2 NOOP\r\n",
     ([b"a1 APPEND x {12}\r\n\r\nz LOGOUT\r\n {5+}\r\n{9}\r\n", NOOP2], [CONT])),
    ("zero-length literals", 64, REAL_RLIMIT, b"a1 X {0}\r\n {0+}\r\n\r\na2 NOOP\r\n",
     ([b"a1 X {0}\r\n {0+}\r\n", NOOP2], [CONT])),
    ("line longer than the reader's limit", 64, 40, b"a1 NOOP\r\na2 " + b"x" * 60 + b"\r\na3 NOOP\r\n",
     ([b"a1 NOOP"], [BAD_LINE])),
    ("line longer than the reader's limit, no terminator", 64, 40, b"a1 NOOP\r\na2 " + b"x" * 60, ([b"a1 NOOP"], [BAD_LINE])),
    ("line of exactly the reader's limit", 64, 40, b"a2 " + b"x" * 37 + b"\r\na3 NOOP\r\n", ([b"a2 " + b"x" * 37, NOOP3], [])),
    ("line one longer than the reader's limit", 64, 40, b"a2 " + b"x" * 38 + b"\r\na3 NOOP\r\n", ([], [BAD_LINE])),
    ("more digits than int() converts", 64, REAL_RLIMIT, b"a1 X {" + b"1" * 4301 + b"}\r\na2 NOOP\r\n", None),
    ("as many digits as int() converts", 64, REAL_RLIMIT, b"a1 X {" + b"0" * 4299 + b"2}\r\nhi\r\na2 NOOP\r\n", None),
    ("the real limit: an announcement just over it and one at it", REAL_MAXIN, REAL_RLIMIT,
     b"a1 APPEND x {10485761}\r\na2 NOOP\r\na3 APPEND x {10485760}\r\n", ([NOOP2], [BAD_LIT, CONT])),
    ("bare CR and LF inside lines", 64, REAL_RLIMIT, b"a1 X\ry\nz\r\r\na2 {1}\r\n\n\r\r\n", None),
]


# ------------------------------------------------------------------ Coq side
COQ_DEFS = """
From Asimap Require Import Base.Res Base.Bytes Spec.FrameSpec Model.Frame.
Open Scope Z_scope.
Definition enc (e : ev) : Z * bytes := match e with Wr b => (0, b) | Msg b => (1, b) end.
Fixpoint evs_eqb (a b : list (Z * bytes)) : bool :=
  match a, b with
  | [], [] => true
  | (x, u) :: a', (y, v) :: b' => (x =? y) && bytes_eqb u v && evs_eqb a' b'
  | _, _ => false
  end.
Definition mk (m lim : Z) : cfg := fixed_cfg m lim.
(* one case: limits, stream, all events observed, and per observation point (prefix length,
   number of events so far, loop finished before EOF) *)
Definition obs_ok (c : cfg) (s : bytes) (evs : list (Z * bytes)) (o : Z * Z * bool) : bool :=
  let '(p, n, done) := o in
  let r := frame_loop c (firstn (Z.to_nat p) s) in
  evs_eqb (map enc (fst r)) (firstn (Z.to_nat n) evs) &&
  Bool.eqb (match snd r with Closed => true | _ => false end) done &&
  match snd r with NoFuel => false | _ => true end.
Definition check (k : Z * Z * bytes * list (Z * bytes) * list (Z * Z * bool)) : bool :=
  let '(m, lim, s, evs, os) := k in forallb (obs_ok (mk m lim) s evs) os.
Fixpoint bad_from {A} (f : A -> bool) (i : nat) (cs : list A) : list nat :=
  match cs with [] => [] | c :: r => if f c then bad_from f (S i) r else i :: bad_from f (S i) r end.
Fixpoint bl_eqb (a b : list bytes) : bool :=
  match a, b with [], [] => true | x :: a', y :: b' => bytes_eqb x y && bl_eqb a' b' | _, _ => false end.
(* IPC: framing of each message, and the de-framer on a whole IPC stream *)
Definition fcheck (k : bytes * bytes) : bool := bytes_eqb (frame (fst k)) (snd k).
Definition dcode (d : dstop) : Z := match d with DEof => 0 | DBadHeader => 1 | DTooBig => 1 | DPop3 => 2 | DNoFuel => 9 end.
Definition dcheck (k : Z * bytes * list bytes * Z) : bool :=
  let '(m, s, ms, code) := k in
  let r := deframe m s in bl_eqb (fst r) ms && (dcode (snd r) =? code).
(* relay: concatenation of the chunks pushed *)
Definition rcheck (k : Z * bytes * bytes * bool) : bool :=
  let '(lim, s, out, exact) := k in
  let r := List.concat (fst (relay lim true s)) in
  if exact then bytes_eqb r out else bytes_startswith out r && bytes_startswith s out.
Definition pcheck (k : Z * bytes * list (Z * bytes)) : bool :=
  let '(lim, s, evs) := k in evs_eqb (map enc (fst (pop_frame_loop lim s))) evs.
"""


ITEM_DEFS = """
From Asimap Require Import Proofs.FrameP.
(* the generated stream is in the domain of C19_stream_exact, is the rendering of its items, and the
   implementation's trace is the one the theorem states *)
Definition icheck (k : Z * Z * list item * bytes * list (Z * bytes)) : Z :=
  let '(m, lim, items, raw, evs) := k in
  if negb (forallb (wf_itemb m lim 4300) items) then 1
  else if negb (bytes_eqb (List.concat (map render_item items)) raw) then 2
  else if negb (evs_eqb (map enc (flat_map item_events items)) evs) then 3 else 0.
Definition iok (k : Z * Z * list item * bytes * list (Z * bytes)) : bool := icheck k =? 0.
"""


def cevs(evs):
    return "[" + "; ".join(f"({0 if e[0] == 'W' else 1}, {cb(e[1])})" for e in evs) + "]"


def coq_bad(ctx, name, fn, terms, chunk=150, defs=""):
    """indices of the case terms on which the Coq check function `fn` says false"""
    if not terms:
        return []
    chunks = [terms[i:i + chunk] for i in range(0, len(terms), chunk)]
    texts = [COQ_DEFS + defs + "Definition cases := [" + ";\n".join(ch) + "].\nEval vm_compute in (bad_from " + fn +
             " 0 cases).\n" for ch in chunks]
    outs = ctx.coq.eval_many(name, texts)
    bad = []
    for k, out in enumerate(outs):
        vals = core.parse_coq_values(out)
        bad += [k * chunk + int(x) for x in re.findall(r"\d+", vals[0])]
    return bad


def model_output(ctx, maxin, rlimit, stream):
    """the model's events on one stream (for replay files)"""
    t = COQ_DEFS + f"Eval vm_compute in (let r := frame_loop (mk {cz(maxin)} {cz(rlimit)}) {cb(stream)} in " \
                   "(map enc (fst r), match snd r with Eof => 0 | Closed => 1 | NoFuel => 9 end)).\n"
    try:
        out = ctx.coq.eval_cases("c19one", t)
    except core.CoqError as e:
        return "coq error: " + e.log[-300:]
    vals = core.parse_coq_values(out)
    return decode_model(vals[0]) if vals else out[:500]


def decode_model(v):
    evs = []
    for m in re.finditer(r"\((\d), \[([\d; ]*)\]\)", v):
        b = bytes(int(x) for x in m.group(2).split(";") if x.strip())
        evs.append(("W" if m.group(1) == "0" else "M", repr(b)))
    st = re.search(r"\],\s*(\d)\)\s*$", v)
    return {"events": evs, "stop": {"0": "waiting/EOF", "1": "closed", "9": "out of fuel"}.get(st.group(1), "?") if st else v[-40:]}


# ------------------------------------------------------------------ front-end correspondence
def all_cuts(n, maxcuts):
    yield ()
    for k in range(1, maxcuts + 1):
        yield from itertools.combinations(range(1, n), k)


def front_level(ctx, loop, proof_ok):
    S, U, P, K = mods()
    rng = ctx.rng
    streams = []  # (name, maxin, rlimit, raw, items|None)
    for (nm, m, lim, raw, want) in CORPUS:
        streams.append((nm, m, lim, raw, None if want is None else [Expect(*want)]))
    M = 24
    for raw, items in gen_boundary(rng, M):
        streams.append(("boundary", M, REAL_RLIMIT, raw, items))
    nshort = 100 if ctx.thorough else 14
    nlong = 1500 if ctx.thorough else 150
    nmal = 600 if ctx.thorough else 60
    short = []
    tries = 0
    while len(short) < nshort and tries < 5000:
        tries += 1
        g = gen_stream(rng, M, REAL_RLIMIT)
        if g and 6 <= len(g[0]) <= (34 if ctx.thorough else 30) and any(i.kind != "cmd" or b"{" in i.raw for i in g[1]):
            short.append(g)
    for raw, items in short:
        streams.append(("short", M, REAL_RLIMIT, raw, items))
    for _ in range(nlong):
        m = rng.choice([24, 24, 40, 64])
        lim = rng.choice([REAL_RLIMIT, REAL_RLIMIT, 48])
        g = gen_stream(rng, m, lim)
        if g:
            streams.append(("generated", m, lim, g[0], g[1]))
    for _ in range(nmal):
        streams.append(("malformed", rng.choice([4, 24]), rng.choice([REAL_RLIMIT, 12]), gen_malformed(rng), None))

    kinds = {}
    terms, meta = [], []
    iterms, imeta = [], []
    saved = S.MAX_INPUT_SIZE
    nruns = 0
    try:
        for (nm, m, lim, raw, items) in streams:
            n = len(raw)
            if nm in ("short", "boundary") or (nm.startswith("D15") or n <= 30 and nm != "malformed"):
                cutsets = list(all_cuts(n, (3 if ctx.thorough else 2) if n <= 34 else 1))
            else:
                cutsets = [()]
                for _ in range(6 if ctx.thorough else 3):
                    k = rng.randint(1, 4)
                    cutsets.append(tuple(sorted(rng.sample(range(1, n), min(k, n - 1)))) if n > 1 else ())
                # cuts inside every `{n}` and every CRLF
                special = [i for i in range(1, n) if raw[i - 1:i + 1] == CRLF or raw[i:i + 1] in (b"{", b"}", b"+")]
                if special:
                    cutsets.append(tuple(sorted(set(special))[:60]))
            if n <= 400:
                cutsets.append(tuple(range(1, n)))  # byte by byte: every prefix is observed
            elif n <= 6000:
                cutsets.append(tuple(range(1, n, max(1, n // 12))))
            seen = {}  # prefix_len -> (n_events, done)
            ref_events = None
            inconsistent = None
            for cuts in cutsets:
                nruns += 1
                try:
                    events, obs = loop.run_until_complete(drive_front(raw, cuts, m, lim))
                except Exception as e:  # noqa: BLE001
                    viol(ctx, "IMAPClient.start raised / did not finish on a stream",
                                  {"stream": repr(raw), "cuts": list(cuts), "MAX_INPUT_SIZE": m, "reader_limit": lim,
                                   "error": repr(e)})
                    continue
                events, g = strip_greeting(events)
                if not g:
                    viol(ctx, "no greeting written", {"stream": repr(raw)})
                obs = [(p, k - g, d) for (p, k, d) in obs]
                if ref_events is None or len(events) > len(ref_events):
                    if ref_events is not None and events[:len(ref_events)] != ref_events:
                        inconsistent = (cuts, events)
                    ref_events = events
                elif ref_events[:len(events)] != events:
                    inconsistent = (cuts, events)
                for (p, k, d) in obs:
                    if p == -1:
                        # after EOF: nothing new may have been written or handed on, connection closed
                        if not d:
                            viol(ctx, "the client connection is not closed when the loop ends",
                                          {"stream": repr(raw), "cuts": list(cuts)})
                        if len(obs) > 1 and k != obs[-2][1]:
                            inconsistent = (cuts, events)
                        continue
                    if p in seen and seen[p] != (k, d):
                        inconsistent = (cuts, events)
                    seen[p] = (k, d)
            if ref_events is None:
                continue
            if inconsistent:
                viol(ctx, "what the front-end relays depends on how the stream is cut into reads",
                              {"stream": repr(raw), "MAX_INPUT_SIZE": m, "reader_limit": lim,
                               "cuts": list(inconsistent[0]), "events_with_these_cuts": repr(inconsistent[1]),
                               "events_otherwise": repr(ref_events)})
            for e in ref_events:
                if e[0] == "M":
                    meta_frames.append((e[1], e[2]))
            # property oracle on the implementation's own trace
            if items is not None:
                want_m = [x for i in items for x in i.msgs]
                want_w = [x for i in items for x in i.writes]
                got_m = [e[1] for e in ref_events if e[0] == "M"]
                got_w = [e[1] for e in ref_events if e[0] == "W"]
                if got_m != want_m or got_w != want_w:
                    named = items[0].kind == "corpus"
                    viol(ctx, "the front-end does not relay the commands the stream denotes "
                         "(reference tokenization vs IMAPClient.start)" + (": " + nm if named else ""),
                         prio=((1 if nm.startswith(("D15", "over-limit LITERAL+ whose", "line longer than the reader's limit"))
                                and "no terminator" not in nm else 3) if named else 4),
                         replay=
                                  {"stream": repr(raw), "case": nm, "items": [(i.kind, repr(i.raw)) for i in items],
                                   "MAX_INPUT_SIZE": m, "reader_limit": lim,
                                   "commands_denoted": [repr(x) for x in want_m],
                                   "commands_handed_on": [repr(x) for x in got_m],
                                   "writes_expected": [repr(x) for x in want_w],
                                   "writes_observed": [repr(x) for x in got_w]})
                for i in items:
                    kinds[i.kind + ("+" if i.plus else "")] = kinds.get(i.kind + ("+" if i.plus else ""), 0) + 1
                if all(i.coq for i in items):
                    iterms.append(f"({cz(m)}, {cz(lim)}, [{'; '.join(i.coq for i in items)}], {cb(raw)}, {cevs(ref_events)})")
                    imeta.append((m, lim, raw, items, ref_events))
            else:
                kinds[nm if nm == "malformed" else "corpus"] = kinds.get(nm if nm == "malformed" else "corpus", 0) + 1
            os_ = sorted(seen.items())
            terms.append(f"({cz(m)}, {cz(lim)}, {cb(raw)}, {cevs(ref_events)}, "
                         f"[{'; '.join(f'({p}, {k}, {cbool(d)})' for p, (k, d) in os_)}])")
            meta.append((nm, m, lim, raw, ref_events, os_))
            nontriv = (b"{" in raw and b"}" in raw) or any(e[0] == "W" for e in ref_events)
            ctx.count({"stream": repr(raw[:80]), "MAX_INPUT_SIZE": m, "reader_limit": lim, "segmentations": len(cutsets)},
                      nontrivial=nontriv, n=len(cutsets))
    finally:
        S.MAX_INPUT_SIZE = saved
    bad = coq_bad(ctx, "c19f", "check", terms, chunk=40)
    for i in bad[:4]:
        nm, m, lim, raw, evs, os_ = meta[i]
        viol(ctx, "model (proved) and IMAPClient.start disagree on a stream",
                      {"kind": nm, "stream": repr(raw), "MAX_INPUT_SIZE": m, "reader_limit": lim,
                       "implementation_events": [(e[0], repr(e[1])) for e in evs],
                       "model": model_output(ctx, m, lim, raw),
                       "observations (prefix_len, events_so_far, finished)": [(p, k, d) for p, (k, d) in os_][-12:]})
    ibad = []
    if proof_ok:
        ibad = coq_bad(ctx, "c19s", "iok", iterms, chunk=60, defs=ITEM_DEFS)
        for i in ibad[:3]:
            m, lim, raw, items, evs = imeta[i]
            viol(ctx, "the trace of IMAPClient.start is not the one C19_stream_exact states for this stream "
                          "(or the generator left the theorem's domain: see icheck in the replay)",
                          {"stream": repr(raw), "items": [(x.kind, repr(x.raw)) for x in items], "MAX_INPUT_SIZE": m,
                           "reader_limit": lim, "implementation_events": [(e[0], repr(e[1])) for e in evs],
                           "coq_items": [x.coq for x in items]})
    ctx.extra["front_end"] = {"streams": len(terms), "runs_of_the_real_loop": nruns, "item_kinds": kinds,
                              "model_mismatches": len(bad), "streams_checked_against_the_theorem_statement": len(iterms),
                              "statement_mismatches": len(ibad)}
    return bad


meta_frames: list = []


# ------------------------------------------------------------------ IPC framing and de-framing
class RecCmd:
    log: list = []

    def __init__(self, text):
        RecCmd.log.append(text.encode("latin-1"))
        self.tag = "t"

    def parse(self):
        pass

    def qstr(self):
        return "recorded"


class StubProcessor:
    idling = False
    state = "selected"

    async def command(self, cmd):
        pass


class StubUserServer:
    def __init__(self):
        self.clients = {}
        self.commands_in_progress = 0
        self.active_commands = []


async def drive_proxy(stream, cuts, maxin):
    """IMAPClientProxy.run fed an IPC stream; returns (texts handed to the parser, finished before EOF, pop3)"""
    S, U, P, K = mods()
    import asimap.pop3_client as PC

    RecCmd.log = []
    pop3 = []

    class StubPop3:
        def __init__(self, *a):
            pass

        async def run(self):
            pop3.append(1)

    saved = (U.IMAPClientCommand, U.MAX_INPUT_SIZE, PC.POP3ClientProxy)
    U.IMAPClientCommand, U.MAX_INPUT_SIZE, PC.POP3ClientProxy = RecCmd, maxin, StubPop3
    try:
        reader = asyncio.StreamReader()
        sink = []
        px = U.IMAPClientProxy.__new__(U.IMAPClientProxy)
        px.log = logging.getLogger("c19.proxy")
        px.client_num, px.name, px.rem_addr, px.port = 1, "c19", "127.0.0.1", 4321
        px.reader, px.writer = reader, FakeWriter(sink, "W")
        px.server = StubUserServer()
        px.cmd_processor = StubProcessor()
        px.client_connected = False
        task = asyncio.ensure_future(px.run())
        await settle(task, reader)
        pos = 0
        for cut in seg_points(cuts, len(stream)):
            if task.done():
                break
            reader.feed_data(stream[pos:cut])
            pos = cut
            await settle(task, reader)
        done = task.done()
        if not done:
            reader.feed_eof()
            await settle(task, reader)
        if not task.done():
            task.cancel()
            raise RuntimeError("IMAPClientProxy.run did not end after EOF")
        try:
            task.result()
        except Exception as e:  # noqa: BLE001
            return list(RecCmd.log), True, ("raised " + type(e).__name__)
        return list(RecCmd.log), done, bool(pop3)
    finally:
        U.IMAPClientCommand, U.MAX_INPUT_SIZE, PC.POP3ClientProxy = saved


def ipc_level(ctx, loop):
    rng = ctx.rng
    # (a) every frame the real message() wrote during the front-end runs
    frames = list({(m, f) for (m, f) in meta_frames})
    frames.sort()
    frames = frames[:1500 if ctx.thorough else 400]
    fbad = coq_bad(ctx, "c19i", "fcheck", [f"({cb(m)}, {cb(f)})" for m, f in frames], chunk=200)
    for i in fbad[:3]:
        viol(ctx, "IMAPSubprocessInterface.message frames a message differently from the model",
                      {"message": repr(frames[i][0]), "written_to_the_user_process": repr(frames[i][1])})
    # (b) the de-framer on concatenations of real frames, and on damaged streams
    msgs_pool = [m for m, _ in frames] or [b"a1 NOOP"]
    fr = dict(frames)
    cases = []
    n = 300 if ctx.thorough else 80
    for j in range(n):
        maxin = rng.choice([24, 64, 64])
        ms = [rng.choice(msgs_pool) for _ in range(rng.randint(1, 5))]
        if rng.random() < 0.1:
            ms[rng.randrange(len(ms))] = b"POP3"
        stream = b"".join(fr.get(m, b"{%d}\n" % len(m) + m) for m in ms)
        r = rng.random()
        if r < 0.15:
            stream = stream[:rng.randint(0, len(stream))]
        elif r < 0.3:
            pos = rng.randint(0, len(stream))
            stream = stream[:pos] + rng.choice([b"\n", b"{x}\n", b"12\n", b"{5+}\nab\ncd", b"{9999}\n", b"{}\n", b"{3}", b"}\n"]) + \
                stream[pos:]
        cases.append((maxin, stream))
    cases.append((64, b"{4}\nPOP3{7}\na1 NOOP"))
    cases.append((64, b"{7}\na1 NOOP{4}\nPOP3{7}\na2 NOOP"))
    cases.append((64, b"junk {7}\na1 NOOP"))
    cases.append((64, b"{7+}\na1 NOOP{0}\n{1}\nx"))
    terms, meta = [], []
    for (maxin, stream) in cases:
        res = None
        cutsets = [(), tuple(range(1, len(stream)))] + [tuple(sorted(rng.sample(range(1, len(stream)), min(3, len(stream) - 1))))
                                                        for _ in range(2) if len(stream) > 2]
        for cuts in cutsets:
            try:
                got = loop.run_until_complete(drive_proxy(stream, cuts, maxin))
            except Exception as e:  # noqa: BLE001
                viol(ctx, "IMAPClientProxy.run raised / did not finish", {"ipc_stream": repr(stream), "error": repr(e)})
                continue
            if res is not None and got != res:
                viol(ctx, "what IMAPClientProxy.run de-frames depends on how the IPC stream is cut into reads",
                              {"ipc_stream": repr(stream), "cuts": list(cuts), "with_cuts": repr(got), "otherwise": repr(res)})
            res = got
        if res is None:
            continue
        texts, done, pop3 = res
        code = 2 if pop3 is True else (1 if done else 0)
        if isinstance(pop3, str):
            code = 7
        terms.append(f"({cz(maxin)}, {cb(stream)}, [{'; '.join(cb(t) for t in texts)}], {code})")
        meta.append((maxin, stream, res))
        ctx.count({"ipc_stream": repr(stream[:60]), "MAX_INPUT_SIZE": maxin}, nontrivial=True, n=len(cutsets))
    dbad = coq_bad(ctx, "c19d", "dcheck", terms, chunk=150)
    for i in dbad[:3]:
        maxin, stream, res = meta[i]
        viol(ctx, "model and IMAPClientProxy.run disagree on de-framing an IPC stream",
                      {"ipc_stream": repr(stream), "MAX_INPUT_SIZE": maxin,
                       "implementation (texts, finished_before_eof, pop3)": repr(res)})
    ctx.extra["ipc"] = {"frames_checked": len(frames), "deframe_streams": len(terms),
                        "frame_mismatches": len(fbad), "deframe_mismatches": len(dbad)}


# ------------------------------------------------------------------ response relay
async def drive_relay(which, stream, cuts, limit):
    S, U, P, K = mods()
    out = []
    w = FakeWriter(out, "W")
    if which == "imap":
        cl = S.IMAPClient(FakeServer(), "c19", "127.0.0.1", 4321, asyncio.StreamReader(), w)
        intf = cl.subprocess_intf
    else:
        cl = P.POP3Client(FakeServer(), "c19", "127.0.0.1", 4321, asyncio.StreamReader(), w)
        intf = cl.subprocess_intf
    reader = asyncio.StreamReader(limit=limit)
    intf.reader = reader
    intf.writer = FakeWriter([], "I")
    task = asyncio.ensure_future(intf.msgs_to_client())
    await settle(task, reader)
    pos = 0
    for cut in seg_points(cuts, len(stream)):
        if task.done():
            break
        reader.feed_data(stream[pos:cut])
        pos = cut
        await settle(task, reader)
    early = task.done()
    if not early:
        reader.feed_eof()
        await settle(task, reader)
    if not task.done():
        task.cancel()
        raise RuntimeError("msgs_to_client did not end after EOF")
    task.result()
    return b"".join(b for _, b in out), early


def gen_response(rng, limit):
    parts = []
    for _ in range(rng.randint(1, 6)):
        r = rng.random()
        if r < 0.4:
            parts.append(b"* %d FETCH (FLAGS (\\Seen))\r\n" % rng.randint(1, 99))
        elif r < 0.75:
            # a literal whose text has CRLF-free runs of any length, also beyond the reader's limit
            # (8-bit octets too: a message body need not be UTF-8)
            runs = [bytes([rng.choice(b"abc \r\n{}\xe9\xff\x80")]) * rng.choice([0, 1, 5, limit - 1, limit, limit + 1, limit + 2, 2 * limit + 3,
                                                                   3 * limit])
                    for _ in range(rng.randint(1, 4))]
            body = b"\r\n".join(runs)
            parts.append(b"* 1 FETCH (BODY[] {%d}\r\n" % len(body) + body + b")\r\n")
        elif r < 0.9:
            parts.append(b"a%d OK done\r\n" % rng.randint(1, 9))
        else:
            parts.append(b"+ idling")  # the one push without CRLF in user_server.py
    s = b"".join(parts)
    return s


def relay_level(ctx, loop):
    rng = ctx.rng
    cases = []
    n = 240 if ctx.thorough else 60
    for _ in range(n):
        limit = rng.choice([8, 16, 16, 33])
        cases.append((limit, gen_response(rng, limit)))
    cases.append((16, b"x" * 40 + b"\r"))
    cases.append((16, b"\r\n" + b"x" * 17 + b"\r\n\r" + b"y" * 18 + b"\n\r\n"))
    terms, meta = [], []
    for (limit, s) in cases:
        for which in ("imap", "pop3"):
            cutsets = [(), tuple(range(1, len(s)))] + [tuple(sorted(rng.sample(range(1, len(s)), min(rng.randint(1, 4), len(s) - 1))))
                                                       for _ in range(3) if len(s) > 2]
            exact = s.endswith(CRLF)
            outs = set()
            for cuts in cutsets:
                try:
                    out, early = loop.run_until_complete(drive_relay(which, s, cuts, limit))
                except Exception as e:  # noqa: BLE001
                    viol(ctx, "msgs_to_client raised / did not finish",
                                  {"server": which, "response_stream": repr(s), "error": repr(e)})
                    continue
                outs.add(out)
                # the property itself: complete responses reach the client unmodified and in order
                if (exact and out != s) or not s.startswith(out) or early:
                    viol(ctx, "responses from the user process do not reach the client unmodified",
                                  {"server": which, "reader_limit": limit, "response_stream": repr(s), "cuts": list(cuts)[:20],
                                   "delivered": repr(out), "octets_sent": len(s), "octets_delivered": len(out),
                                   "relay_ended_before_eof": early})
                    break
            ctx.count({"response_stream": repr(s[:60]), "limit": limit, "server": which},
                      nontrivial=any(len(r) > limit for r in s.split(CRLF)), n=len(cutsets))
            if exact and len(outs) > 1:
                viol(ctx, "what msgs_to_client delivers depends on how the stream is cut into reads",
                              {"server": which, "response_stream": repr(s), "delivered": [repr(o) for o in outs]})
            for out in sorted(outs)[:2]:
                terms.append(f"({cz(limit)}, {cb(s)}, {cb(out)}, {cbool(exact)})")
                meta.append((which, limit, s, out))
    rbad = coq_bad(ctx, "c19r", "rcheck", terms, chunk=200)
    for i in rbad[:3]:
        which, limit, s, out = meta[i]
        viol(ctx, "model and msgs_to_client disagree on a response stream",
                      {"server": which, "reader_limit": limit, "response_stream": repr(s), "delivered": repr(out)})
    # the witness with the limit the server really asks for
    body = b"x" * (REAL_RELAY_LIMIT + 9000)
    s = b"* 1 FETCH (BODY[] {%d}\r\n" % len(body) + body + b")\r\na1 OK done\r\n"
    for which in ("imap", "pop3"):
        out, early = loop.run_until_complete(drive_relay(which, s, (70000, 140000), REAL_RELAY_LIMIT))
        ctx.count({"response_stream": "literal with a CRLF-free run longer than the 128 KiB reader limit", "server": which})
        if out != s or early:
            viol(ctx, "a response literal with a CRLF-free run longer than the reader limit does not reach the client",
                 prio=2, replay={"server": which, "reader_limit": REAL_RELAY_LIMIT, "response_stream":
                              "b'* 1 FETCH (BODY[] {%d}\\r\\n' + b'x'*%d + b')\\r\\na1 OK done\\r\\n'" % (len(body), len(body)),
                           "octets_sent": len(s), "octets_delivered": len(out), "relay_ended_before_eof": early})
    ctx.extra["relay"] = {"streams": len(cases), "model_mismatches": len(rbad)}


# ------------------------------------------------------------------ POP3 front-end
async def drive_pop(stream, cuts, rlimit):
    S, U, P, K = mods()
    events = []
    reader = asyncio.StreamReader(limit=rlimit)
    w = FakeWriter(events, "W")
    cl = P.POP3Client(FakeServer(), "c19", "127.0.0.1", 4321, reader, w)

    async def message(m):
        events.append(("M", bytes(m)))
        return True

    cl.subprocess_intf.message = message
    task = asyncio.ensure_future(cl.start())
    await settle(task, reader)
    pos = 0
    for cut in seg_points(cuts, len(stream)):
        if task.done():
            break
        reader.feed_data(stream[pos:cut])
        pos = cut
        await settle(task, reader)
    if not task.done():
        reader.feed_eof()
        await settle(task, reader)
    task.result()
    return events[1:] if events and events[0][1].startswith(b"+OK asimap POP3") else events


def pop_level(ctx, loop):
    rng = ctx.rng
    terms, meta = [], []
    for _ in range(120 if ctx.thorough else 40):
        lim = rng.choice([REAL_RLIMIT, 16])
        s = b"".join(rng.choice([b"USER bob", b"RETR 1", b" ", b"", b"\r", b"\n", b"QUIT  ", b"{3}", b"x" * 20, b"PASS a b"]) +
                     rng.choice([CRLF, CRLF, CRLF, b"\n", b""]) for _ in range(rng.randint(1, 6)))
        res = None
        for cuts in [(), tuple(range(1, len(s)))]:
            got = loop.run_until_complete(drive_pop(s, cuts, lim))
            if res is not None and got != res:
                viol(ctx, "what POP3Client.start relays depends on how the stream is cut into reads",
                              {"stream": repr(s), "a": repr(got), "b": repr(res)})
            res = got
        terms.append(f"({cz(lim)}, {cb(s)}, {cevs(res)})")
        meta.append((lim, s, res))
        ctx.count({"pop3_stream": repr(s[:60])}, nontrivial=False, n=2)
    bad = coq_bad(ctx, "c19p", "pcheck", terms, chunk=200)
    for i in bad[:3]:
        lim, s, res = meta[i]
        viol(ctx, "model and POP3Client.start disagree", {"stream": repr(s), "reader_limit": lim, "implementation": repr(res)})
    ctx.extra["pop3_front"] = {"streams": len(terms), "model_mismatches": len(bad)}


# ------------------------------------------------------------------ entry points
def run(ctx):
    ctx.coverage["rule"] = (
        "byte streams = 1-5 items (commands with 0-3 literals of both kinds, literal octets full of CRLFs, command and "
        "announcement look-alikes; blank lines; over-limit literals of both kinds; commands over the limit by "
        "accumulation or by their last line; sizes at limit-1/limit/limit+1) with MAX_INPUT_SIZE lowered on the module "
        "(24/40/64) and the reader limit 65536 or 48, plus a malformed octet soup and a fixed corpus; every stream under "
        "all segmentations into <=3 (quick) / <=4 (thorough) reads when <= 30/34 octets, else byte-by-byte + cuts at "
        "every brace/CRLF + 3-6 random segmentations; evaluations = runs of the real loop; non-trivial = the stream "
        "contains a literal announcement or draws a reply from the front-end")
    ok = ctx.prove("Properties/C19.v")
    pins(ctx)
    logging.disable(logging.CRITICAL)
    loop = asyncio.new_event_loop()
    asyncio.set_event_loop(loop)
    try:
        del meta_frames[:]
        _VIOL.clear()
        del _PENDING[:]
        front_level(ctx, loop, ok)
        ipc_level(ctx, loop)
        relay_level(ctx, loop)
        pop_level(ctx, loop)
    finally:
        logging.disable(logging.NOTSET)
        loop.close()
    flush_violations(ctx)
    if _VIOL:
        ctx.extra["violations_by_kind"] = dict(_VIOL)
    ctx.assume += [
        "asyncio.StreamReader.readuntil/readexactly/read behave as modelled (first separator; LimitOverrunError iff the "
        "separator is more than `limit` octets away) - measured on every run under all the segmentations above",
        "segmentation independence is a property of StreamReader: the theorems are about the stream, the harness measures "
        "that every observation depends only on the prefix fed so far",
        "int() refuses more than 4300 digits (sys.get_int_max_str_digits, pinned)",
        "IMAPClientProxy.run is modelled up to the point where the de-framed text is handed to IMAPClientCommand",
        "MAX_INPUT_SIZE is lowered on the modules for reachability; the theorems hold for every value of it",
    ]
    return ok


def replay(ctx, path):
    r = json.load(open(path))
    print(json.dumps(r, indent=1)[:6000])
    if "stream" in r and "MAX_INPUT_SIZE" in r:
        stream = ast.literal_eval(r["stream"])
        logging.disable(logging.CRITICAL)
        loop = asyncio.new_event_loop()
        try:
            ev, obs = loop.run_until_complete(drive_front(stream, tuple(r.get("cuts", ())), r["MAX_INPUT_SIZE"],
                                                           r.get("reader_limit", REAL_RLIMIT)))
        finally:
            loop.close()
            mods()[0].MAX_INPUT_SIZE = mods()[3].MAX_INPUT_SIZE
        print("re-run on the implementation:")
        for e in ev:
            print("  ", e[0], repr(e[1]))
    return 0
