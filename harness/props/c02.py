"""C02 — UIDs strictly ascending and never reused; UIDNEXT and UIDVALIDITY honest.

Proof:  coq/Properties/C02.v (order invariant in every reachable world; UIDNEXT monotone, UIDVALIDITY
        stable, no UID below UIDNEXT is ever assigned anew — over any further history; APPENDUID exact)
Tie:    X on Model/Mbox.v (step-by-step comparison of everything sent, incl. UIDNEXT/UIDVALIDITY of
        SELECT, APPENDUID, COPYUID, UID FETCH) with restarts, external deliveries, packing; the
        property's ledger oracle on white-box snapshots of the real Mailbox objects and files;
        UIDVALIDITY of deleted-and-recreated / renamed mailboxes on the real namespace commands.
"""
import json

import core
import mboxx
import world as W
from props.c01 import report_diffs, _mix

MIX = {"append": 10, "copy": 7, "move": 6, "expunge": 9, "deliver": 7, "poll": 5, "restart": 2, "select": 6,
       "store": 8, "fetch": 5, "noop": 4, "close": 2, "idle": 1, "search": 1, "check": 1, "unselect": 1}


def vv_namespace(ctx):
    """delete + create again gives a larger UIDVALIDITY; rename keeps it; restart keeps everything"""
    n = 0
    for rep in range(6 if ctx.thorough else 2):
        with W.World(seed=rep) as w:
            w.session("A")
            seen = {}

            def vv(name):
                out = w.cmd("A", f"t STATUS {name} (UIDVALIDITY UIDNEXT)")
                import re
                m = re.search(rb"UIDVALIDITY (\d+)\) *\r\n|UIDVALIDITY (\d+)", b"".join(out))
                return int(m.group(1) or m.group(2)) if m else None

            names = ["aa", "bb", "aa/cc"]
            for nm in names:
                w.cmd("A", f"t CREATE {nm}")
                seen[nm] = [vv(nm)]
            allv = [vv("inbox")] + [seen[x][0] for x in names]
            if len(set(allv)) != len(allv) or None in allv:
                ctx.violation("UIDVALIDITY values are not distinct", {"values": allv})
            for rnd in range(3):
                nm = ctx.rng.choice(["bb", "aa/cc"])
                lit = W.make_msg(1)
                w.cmd("A", f"t APPEND {nm} {{{len(lit)}}}\r\n" + lit.decode())
                # a subscribed mailbox (or one with inferiors) survives DELETE as a \Noselect placeholder: the
                # UIDVALIDITY clause holds for it as well
                sub = ctx.rng.random() < 0.5
                if sub:
                    w.cmd("A", f"t SUBSCRIBE {nm}")
                if nm == "bb" and ctx.rng.random() < 0.4:
                    w.cmd("A", "t CREATE bb/kid")
                w.cmd("A", f"t DELETE {nm}")
                if ctx.rng.random() < 0.5:
                    w.restart()
                    w.session("A")
                w.cmd("A", f"t CREATE {nm}")
                v = vv(nm)
                n += 1
                ctx.count({"vv_history": nm, "values": seen[nm] + [v]}, nontrivial=True)
                if v is None or v <= max(x for xs in seen.values() for x in xs if x is not None):
                    ctx.violation("a mailbox deleted and created again did not get a larger UIDVALIDITY",
                                  {"mailbox": nm, "earlier_values": seen, "new_value": v})
                seen[nm].append(v)
            # the newest mailbox (the one holding the highest UIDVALIDITY) is deleted for good, the server restarts
            # before anything else is created, the name is created again
            w.cmd("A", "t CREATE newest")
            lit = W.make_msg(2)
            w.cmd("A", f"t APPEND newest {{{len(lit)}}}\r\n" + lit.decode())
            old_v = vv("newest")
            w.cmd("A", "t DELETE newest")
            w.restart()
            w.session("A")
            w.cmd("A", "t CREATE newest")
            new_v = vv("newest")
            n += 1
            ctx.count({"vv_history": "newest mailbox deleted, restart, created again", "values": [old_v, new_v]}, nontrivial=True)
            if new_v is None or old_v is None or new_v <= old_v:
                ctx.violation("a mailbox deleted and created again (with a restart in between) did not get a larger UIDVALIDITY",
                              {"mailbox": "newest", "before": old_v, "after": new_v})
            before = vv("aa")
            w.cmd("A", "t RENAME aa zz")
            after = vv("zz")
            if before != after:
                ctx.violation("RENAME changed the UIDVALIDITY", {"before": before, "after": after})
            w.restart()
            w.session("A")
            if vv("zz") != after:
                ctx.violation("restart changed a UIDVALIDITY", {"before": after, "after": vv("zz")})
    ctx.extra["uidvalidity_namespace_cases"] = n


def midcopy_deliveries(ctx):
    """An MH tool is another process: it can drop a message into the DESTINATION folder while COPY / MOVE / APPEND is writing
    there (the server holds no folder lock across its writes).  COPYUID / APPENDUID must still name the UIDs the copies
    actually got: every pair (source UID, destination UID) must be the same message (Message-ID read from the files)."""
    import re
    import asimap.mh

    def expand(s):
        out = []
        for part in s.split(","):
            a, _, b = part.partition(":")
            out += list(range(int(a), int(b or a) + 1)) if int(b or a) >= int(a) else list(range(int(a), int(b) - 1, -1))
        return out

    def cid_by_uid(w, box):
        mb = w.server.active_mailboxes.get(box)
        res = {}
        if mb is None:
            return res
        for uid, key in zip(mb.uids, mb.msg_keys):
            try:
                txt = (w.root / box / str(key)).read_bytes()
            except OSError:
                continue
            m = re.search(rb"Message-ID: <(\d+)@verif>", txt)
            res[uid] = int(m.group(1)) if m else None
        return res

    n = 0
    cases = [("COPY 1:3 work", "work"), ("UID COPY 1:3 work", "work"), ("MOVE 1:3 work", "work"), ("COPY 2:3 inbox", "inbox"),
             ("COPY 1:3 work", "work"), ("APPEND", "work"), ("APPEND", "inbox")]
    for ci, (text, dest) in enumerate(cases):
        for after in (1, 2):
            if text == "APPEND" and after == 2:
                continue
            w = W.World(seed=ctx.rng.randrange(1 << 30))
            try:
                w.session("A"); w.session("B")
                w.cmd("A", "x CREATE work")
                w.deliver("inbox", 4, unseen=True)
                w.deliver("work", 2 if ci != 4 else 0, unseen=False)
                w.cmd("A", "a SELECT inbox"); w.cmd("B", "b SELECT work")
                w.drain("A"); w.drain("B")
                src_before = cid_by_uid(w, "inbox")
                state = {"adds": 0, "delivered": [], "busy": False}
                orig = asimap.mh.MH.add

                def add(self, message, _orig=orig):
                    key = _orig(self, message)
                    if not state["busy"] and str(self._path).rstrip("/").endswith("/" + dest):
                        state["adds"] += 1
                        if state["adds"] == after and not state["delivered"]:
                            state["busy"] = True
                            try:
                                state["delivered"] = w.deliver(dest, 1, unseen=True)
                            finally:
                                state["busy"] = False
                    return key
                asimap.mh.MH.add = add
                try:
                    if text == "APPEND":
                        lit = W.make_msg(900 + ci)
                        out = w.cmd("A", f"t APPEND {dest} {{{len(lit)}}}\r\n" + lit.decode())
                    else:
                        out = w.cmd("A", "t " + text)
                finally:
                    if "add" in asimap.mh.MH.__dict__:
                        del asimap.mh.MH.add
                if not state["delivered"]:
                    continue
                n += 1
                ctx.count({"delivery_into_destination_during": text, "after_add": after, "dest": dest}, nontrivial=True)
                tagged = b"".join(o for o in out if o.startswith(b"t "))
                w.settle(25)
                w.cmd("A", "n NOOP"); w.cmd("B", "n NOOP")
                dst_now = cid_by_uid(w, dest)
                rep = {"command": text, "delivery_after_add": after, "tagged": tagged.decode("latin-1"),
                       "sent": [o.decode("latin-1") for o in out if b"UID" in o][:3],
                       "destination_uid_to_message": dst_now, "source_uid_to_message": src_before}
                m = re.search(rb"\[COPYUID (\d+) (\S+) (\S+)\]", b"".join(out))   # MOVE sends it in an untagged OK
                if m:
                    pairs = list(zip(expand(m.group(2).decode()), expand(m.group(3).decode())))
                    wrong = [(a, b) for a, b in pairs if src_before.get(a) is None or dst_now.get(b) != src_before.get(a)]
                    if wrong or len(pairs) != (2 if "2:3" in text else 3):
                        ctx.violation("COPYUID does not report the UIDs the copies were given (a delivery arrived in the "
                                      f"destination during the command): source UID {wrong[0][0] if wrong else '?'} is not "
                                      f"destination UID {wrong[0][1] if wrong else '?'}", rep)
                        continue
                elif text != "APPEND" and tagged.startswith(b"t OK"):
                    ctx.violation("COPY/MOVE completed without COPYUID", rep)
                m = re.search(rb"\[APPENDUID (\d+) (\d+)\]", tagged)
                if text == "APPEND":
                    if not m or dst_now.get(int(m.group(2))) != 900 + ci:
                        ctx.violation("APPENDUID does not name the UID the appended message was given (a delivery arrived in "
                                      "the destination during the command)", rep)
                # the ledger: ascending, below UIDNEXT
                mb = w.server.active_mailboxes.get(dest)
                if mb is not None and (sorted(set(mb.uids)) != list(mb.uids) or (mb.uids and mb.uids[-1] >= mb.next_uid)):
                    ctx.violation("UIDs not strictly ascending below UIDNEXT after a delivery during COPY/APPEND",
                                  dict(rep, uids=list(mb.uids), next_uid=mb.next_uid))
            finally:
                if "add" in asimap.mh.MH.__dict__:
                    del asimap.mh.MH.add
                w.close()
    ctx.extra["midcopy_delivery_cases"] = n


def sparse_batch_restart(ctx):
    """Sparse folders (old mail expunged, message numbers far above the count), several messages taken in by ONE resync
    whose numbers straddle 8 / 16 / 32 / 64, then an orderly restart: every UID must still name the same message
    (Message-ID), UIDs ascend, UIDNEXT does not move.  (The order in which a batch of new numbers is taken in is the order
    that is persisted sorted.)"""
    import re
    n = 0
    for edge in ((8, 16, 32, 64, 128) if ctx.thorough else (8, 32)):
        for keep in (1, 3):
            w = W.World(seed=ctx.rng.randrange(1 << 30))
            try:
                w.session("A")
                w.deliver("inbox", edge - 2, unseen=True)
                w.cmd("A", "a SELECT inbox")
                w.cmd("A", f"a STORE 1:{edge - 2 - keep} +FLAGS.SILENT (\\Deleted)")
                w.cmd("A", "a EXPUNGE")
                w.deliver("inbox", 4, unseen=ctx.rng.random() < 0.5)      # numbers edge-1 .. edge+2 in one resync
                w.cmd("A", "a NOOP")

                def view():
                    mb = w.server.active_mailboxes["inbox"]
                    out = {}
                    for uid, key in zip(mb.uids, mb.msg_keys):
                        m = re.search(rb"Message-ID: <(\d+)@verif>", (w.root / "inbox" / str(key)).read_bytes())
                        out[uid] = int(m.group(1)) if m else None
                    return out, list(mb.uids), mb.next_uid
                before, uids0, nxt0 = view()
                w.cmd("A", "a UNSELECT")
                w.restart()
                w.session("A")
                w.cmd("A", "a SELECT inbox")
                after, uids1, nxt1 = view()
                n += 1
                ctx.count({"sparse_batch_restart": {"numbers_around": edge, "kept": keep}}, nontrivial=True)
                moved = {u: (before[u], after.get(u)) for u in before if after.get(u) != before[u]}
                if moved or uids1 != sorted(set(uids1)) or nxt1 < nxt0 or set(after) - set(before):
                    ctx.violation("after an orderly restart a UID names another message (a batch of new messages was taken in "
                                  "around message number %d): %s" % (edge, moved or (uids0, uids1, nxt0, nxt1)),
                                  {"message_numbers_around": edge, "uid_to_message_before": before, "uid_to_message_after": after,
                                   "uidnext": [nxt0, nxt1]})
            finally:
                w.close()
    ctx.extra["sparse_batch_restart_cases"] = n


def run(ctx):
    ctx.coverage["rule"] = ("histories of 45/70 commands over 1-3 sessions and two mailboxes, biased to message-adding and "
                            "-removing commands, external deliveries, polls (packing enabled at 4 messages / ratio 0.8), "
                            "orderly restarts; non-trivial = the history assigned a UID after an expunge in the same mailbox "
                            "(a gap where reuse could show) or contains a restart. Plus: histories with deliveries the server cannot see yet "
                            "(folder mtime unchanged; ledger and binding oracles only); DELETE/CREATE (also subscribed / with inferiors / "
                            "with a restart) and RENAME UIDVALIDITY scenarios; COPY/UID COPY/MOVE/APPEND with a delivery dropped into the destination "
                            "folder right after the server's first or second write there (COPYUID/APPENDUID pairs checked by Message-ID); sparse folders with "
                            "a batch of arrivals around message numbers 8/32 (thorough: 8..128) followed by a restart")
    ok = ctx.prove("Properties/C02.v")
    n = 400 if ctx.thorough else 64
    hs = mboxx.generate(ctx, n, 70 if ctx.thorough else 45, mix=MIX, pack=(4, 4, 5))
    for h in [h for h in hs if h.error][:3]:
        ctx.violation("the implementation raised while running a history",
                      {"seed": h.seed, "ops": [repr(o) for o in h.ops], "error": h.error})
    hs = [h for h in hs if not h.error]
    packs = 0
    for h in hs:
        kinds = [o[0] for o in h.ops]
        nt = "restart" in kinds or ("expunge" in kinds and any(x in kinds[kinds.index("expunge"):] for x in ("append", "deliver", "copy")))
        packs += mboxx.packs_seen(h)
        ctx.count({"sessions": h.nsess, "ops": [repr(o) for o in h.ops[:12]] + ["..."], "n_ops": len(h.ops), "seed": h.seed},
                  nontrivial=nt)
        for (k, d) in mboxx.uid_oracle(h)[:1]:
            ctx.violation("UID ledger violated on the implementation: " + d,
                          {"seed": h.seed, "step": k, "ops_up_to_step": [repr(o) for o in h.ops[:k + 1]],
                           "snapshot_after": h.snaps[k][1]["boxes"] if h.snaps[k][1] else None})
    # deliveries the server cannot see yet (same second as its last look at the folder: the mtime test skips the
    # resync): not in the model - the UID ledger and the UID<->content binding are checked on the implementation alone
    sh = mboxx.generate(ctx, 120 if ctx.thorough else 24, 40, mix=dict(MIX, sdeliver=9, copy=9, move=5, append=8, deliver=2,
                                                                         restart=0), pack=(4, 4, 5))
    for h in sh:
        if h.error:
            ctx.violation("the implementation raised while running a history", {"seed": h.seed, "ops": [repr(o) for o in h.ops], "error": h.error})
            continue
        ctx.count({"unseen_deliveries": True, "sessions": h.nsess, "ops": [repr(o) for o in h.ops[:12]] + ["..."], "seed": h.seed},
                  nontrivial=any(o[0] == "sdeliver" for o in h.ops))
        for (k, d) in (mboxx.uid_oracle(h) + mboxx.binding_oracle(h))[:1]:
            ctx.violation("with deliveries the server has not seen yet: UID ledger / binding violated on the implementation: " + d,
                          {"seed": h.seed, "step": k, "ops_up_to_step": [repr(o) for o in h.ops[:k + 1]],
                           "snapshot_after": h.snaps[k][1]["boxes"] if h.snaps[k][1] else None})
    ctx.extra["histories_with_unseen_deliveries"] = len(sh)
    ctx.coq.build(["Model/MboxCmp.vo"])
    bad, _ = mboxx.compare(ctx, "c02", hs)
    report_diffs(ctx, "C02", hs, bad, "model (proved) and implementation disagree (UIDs / UIDNEXT / response codes)")
    vv_namespace(ctx)
    midcopy_deliveries(ctx)
    sparse_batch_restart(ctx)
    ctx.coverage["traces_validated_against_impl"] = len(hs) - len({i for i, _ in bad})
    ctx.extra.update({"histories": len(hs), "packs_observed": packs, "op_mix": _mix(hs)})
    ctx.assume += ["crash points are C11's; the persisted form (compact/expand of UID lists) is exercised through restarts",
                   "RENAME and DELETE of mailboxes are outside Model/Mbox.v: their UIDVALIDITY clauses are checked on the implementation only"]


def replay(ctx, path):
    print(json.dumps(json.load(open(path)), indent=1)[:4000])
    return 0
