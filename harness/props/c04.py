"""C04 — message flags follow IMAP STORE/FETCH semantics exactly.

Proof:  coq/Properties/C04.v (STORE refines the reference set operations for every flag list and
        message; \\Recent out of reach; \\Seen/unseen complements in every reachable world; the
        flag<->sequence maps are a bijection outside reserved spellings and are the generated ones)
Tie:    G constants.py maps and mbox.unstorable_keywords regenerated on every run (the latter proved equal to
        the model's reserved_kw filter and run against the original); X on Model/Mbox.v: every FETCH/STORE response
        and every notification any session receives is compared with the model (flag sets);
        flag oracle on snapshots + end-of-history probes (FETCH FLAGS vs SEARCH by every flag).
"""
import json

import core
import mboxx
from props.c01 import report_diffs, _mix

MIX = {"store": 22, "fetch": 14, "append": 9, "copy": 6, "search": 8, "noop": 6, "select": 6, "deliver": 5, "poll": 3,
       "expunge": 3, "move": 2, "idle": 3, "close": 1, "check": 1, "unselect": 1, "restart": 1}


def translator_validation(ctx):
    """Gen/Keywords.v (mbox.unstorable_keywords as py2v renders it) evaluated inside Coq against the original on generated
    keyword lists; Proofs/KeywordsBridge.v proves it equal to the filter by Model/Mbox.reserved_kw."""
    import re
    from asimap.mbox import unstorable_keywords
    from core import clist, cstr

    rng = ctx.rng
    pool = ["Seen", "seen", "unseen", "Unseen", "replied", "Deleted", "Draft", "flagged", "Recent", "kw1", "kw2", "$Forwarded",
            "a:b", ":", "x:", "caf\xe9", "\xff", "", "Seen ", "\\Seen", "\\Answered", "Flagged", "recent", "NonJunk", "a b", "~", "\x7f"]
    cases = []
    for _ in range(300 if ctx.thorough else 80):
        fl = [rng.choice(pool) for _ in range(rng.randint(0, 5))]
        cases.append((fl, list(unstorable_keywords(fl))))
        ctx.count({"unstorable_keywords": fl}, nontrivial=bool(fl))
    t = ("From Asimap Require Import Base.Res Gen.Keywords.\nFrom Coq Require Import String.\n"
         "Fixpoint sl_eqb (a b : list string) := match a, b with [], [] => true | x :: a', y :: b' => String.eqb x y && sl_eqb a' b' "
         "| _, _ => false end.\n"
         "Definition chk (c : list string * list string) : bool := match unstorable_keywords (fst c) with Ok r => sl_eqb r (snd c) "
         "| Err _ => false end.\n"
         "Fixpoint bad (i : nat) (cs : list (list string * list string)) := match cs with [] => [] | c :: r => "
         "if chk c then bad (S i) r else i :: bad (S i) r end.\n")
    t += ("Definition cases : list (list string * list string) := "
          + clist([f"({clist([cstr(x) for x in a])}, {clist([cstr(x) for x in b])})" for a, b in cases]) + ".\n")
    t += "Eval vm_compute in (bad 0 cases).\n"
    out = ctx.coq.eval_cases("c04gen", t)
    idx = [int(x) for x in re.findall(r"\d+", core.parse_coq_values(out)[0])]
    for i in idx[:2]:
        ctx.proof_broken.append({"what": "translator validation: Gen/Keywords.v and mbox.unstorable_keywords differ",
                                 "flags": cases[i][0], "python": cases[i][1]})
    ctx.extra["generated_unstorable_keywords_cases"] = len(cases)


def search_keywords(ctx):
    """the tie is broken (the source changed into something the translator or the bridge proof does not cover): look for a
    keyword on which the implementation's unstorable_keywords differs from the model's reserved_kw (the predicate under which
    C04_flag_seq_roundtrip and C04_flag_to_seq_injective are proved)"""
    import re
    from asimap.mbox import unstorable_keywords
    from core import clist, cstr

    pool = ["Seen", "seen", "unseen", "Unseen", "replied", "Deleted", "Draft", "flagged", "Recent", "kw1", "$Forwarded", "a:b", ":",
            ":x", "x:", "caf\xe9", "\xff", "", "Seen ", "\\Seen", "Flagged", "recent", "a b", "~", "\x7f", "un:seen", "k\x80"]
    try:
        ctx.coq.build(["Model/Mbox.vo"])
        res = [bool(unstorable_keywords([k])) for k in pool]
        t = ("From Asimap Require Import Base.Res Model.Mbox.\n"
             "Fixpoint bad (i : nat) (cs : list (string * bool)) := match cs with [] => [] | c :: r => "
             "if Bool.eqb (reserved_kw (fst c)) (snd c) then bad (S i) r else i :: bad (S i) r end.\n"
             "Eval vm_compute in (bad 0 " + clist([f"({cstr(k)}, {core.cbool(r)})" for k, r in zip(pool, res)]) + ").\n")
        out = ctx.coq.eval_cases("c04search", t)
    except Exception as e:  # noqa: BLE001
        ctx.extra["keyword_search_error"] = str(e)[-300:]
        return
    for i in [int(x) for x in re.findall(r"\d+", core.parse_coq_values(out)[0])][:2]:
        ctx.violation(f"keyword {pool[i]!r}: unstorable_keywords says {'refuse' if res[i] else 'accept'}, the proved model says the "
                      "opposite (accepted reserved spellings alias system flags; ':' and non-ASCII corrupt .mh_sequences)",
                      {"keyword": pool[i], "unstorable_keywords": res[i], "call": "asimap.mbox.unstorable_keywords([keyword])"})


def run(ctx):
    ctx.coverage["rule"] = ("histories of 45/70 commands (1-3 sessions, two mailboxes) biased to STORE (+/-/=, SILENT, UID), "
                            "FETCH (FLAGS, BODY.PEEK, BODY), APPEND with flags, COPY, SEARCH by flag; flags drawn from the "
                            "system flags, keywords kw1 kw2 $Forwarded, the reserved spellings and \\Recent; non-trivial = "
                            "the history contains a REPLACE store or a non-PEEK body fetch on an unseen message")
    ok = ctx.prove("Properties/C04.v")
    if ok:
        translator_validation(ctx)
    else:
        search_keywords(ctx)
    n = 400 if ctx.thorough else 64
    hs = mboxx.generate(ctx, n, 70 if ctx.thorough else 45, mix=MIX, pack=(4, 4, 5))
    for h in [h for h in hs if h.error][:3]:
        ctx.violation("the implementation raised while running a history",
                      {"seed": h.seed, "ops": [repr(o) for o in h.ops], "error": h.error})
    hs = [h for h in hs if not h.error]
    for h in hs:
        nt = any((o[0] == "store" and o[4] == "=") or (o[0] == "fetch" and o[4] == "body") for o in h.ops)
        ctx.count({"sessions": h.nsess, "ops": [repr(o) for o in h.ops[:12]] + ["..."], "n_ops": len(h.ops), "seed": h.seed},
                  nontrivial=nt)
        for (k, d) in mboxx.flag_oracle(h)[:1]:
            ctx.violation("flag semantics violated on the implementation: " + d,
                          {"seed": h.seed, "step": k, "ops_up_to_step": [repr(o) for o in h.ops[:k + 1]]})
    ctx.coq.build(["Model/MboxCmp.vo"])
    bad, _ = mboxx.compare(ctx, "c04", hs)
    report_diffs(ctx, "C04", hs, bad, "model (proved) and implementation disagree on reported flags")
    ctx.coverage["traces_validated_against_impl"] = len(hs) - len({i for i, _ in bad})
    ctx.extra.update({"histories": len(hs), "op_mix": _mix(hs)})
    ctx.assume += ["keyword spelling is compared exactly (no case folding)",
                   "`unseen` in a reported flag list is the MH marker, not a keyword of the reference model"]


def replay(ctx, path):
    print(json.dumps(json.load(open(path)), indent=1)[:4000])
    return 0
