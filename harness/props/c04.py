"""C04 — message flags follow IMAP STORE/FETCH semantics exactly.

Proof:  coq/Properties/C04.v (STORE refines the reference set operations for every flag list and
        message; \\Recent out of reach; \\Seen/unseen complements in every reachable world; the
        flag<->sequence maps are a bijection outside reserved spellings and are the generated ones)
Tie:    G constants.py maps regenerated on every run; X on Model/Mbox.v: every FETCH/STORE response
        and every notification any session receives is compared with the model (flag sets);
        flag oracle on snapshots + end-of-history probes (FETCH FLAGS vs SEARCH by every flag).
"""
import json

import core
import mboxx
from props.c01 import report_diffs, _mix

MIX = {"store": 22, "fetch": 14, "append": 9, "copy": 6, "search": 8, "noop": 6, "select": 6, "deliver": 5, "poll": 3,
       "expunge": 3, "move": 2, "idle": 3, "close": 1, "check": 1, "unselect": 1, "restart": 1}


def run(ctx):
    ctx.coverage["rule"] = ("histories of 45/70 commands (1-3 sessions, two mailboxes) biased to STORE (+/-/=, SILENT, UID), "
                            "FETCH (FLAGS, BODY.PEEK, BODY), APPEND with flags, COPY, SEARCH by flag; flags drawn from the "
                            "system flags, keywords kw1 kw2 $Forwarded, the reserved spellings and \\Recent; non-trivial = "
                            "the history contains a REPLACE store or a non-PEEK body fetch on an unseen message")
    ok = ctx.prove("Properties/C04.v")
    n = 400 if ctx.thorough else 64
    hs = mboxx.generate(ctx, n, 70 if ctx.thorough else 45, mix=MIX, pack=(4, 4, 5))
    for h in [h for h in hs if h.error][:3]:
        ctx.violation("the implementation raised while running a history",
                      {"seed": h.seed, "ops": [repr(o) for o in h.ops], "error": h.error})
    hs = [h for h in hs if not h.error]
    for h in hs:
        nt = any((o[0] == "store" and o[4] == "=") or (o[0] == "fetch" and o[4] == "body") for o in h.ops)
        ctx.count({"sessions": h.nsess, "ops": [repr(o) for o in h.ops[:12]] + ["..."], "n_ops": len(h.ops), "seed": h.seed},
                  nontrivial=nt)
        for (k, d) in mboxx.flag_oracle(h)[:1]:
            ctx.violation("flag semantics violated on the implementation: " + d,
                          {"seed": h.seed, "step": k, "ops_up_to_step": [repr(o) for o in h.ops[:k + 1]]})
    ctx.coq.build(["Model/MboxCmp.vo"])
    bad, _ = mboxx.compare(ctx, "c04", hs)
    report_diffs(ctx, "C04", hs, bad, "model (proved) and implementation disagree on reported flags")
    ctx.coverage["traces_validated_against_impl"] = len(hs) - len({i for i, _ in bad})
    ctx.extra.update({"histories": len(hs), "op_mix": _mix(hs)})
    ctx.assume += ["keyword spelling is compared exactly (no case folding)",
                   "`unseen` in a reported flag list is the MH marker, not a keyword of the reference model"]


def replay(ctx, path):
    print(json.dumps(json.load(open(path)), indent=1)[:4000])
    return 0
