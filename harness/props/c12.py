"""C12 — an orderly restart changes nothing a client can see.

Proof:  coq/Properties/C12.v (persisted run lists round-trip for every strictly ascending list; in
        the world model a restart keeps every mailbox and the C01/C02 invariants)
Tie:    X (a) utils.compact_sequence / expand_sequence vs Model/Codec.v on generated lists, and vs
          Model/CodecText.v on the text itself (ascending, shuffled and duplicated lists; malformed texts);
          (b) restarts inserted at arbitrary points of generated histories (expunges -> sparse UIDs,
              packing, keywords, \\Noselect placeholders, renamed trees, subscriptions, empty
              mailboxes, deliveries pending at shutdown): everything a client can observe (LIST,
              LSUB, STATUS, UID FETCH FLAGS/INTERNALDATE of every mailbox) is recorded through real
              commands before the shutdown and after the restart and compared (apart from \\Recent
              and re-created SPECIAL-USE mailboxes).
"""
import json
import re

import core
from core import clist, cz
import mboxx
import world as W

SPECIAL = {"Junk", "Archive", "Sent Messages", "Drafts", "Deleted Messages"}


def codec_level(ctx):
    from asimap.utils import compact_sequence, expand_sequence

    cases = []
    for _ in range(600 if ctx.thorough else 150):
        n = ctx.rng.choice([0, 1, 2, 3, 5, 8, 13, 30])
        pool = ctx.rng.randint(max(n, 1), max(n, 1) * ctx.rng.choice([1, 2, 4]))
        l = sorted(ctx.rng.sample(range(1, pool + 1), n))
        text = compact_sequence(l)
        runs = []
        for part in [p for p in text.split(",") if p]:
            a, _, b = part.partition("-")
            runs.append((int(a), int(b or a)))
        back = list(expand_sequence(text))
        cases.append((l, runs, back))
        ctx.count({"list": l, "text": text}, nontrivial=len(runs) < len(l) and len(runs) > 1)
    t = "From Asimap Require Import Base.Res Model.Codec.\nOpen Scope Z_scope.\n"
    t += ("Fixpoint zl_eqb (a b : list Z) := match a, b with [], [] => true | x :: a', y :: b' => (x =? y) && zl_eqb a' b' "
          "| _, _ => false end.\n"
          "Fixpoint rl_eqb (a b : list (Z*Z)) := match a, b with [], [] => true | (x,y) :: a', (u,v) :: b' => "
          "(x =? u) && (y =? v) && rl_eqb a' b' | _, _ => false end.\n"
          "Definition chk (c : list Z * list (Z*Z) * list Z) : bool := let '(l, rs, back) := c in "
          "rl_eqb (compact_runs l) rs && zl_eqb (expand_runs rs) back.\n"
          "Fixpoint bad (i : nat) cs := match cs with [] => [] | c :: r => if chk c then bad (S i) r else i :: bad (S i) r end.\n")
    items = [f"({clist([cz(x) for x in l])}, {clist([f'({a}, {b})' for a, b in rs])}, {clist([cz(x) for x in bk])})"
             for l, rs, bk in cases]
    t += "Definition cases : list (list Z * list (Z*Z) * list Z) := " + clist(items) + ".\nEval vm_compute in (bad 0 cases).\n"
    out = ctx.coq.eval_cases("c12codec", t)
    idx = [int(x) for x in re.findall(r"\d+", core.parse_coq_values(out)[0])]
    for i in idx[:3]:
        l, rs, bk = cases[i]
        ctx.violation("compact_sequence/expand_sequence differ from the proved codec",
                      {"list": l, "compact_runs_from_python_text": rs, "expand_result": bk})
    ctx.extra["codec_cases"] = len(cases)


def text_level(ctx):
    """compact_sequence / expand_sequence against Model/CodecText.v on the TEXT itself (bytes): nothing of the codec is
    re-implemented on the Python side any more; the model's text and key lists are compared inside Coq."""
    from asimap.utils import compact_sequence, expand_sequence

    rng = ctx.rng
    ccases, ecases = [], []
    # (a) lists as the server has them (ascending, positive, 1-6 digit numbers), also shuffled / with duplicates:
    #     compact_sequence sorts, and groupby's n - index grouping must behave like the model on duplicates too
    for k in range(500 if ctx.thorough else 140):
        n = rng.choice([0, 1, 2, 3, 5, 8, 13, 30])
        base = rng.choice([0, 1, 1, 7, 95, 998, 99990, 1234560])
        pool = max(n, 1) * rng.choice([1, 2, 4])
        l = sorted(base + x for x in rng.sample(range(0, pool + 1), min(n, pool + 1)))
        kind = "ascending"
        if k % 5 == 3 and l:
            l = l + [rng.choice(l) for _ in range(rng.randint(1, 3))]
            rng.shuffle(l)
            kind = "shuffled with duplicates"
        elif k % 5 == 4:
            rng.shuffle(l)
            kind = "shuffled"
        text = compact_sequence(l)
        ccases.append((l, text.encode("ascii")))
        ecases.append(text.encode("ascii"))
        ctx.count({"list": l, "text": text, "kind": kind}, nontrivial="-" in text and "," in text)
    # (b) texts nobody wrote: the alphabet {0-9 , -} (where the model of int() is exact) and blank strings
    for k in range(400 if ctx.thorough else 120):
        if k % 10 == 0:
            t = "".join(rng.choice(" \t\n\r\x0b\x0c\x1c\x1f") for _ in range(rng.randint(0, 4)))
        else:
            parts = []
            for _ in range(rng.randint(1, 5)):
                r = rng.random()
                a, b = rng.randint(0, 120), rng.randint(0, 120)
                parts.append(str(a) if r < 0.3 else f"{a}-{b}" if r < 0.6 else f"{a:03d}" if r < 0.65 else
                             "".join(rng.choice("0123456789-") for _ in range(rng.randint(0, 5))))
            t = ",".join(parts)
        ecases.append(t.encode("ascii"))
        ctx.count({"malformed_text": t}, nontrivial=True)
    eres = []
    for t in ecases:
        try:
            eres.append([int(x) for x in expand_sequence(t.decode("ascii"))])
        except Exception:
            eres.append(None)
    ctx.extra["text_cases"] = {"compact": len(ccases), "expand": len(ecases), "expand_raises": sum(r is None for r in eres)}
    t = "From Asimap Require Import Base.Res Model.CodecText.\nOpen Scope Z_scope.\n"
    t += ("Fixpoint zl_eqb (a b : list Z) := match a, b with [], [] => true | x :: a', y :: b' => (x =? y) && zl_eqb a' b' "
          "| _, _ => false end.\n"
          "Definition ol_eqb (a b : option (list Z)) := match a, b with Some x, Some y => zl_eqb x y | None, None => true "
          "| _, _ => false end.\n"
          "Definition chkc (c : list Z * list Z) : bool := zl_eqb (compact_text (fst c)) (snd c).\n"
          "Definition chke (c : list Z * option (list Z)) : bool := ol_eqb (expand_text (fst c)) (snd c).\n"
          "Fixpoint bad {A} (chk : A -> bool) (i : nat) (cs : list A) := match cs with [] => [] | c :: r => "
          "if chk c then bad chk (S i) r else i :: bad chk (S i) r end.\n")
    t += ("Definition ccases : list (list Z * list Z) := "
          + clist([f"({clist([cz(x) for x in l])}, {core.cbytes(tx)})" for l, tx in ccases]) + ".\n")
    t += ("Definition ecases : list (list Z * option (list Z)) := "
          + clist([f"({core.cbytes(tx)}, {core.copt(r, lambda r: clist([cz(x) for x in r]))})" for tx, r in zip(ecases, eres)])
          + ".\n")
    t += "Eval vm_compute in (bad chkc 0 ccases).\nEval vm_compute in (bad chke 0 ecases).\n"
    out = ctx.coq.eval_cases("c12text", t)
    vals = core.parse_coq_values(out)
    # the theorem's conclusion on the implementation itself: what was written comes back
    impl_fails = None
    for l, tx in ccases:
        if len(set(l)) != len(l):
            continue
        try:
            back = [int(x) for x in expand_sequence(tx.decode("ascii"))]
        except Exception as e:  # noqa: BLE001
            back = f"raises {type(e).__name__}"
        if back != sorted(l):
            impl_fails = {"list": l, "text": tx.decode("ascii"), "back": back}
            ctx.violation("a persisted list does not come back from its text", impl_fails)
            break
    # a difference between model and code with no list that fails to come back is still reported: the theorem no longer
    # speaks about this code (Model/CodecText.v <-> utils.compact_sequence/expand_sequence)
    for i in [int(x) for x in re.findall(r"\d+", vals[0])][:2]:
        l, tx = ccases[i]
        ctx.violation("compact_sequence does not write the text the proved codec writes (tie of C12_persisted_text_roundtrip)",
                      {"list": l, "compact_sequence": tx.decode("ascii"), "correspondence": "Model/CodecText.v compact_text"},
                      found_input=impl_fails is not None)
    for i in [int(x) for x in re.findall(r"\d+", vals[1])][:2]:
        ctx.violation("expand_sequence does not read a text the way the proved codec reads it (tie of C12_persisted_text_roundtrip)",
                      {"text": ecases[i].decode("ascii"), "expand_sequence": eres[i] if eres[i] is not None else "raises",
                       "correspondence": "Model/CodecText.v expand_text"},
                      found_input=impl_fails is not None and i < len(ccases))


def observe(w, sess="P"):
    """everything a client can see, through real commands"""
    obs = {"list": {}, "lsub": [], "boxes": {}}
    for ch in w.cmd(sess, 'o LIST "" "*"'):
        m = re.match(rb'^\* LIST \(([^)]*)\) "/" (.*)\r\n$', ch)
        if m:
            name = m.group(2).decode("latin-1").strip('"')
            attrs = sorted(a for a in m.group(1).decode().split() if a not in ("\\Marked", "\\Unmarked"))
            obs["list"][name] = attrs
    for ch in w.cmd(sess, 'o LSUB "" "*"'):
        m = re.match(rb'^\* LSUB \(([^)]*)\) "/" (.*)\r\n$', ch)
        if m:
            obs["lsub"].append(m.group(2).decode("latin-1").strip('"'))
    obs["lsub"].sort()
    for name, attrs in sorted(obs["list"].items()):
        if "\\Noselect" in attrs:
            continue
        q = '"%s"' % name
        st = b"".join(w.cmd(sess, f"o STATUS {q} (MESSAGES UIDNEXT UIDVALIDITY UNSEEN)"))
        m = re.search(rb"\(MESSAGES (\d+) UIDNEXT (\d+) UIDVALIDITY (\d+) UNSEEN (\d+)\)", st)
        box = {"status": [int(x) for x in m.groups()] if m else repr(st)}
        out = w.cmd(sess, f"o EXAMINE {q}")
        if out and out[-1].startswith(b"o OK"):
            msgs = []
            for ch in w.cmd(sess, "o UID FETCH 1:* (FLAGS INTERNALDATE)"):
                m2 = re.match(rb'^\* (\d+) FETCH \(FLAGS \(([^)]*)\) INTERNALDATE "([^"]+)" UID (\d+)\)\r\n$', ch)
                if m2:
                    fl = sorted(f for f in m2.group(2).decode("latin-1").split() if f != "\\Recent")
                    msgs.append([int(m2.group(1)), int(m2.group(4)), fl, m2.group(3).decode()])
            box["msgs"] = msgs
            w.cmd(sess, "o UNSELECT")
        else:
            box["examine"] = repr(out[-1:] if out else out)
        obs["boxes"][name] = box
    return obs


def same(a, b):
    """b may list re-created SPECIAL-USE mailboxes that a lacks"""
    diffs = []
    for name in set(a["list"]) | set(b["list"]):
        if name not in a["list"] and name in SPECIAL:
            continue
        if a["list"].get(name) != b["list"].get(name):
            diffs.append(f"LIST {name}: {a['list'].get(name)} -> {b['list'].get(name)}")
    if a["lsub"] != b["lsub"]:
        diffs.append(f"LSUB: {a['lsub']} -> {b['lsub']}")
    for name in a["boxes"]:
        if a["boxes"][name] != b["boxes"].get(name):
            diffs.append(f"{name}: {a['boxes'][name]} -> {b['boxes'].get(name)}")
    return diffs


def namespace_ops(w, rng, sess="P"):
    script = []
    names = ["aa", "aa/bb", "aa/bb/cc", "dd", "e e"]

    def q(n):
        return '"%s"' % n

    deep = 0
    for _ in range(rng.randint(3, 9)):
        k = rng.choice(["create", "create", "append", "append", "subscribe", "unsubscribe", "delete", "rename", "store",
                        "deepcreate", "renameinbox", "recreate"])
        n = rng.choice(names)
        if k == "deepcreate":
            # all superior levels are missing
            deep += 1
            n = f"top{rng.randint(1, 99)}x{deep}/mid/leaf"
            names.append(n)
            cmd = f"n CREATE {q(n)}"
        elif k == "renameinbox":
            # RENAME INBOX moves the messages away and leaves an empty inbox: what arrives afterwards starts afresh
            w.cmd(sess, "n SELECT inbox")
            w.cmd(sess, "n STORE 1:* +FLAGS (\\Flagged kw1)")
            w.cmd(sess, "n UNSELECT")
            w.cmd(sess, f"n RENAME inbox {q('was' + str(rng.randint(1, 999)))}")
            lit = W.make_msg(rng.randint(100, 999))
            w.cmd(sess, f"n APPEND inbox {{{len(lit)}}}\r\n" + lit.decode())
            cmd = f"n APPEND inbox (\\Seen) {{{len(lit)}}}\r\n" + lit.decode()
        elif k == "recreate":
            # a mailbox with an inferior is deleted (it stays as a placeholder) and created again: new messages start afresh
            w.cmd(sess, "n CREATE pp/kid")
            lit = W.make_msg(rng.randint(100, 999))
            w.cmd(sess, f"n APPEND pp (\\Flagged kw2 \\Answered) {{{len(lit)}}}\r\n" + lit.decode())
            w.cmd(sess, "n DELETE pp")
            w.cmd(sess, "n CREATE pp")
            cmd = f"n APPEND pp {{{len(lit)}}}\r\n" + lit.decode()
        elif k == "create":
            cmd = f"n CREATE {q(n)}"
        elif k == "append":
            lit = W.make_msg(rng.randint(100, 999))
            fl = rng.choice(["", "(\\Seen)", "(kw1 \\Flagged)", "(\\Deleted)"])
            cmd = f"n APPEND {q(n)} {fl} {{{len(lit)}}}\r\n" + lit.decode()
        elif k == "subscribe":
            cmd = f"n SUBSCRIBE {q(n)}"
        elif k == "unsubscribe":
            cmd = f"n UNSUBSCRIBE {q(n)}"
        elif k == "delete":
            cmd = f"n DELETE {q(n)}"
        elif k == "rename":
            cmd = f"n RENAME {q(n)} {q(rng.choice(['rr', 'aa/rr', 'dd/zz']))}"
        else:
            w.cmd(sess, f"n SELECT {q(n)}")
            w.cmd(sess, "n STORE 1:* +FLAGS (\\Answered kw2)")
            w.cmd(sess, "n STORE 1 +FLAGS (\\Deleted)")
            w.cmd(sess, "n EXPUNGE")
            cmd = "n UNSELECT"
        try:
            out = w.cmd(sess, cmd)
        except Exception as e:  # an unhandled exception of a namespace command is C06/C17's business, not C12's
            out = [b"<exception " + type(e).__name__.encode() + b">"]
            w.drain(sess)
        script.append([cmd.split("\r\n")[0][:60], (out[-1][:40].decode("latin-1") if out else "")])
    return script


def _restart_case(seed):
    """one history with two observe/restart/observe rounds; returns (counted cases, violations, restarts)"""
    import random
    import traceback

    rng = random.Random(seed)
    counted, viols, restarts = [], [], 0
    h = mboxx.History(rng, nsess=2, mix={"restart": 0, "expunge": 10, "append": 9, "store": 9, "deliver": 5, "poll": 4},
                      pack=(4, 4, 5))
    w = W.World(seed=seed, pack_limits=(4, 0.8))
    try:
        h.run(w, rng.randint(5, 30))
        for i in range(1, h.nsess + 1):
            if w.handler(mboxx.SESS[i]).idling:
                w.cmd(mboxx.SESS[i], "DONE")
        w.session("P")
        scripts = []
        for rnd in range(2):
            scripts.append(namespace_ops(w, rng))
            if rng.random() < 0.5:
                w.deliver("inbox", rng.choice([1, 2]), unseen=rng.random() < 0.7)
            if rng.random() < 0.5:
                # the message with the highest UID goes away right before the shutdown: UIDNEXT is then more than the last
                # UID + 1, the one thing about a mailbox that cannot be recomputed from its messages
                box = rng.choice(["inbox", "work"])
                w.cmd("P", f"p SELECT {box}")
                w.cmd("P", "p STORE * +FLAGS.SILENT (\\Deleted)")
                w.cmd("P", "p EXPUNGE")
                w.cmd("P", "p UNSELECT")
                scripts[-1].append(f"SELECT {box}; STORE * +FLAGS.SILENT (\\Deleted); EXPUNGE; UNSELECT")
            before = observe(w)
            names = list(w.sessions)
            w.restart()
            # what IMAPUserServer.run() does before it serves anybody: find the folders on disk, look at each of them
            w.run(w.server.find_all_folders())
            w.server.initial_folder_scan = True      # as user_server_management_task does: the first scan looks at every folder
            w.run(w.server.check_all_folders())
            w.server.initial_folder_scan = False
            for nm in names:
                w.session(nm)
            after = observe(w)
            restarts += 1
            d = same(before, after)
            nontrivial = any("\\Noselect" in a for a in before["list"].values()) or len(before["boxes"]) > 3
            counted.append(({"seed": seed, "round": rnd, "mailboxes": sorted(before["list"]),
                             "namespace_script": scripts[-1][:6]}, nontrivial))
            if d:
                viols.append(("an orderly restart changed what a client can see: " + d[0],
                              {"seed": seed, "history_ops": [repr(o) for o in h.ops], "namespace_scripts": scripts,
                               "differences": d[:10], "before": before, "after": after}))
                break
            for i in range(1, h.nsess + 1):
                h.idle[i] = False
                h.selected[i] = None
                h.gated[i] = 0
            for _ in range(rng.randint(2, 8)):
                op = h.choose()
                if op[0] == "restart":
                    continue
                obs = h._run(w, op, mboxx.SESS.get(op[1]) if len(op) > 1 and isinstance(op[1], int) else None)
                h.ops.append(op)
                h.obs.append(obs)
                h.snaps.append((None, h.snapshot(w)))
                h.note(w, op, obs)
            for i in range(1, h.nsess + 1):
                if w.handler(mboxx.SESS[i]).idling:
                    w.cmd(mboxx.SESS[i], "DONE")
    except Exception:
        viols.append(("the implementation raised around a restart",
                      {"seed": seed, "ops": [repr(o) for o in h.ops], "error": traceback.format_exc()[-1500:]}))
    finally:
        w.close()
    return counted, viols, restarts


def _pack_case(seed):
    """a folder is PACKED (message files renumbered; count, last UID and UIDNEXT all unchanged) and nothing arrives or leaves
    afterwards - at most flags change - before the orderly shutdown: the renumbering itself must have been persisted"""
    import random
    import traceback

    rng = random.Random(seed)
    counted, viols = [], []
    w = W.World(seed=seed, pack_limits=(4, 0.8))
    try:
        w.session("P")
        w.cmd("P", "p STATUS inbox (MESSAGES)")      # the server registers INBOX at its first activation (DESIGN 10.5)
        box = rng.choice(["inbox", "work"])
        w.cmd("P", "p CREATE work")
        total = rng.randint(7, 12)
        w.deliver(box, total, unseen=True)
        w.cmd("P", f"p SELECT {box}")
        drop = sorted(rng.sample(range(1, total), rng.randint(3, total - 4)))          # the last message stays
        w.cmd("P", "p STORE %s +FLAGS.SILENT (\\Deleted)" % ",".join(map(str, drop)))
        w.cmd("P", "p EXPUNGE")
        w.cmd("P", "p UNSELECT")
        for _ in range(3):
            w.settle(25)                                                                # the management task polls, and packs
        mb = w.server.active_mailboxes.get(box)
        packed = mb is not None and list(mb.msg_keys) == list(range(1, len(mb.msg_keys) + 1))
        if rng.random() < 0.6:
            w.cmd("P", f"p SELECT {box}")
            w.cmd("P", "p STORE 1 +FLAGS (\\Flagged kw1)")
            w.cmd("P", "p UNSELECT")
        before = observe(w)
        w.restart()
        w.run(w.server.find_all_folders())
        w.server.initial_folder_scan = True
        w.run(w.server.check_all_folders())
        w.server.initial_folder_scan = False
        w.session("P")
        after = observe(w)
        counted.append(({"pack_then_restart": box, "messages": total, "expunged": drop, "packed": packed, "seed": seed}, packed))
        d = same(before, after)
        if d:
            viols.append(("an orderly restart after a folder was packed changed what a client can see: " + d[0],
                          {"seed": seed, "mailbox": box, "delivered": total, "expunged_positions": drop, "packed": packed,
                           "differences": d[:10], "before": before, "after": after}))
    except Exception:
        viols.append(("the implementation raised around a restart after a pack", {"seed": seed, "error": traceback.format_exc()[-1500:]}))
    finally:
        w.close()
    return counted, viols, 1


def pack_level(ctx):
    import multiprocessing as mp

    n = 24 if ctx.thorough else 8
    seeds = [ctx.rng.randrange(1 << 30) for _ in range(n)]
    with mp.get_context("fork").Pool(min(core.NPROC, n)) as pool:
        results = pool.map(_pack_case, seeds, chunksize=1)
    packed = 0
    for counted, viols, _ in results:
        for case, nt in counted:
            packed += bool(nt)
            ctx.count(case, nontrivial=nt)
        for what, rep in viols[:1]:
            ctx.violation(what, rep)
    ctx.extra["pack_then_restart"] = {"cases": n, "packed": packed}


def restart_level(ctx):
    import multiprocessing as mp

    n = 64 if ctx.thorough else 16
    seeds = [ctx.rng.randrange(1 << 30) for _ in range(n)]
    with mp.get_context("fork").Pool(min(core.NPROC, n)) as pool:
        results = pool.map(_restart_case, seeds, chunksize=1)
    restarts = 0
    for counted, viols, r in results:
        restarts += r
        for case, nt in counted:
            ctx.count(case, nontrivial=nt)
        for what, rep in viols[:1]:
            ctx.violation(what, rep)
    ctx.extra["restarts_observed"] = restarts


def run(ctx):
    ctx.coverage["rule"] = ("codec: sorted lists of 0-30 integers with gaps through compact_sequence/expand_sequence; restarts: "
                            "generated message-level histories (packing at 4 messages) followed by random namespace scripts "
                            "(CREATE/DELETE/RENAME/SUBSCRIBE/APPEND/STORE/EXPUNGE over nested names), an optional delivery "
                            "pending at shutdown, then observe/restart/observe, twice per history; non-trivial = the observed "
                            "world had a \\Noselect placeholder or more than three mailboxes (codec: a list with runs and gaps); plus pack-then-restart: a sparse "
                            "folder is packed by the management task, at most flags change afterwards, then observe/restart/observe")
    ok = ctx.prove("Properties/C12.v")
    codec_level(ctx)
    text_level(ctx)
    restart_level(ctx)
    pack_level(ctx)
    ctx.assume += ["\\Recent is excluded from the comparison, missing SPECIAL-USE mailboxes may be re-created (property text)",
                   "the persisted text is modelled on bytes (Model/CodecText.v); int() is modelled on ASCII digit strings, the "
                   "malformed stream stays inside the alphabet {0-9 , -} plus blank strings; the 4300-digit limit of str/int is not modelled"]


def replay(ctx, path):
    print(json.dumps(json.load(open(path)), indent=1)[:6000])
    return 0
