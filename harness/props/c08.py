"""C08 — command parsing is total and means what RFC 3501 says.

Proof:  coq/Properties/C08.v — theorems about Model/ParseM.v (the parser of asimap/parse.py as a Gallina
        function, scanners in Model/Lex.v) against Spec/Grammar.v (RFC 3501 + the advertised extensions as
        a printer with free choices): completeness for every command and every choice, totality (no crash,
        no exhausted fuel), soundness (what is accepted is well-formed and is parsed again from its
        canonical sentence), witnesses of the two known findings.
Tie:    pins — the regular expression source texts, uid_commands, the set of _p_srchkey_* methods and of
        IMAPCommand members of asimap/parse.py are compared with the texts the model was written against;
        str.lower() on latin-1, os.path.normpath and int()'s digit limit are compared with their models.
        X — (i) grammar-directed sentences (all commands, UID forms, nested search keys, sections and
        partials, literals and literal+, LIST-EXTENDED, ID) parsed by the REAL IMAPClientCommand; the
        object's attributes are converted to the AST and compared with the generator's AST (Python) and with
        the model's parse of the same bytes (inside Coq, vm_compute); the Python printer is pinned to the
        Coq `render` on the canonical choices.  (ii) mutations / truncations of such sentences, sentences
        that break exactly one well-formedness condition, token soup and raw random bytes: the real outcome
        {parsed + AST + unread rest, BadCommand, other exception, hang > 1 s} must be the model's; other
        exception / hang is a violation by itself.  (iii) the real IMAPClientProxy.run on a real
        asyncio.StreamReader: an unparsable command gets exactly one BAD line and the next command on the
        same connection is answered.
Findings: C08-trailing-text, C08-datetime-2digit-year are reported as KNOWN-FINDING when listed in
        known_findings.json (after their witnesses have been replayed on the implementation), as VIOLATION
        otherwise.
"""
from __future__ import annotations

import asyncio
import json
import re
import signal

import core
import parsex as X

HEADER = ("From Asimap Require Import Base.Res Model.Lex Spec.Grammar Model.ParseM Model.ParseCmp.\n"
          "Open Scope Z_scope.\n")

PER_FILE = 250


# ------------------------------------------------------------------ the real parser
class Hang(BaseException):
    pass


def _alarm(signum, frame):
    raise Hang()


def real_parse(data: bytes):
    """-> ("parsed", ast, rest) | ("bad", text) | ("other", repr) | ("hang",) | ("unconvertible", why)"""
    import asimap.parse as P

    # the APPEND literal is handed to email.message_from_string (message_from_bytes after the C16 fix):
    # capture it there, whichever of the two names the module uses
    captured = []
    origs = {}

    def mk(orig):
        def cap(s, *a, **k):
            captured.append(s.decode("latin-1") if isinstance(s, (bytes, bytearray)) else s)
            return orig(s, *a, **k)
        return cap

    for nm in ("message_from_string", "message_from_bytes"):
        if hasattr(P, nm):
            origs[nm] = getattr(P, nm)
            setattr(P, nm, mk(origs[nm]))
    old = signal.signal(signal.SIGALRM, _alarm)
    try:
        c = P.IMAPClientCommand(data.decode("latin-1"))
        signal.setitimer(signal.ITIMER_REAL, 1.0)
        try:
            c.parse()
        finally:
            signal.setitimer(signal.ITIMER_REAL, 0)
        try:
            # attributes outside the AST of Spec/Grammar.v are handed on as a 4th element
            extras = {"list_reference": getattr(c, "list_reference", None)}
            return ("parsed", X.obj_to_ast(c, captured[-1] if captured else None), c.input.encode("latin-1"), extras)
        except X.Unconvertible as e:
            return ("unconvertible", str(e))
    except P.BadCommand as e:
        return ("bad", str(e))
    except Hang:
        return ("hang",)
    except Exception as e:  # noqa: BLE001 - any other exception is the point
        return ("other", repr(e)[:300])
    finally:
        signal.signal(signal.SIGALRM, old)
        for nm, o in origs.items():
            setattr(P, nm, o)


def observed_term(o) -> str:
    if o[0] == "parsed":
        return f"(OParsed {X.coq_ast(o[1])} {X.cb(o[2])})"
    if o[0] == "bad":
        return "OBad"
    if o[0] == "hang":
        return "OHang"
    return "OOther"


def _indices(val: str):
    return [int(x) for x in re.findall(r"\d+", val)]


def coq_agree(ctx, name, cases, per_file=PER_FILE):
    """cases: [(bytes, observed)] -> indices where the model's parse_core differs from the observation"""
    chunks = [cases[i:i + per_file] for i in range(0, len(cases), per_file)]
    texts = []
    for ch in chunks:
        t = HEADER + "Definition cases : list (list Z * observed) := " + X.cl(
            [f"({X.cb(s)}, {observed_term(o)})" for s, o in ch]) + ".\nEval vm_compute in (mismatches 0 cases).\n"
        texts.append(t)
    outs = ctx.coq.eval_many(name, texts)
    bad = []
    for k, out in enumerate(outs):
        vals = core.parse_coq_values(out)
        bad += [k * per_file + i for i in _indices(vals[0])]
    return bad


def coq_roundtrip(ctx, name, cases):
    """cases: [(ast, sentence, canonical_sentence)] ->
       (indices where the model does not parse the sentence back to the AST,
        indices where Coq's `render a canon` is not the Python printer's canonical sentence)"""
    chunks = [cases[i:i + PER_FILE] for i in range(0, len(cases), PER_FILE)]
    texts = []
    for ch in chunks:
        t = HEADER
        t += "Definition cases : list (ast * list Z) := " + X.cl(
            [f"({X.coq_ast(a)}, {X.cb(s)})" for a, s, _ in ch]) + ".\n"
        t += "Definition canons : list (ast * list Z) := " + X.cl(
            [f"({X.coq_ast(a)}, {X.cb(c)})" for a, _, c in ch]) + ".\n"
        t += "Eval vm_compute in (rt_mismatches 0 cases).\nEval vm_compute in (render_mismatches 0 canons).\n"
        texts.append(t)
    outs = ctx.coq.eval_many(name, texts)
    bad_rt, bad_render = [], []
    for k, out in enumerate(outs):
        vals = core.parse_coq_values(out)
        bad_rt += [k * PER_FILE + i for i in _indices(vals[0])]
        bad_render += [k * PER_FILE + i for i in _indices(vals[1])]
    return bad_rt, bad_render


def show(b: bytes) -> str:
    return repr(b)[2:-1] if len(b) < 600 else repr(b[:300])[2:-1] + f"...<{len(b)} octets>"


# ------------------------------------------------------------------ findings
TRAILING = "C08-trailing-text"
YEAR2 = "C08-datetime-2digit-year"


def is_listed(ctx, fid):
    return any(f.get("id") == fid for f in ctx.findings())


def finding(ctx, fid, what, replay):
    """a reproduced defect that is a known finding when listed in known_findings.json, a violation otherwise"""
    if is_listed(ctx, fid):
        if not any(k["id"] == fid for k in ctx.known_hit):
            ctx.known_finding(fid, what)
    elif not any(fid in v["what"] for v in ctx.violations):
        ctx.violation(what + f" (proposed known finding {fid}, not listed in known_findings.json)", replay)


# ------------------------------------------------------------------ corpus: witnesses of the defects
def corpus(ctx):
    A = lambda tag, c: ("ast", tag, c)  # noqa: E731
    deep = b"a SEARCH " + b"(" * 600 + b"ALL" + b")" * 600
    items = [
        # (input, expected: ("parsed", ast) | ("bad",), what)
        (b"a COPY 1 inboxes", ("parsed", A(b"a", ("copy", False, [1], b"inboxes"))), "INBOX is matched as a prefix"),
        (b'a SELECT "INBOX"', ("parsed", A(b"a", ("mbox", "select", b"inbox"))), "a quoted INBOX is not the inbox"),
        (b"a SELECT {5+}\r\niNbOx", ("parsed", A(b"a", ("mbox", "select", b"inbox"))), "a literal INBOX is not the inbox"),
        (b"a DELETE inbox/sub", ("parsed", A(b"a", ("mbox", "delete", b"inbox/sub"))), "inbox/sub"),
        (b'a SELECT "in\\"b\\\\ox"', ("parsed", A(b"a", ("mbox", "select", b'in"b\\ox'))),
         "quoted-string escapes are not decoded"),
        (b'a LOGIN "a\\\\b" "p\\"w"', ("parsed", A(b"a", ("login", b"a\\b", b'p"w'))), "quoted-string escapes are not decoded"),
        (b"a SEARCH BEFORE 31-Feb-2020", ("bad",), "an impossible date raises ValueError"),
        (b"a SEARCH ON 1-Jan-0000", ("bad",), "year 0 raises ValueError"),
        (b'a APPEND x "31-Feb-2020 10:00:00 +0000" {1}\r\na', ("bad",), "an impossible date-time raises ValueError"),
        (b'a APPEND x "01-Jan-2020 10:00:00 +2400" {1}\r\na', ("bad",), "a zone of 24 h raises ValueError"),
        (b'a APPEND x "01-Jan-2020 24:00:00 +0000" {1}\r\na', ("bad",), "hour 24 raises ValueError"),
        (b"a FETCH 1 BODY[]<" + b"9" * 4301 + b".1>", ("bad",), "a number of more than 4300 digits raises ValueError"),
        (b"a FETCH " + b"1" * 4301 + b" FLAGS", ("bad",), "a number of more than 4300 digits raises ValueError"),
        (deep, ("bad",), "deeply nested search keys raise RecursionError"),
        (b"a SEARCH " + b"NOT " * 600 + b"ALL", ("bad",), "deeply nested search keys raise RecursionError"),
        (b"a SEARCH " + b"OR ALL " * 600 + b"ALL", ("bad",), "deeply nested search keys raise RecursionError"),
        (b"a STORE 1 +FLAGS \\Seen \\Deleted",
         ("parsed", A(b"a", ("store", False, [1], "add", False, [b"\\Seen", b"\\Deleted"]))),
         "STORE with several flags without parentheses keeps only the first"),
        (b"a SEARCH UNDRAFT", ("parsed", A(b"a", ("search", False, b"us-ascii", [("not", ("keyword", b"\\Draft"))]))),
         "SEARCH UNDRAFT is refused"),
        (b"a UID SEARCH " + b"(" * 32 + b"ALL" + b")" * 32,
         ("parsed", A(b"a", ("search", True, b"us-ascii", [("all",)]))), "32 levels of nesting are accepted"),
    ]
    for data, exp, what in items:
        got = real_parse(data)
        ctx.count({"corpus": show(data)[:80]}, nontrivial=True)
        if exp[0] == "bad":
            if got[0] != "bad":
                ctx.violation(f"{what}: the command is not answered BAD", {"input": show(data), "observed": repr(got)[:400]})
        else:
            if got[0] != "parsed" or got[1] != exp[1] or got[2] not in (b"", b"\r\n"):
                ctx.violation(f"{what}", {"input": show(data), "expected": repr(exp[1]), "observed": repr(got)[:600]})
    # the two proposed known findings
    for data in (b"a NOOP trailing junk", b"a FETCH 1 ALLX", b"a EXPUNGE 1", b"a ID NILx", b"a SEARCH LARGER 10x"):
        got = real_parse(data)
        if got[0] == "parsed" and got[2] not in (b"", b"\r\n"):
            finding(ctx, TRAILING, "text after a complete command is ignored: " + show(data) + " is accepted",
                    {"input": show(data), "unread": show(got[2]), "parsed_as": repr(got[1])})
    data = b'a APPEND x "01-Jan-0050 00:00:00 +0000" {1}\r\na'
    got = real_parse(data)
    if got[0] == "parsed" and got[1][2][3] is not None and got[1][2][3][0] != 50:
        finding(ctx, YEAR2, f"APPEND date-time year 0050 is stored as {got[1][2][3][0]}",
                {"input": show(data), "date_time": repr(got[1][2][3])})
    return [(d, real_parse(d)) for d, _, _ in items]


# ------------------------------------------------------------------ (i) grammar-directed sentences
def grammar_directed(ctx, n):
    g = X.Gen(ctx.rng)
    cases = []
    obs = []
    dist = {}
    seen_forms = {"literal": 0, "literal+": 0, "quoted": 0, "uid": 0, "nested_search": 0, "section": 0}
    for i in range(n):
        kind = X.KINDS[i % len(X.KINDS)] if i < 4 * len(X.KINDS) else None
        a = g.ast(kind)
        chooser = X.Rand(ctx.rng)
        s = X.render(a, chooser)
        canon = X.render(a, X.Canon())
        dist[a[2][0]] = dist.get(a[2][0], 0) + 1
        seen_forms["literal+"] += b"+}\r\n" in s
        seen_forms["literal"] += b"}\r\n" in s
        seen_forms["quoted"] += b'"' in s
        seen_forms["uid"] += a[2][0] == "uidexpunge" or (len(a[2]) > 1 and a[2][1] is True and a[2][0] in (
            "search", "fetch", "store", "copy", "move"))
        if a[2][0] == "search":
            seen_forms["nested_search"] += max(X.skey_depth(k) for k in a[2][3]) >= 2
        if a[2][0] == "fetch":
            seen_forms["section"] += any(x[0] == "body" for x in a[2][3])
        got = real_parse(s)
        ctx.count({"sentence": show(s)[:200]}, nontrivial=a[2][0] not in ("noarg", "expunge"))
        if got[0] in ("other", "hang", "unconvertible"):
            ctx.violation(f"a sentence of the grammar makes the parser fail with {got[0]}",
                          {"input": show(s), "observed": repr(got)[:500], "ast": repr(a)})
        elif got[0] == "bad":
            ctx.violation("a sentence of the grammar is refused", {"input": show(s), "reason": got[1], "ast": repr(a)})
        elif got[1] != a or got[2] not in (b"", b"\r\n"):
            ctx.violation("the parsed command is not what the sentence denotes",
                          {"input": show(s), "expected": repr(a), "observed": repr(got[1]), "unread": show(got[2])})
        elif a[2][0] == "list" and got[3]["list_reference"] is not None:
            # list_reference (C17 fix) is not part of the AST: the reference with its trailing delimiter kept
            ref = a[2][3]
            txt = chooser.last_ref_text
            keep = (txt.endswith(b"/") or txt.endswith(b'/"')) and ref not in (b"", b"/")
            exp = (ref + b"/" if keep else ref).decode("latin-1")
            lr = got[3]["list_reference"]
            if keep and ref == b"inbox":
                # a level of hierarchy is not the name INBOX: its spelling is kept ("INBOX/" + "%" is the pattern "INBOX/%")
                ok_ref = lr.endswith("/") and lr[:-1].lower() == "inbox"
            else:
                ok_ref = lr == exp
            if not ok_ref:
                ctx.violation("LIST: list_reference is not the reference with its trailing delimiter",
                              {"input": show(s), "expected": exp, "observed": got[3]["list_reference"]})
        cases.append((a, s, canon))
        obs.append((s, got))
    bad_rt, bad_render = coq_roundtrip(ctx, "c08g", cases)
    for i in bad_rt[:3]:
        ctx.proof_broken.append({"what": "model: parse (sentence) is not the generator's AST",
                                 "input": show(cases[i][1]), "ast": repr(cases[i][0])})
    for i in bad_render[:3]:
        ctx.proof_broken.append({"what": "Spec/Grammar.v render differs from the harness printer on canonical choices",
                                 "ast": repr(cases[i][0]), "python": show(cases[i][2])})
    bad = coq_agree(ctx, "c08a", [(s, o) for s, o in obs if o[0] != "unconvertible"])
    real_ok = [(s, o) for s, o in obs if o[0] != "unconvertible"]
    for i in bad[:3]:
        s, o = real_ok[i]
        ctx.violation("model (proved) and implementation disagree on a sentence of the grammar",
                      {"input": show(s), "implementation": repr(o)[:600]})
    ctx.extra["grammar_directed"] = {"sentences": n, "by_command": dist, "features": seen_forms}
    return [c[1] for c in cases]


# ------------------------------------------------------------------ (ii) mutations, truncations, noise
INTERESTING = [b" ", b"(", b")", b'"', b"\\", b"{", b"}", b"[", b"]", b"<", b">", b".", b",", b":", b"*", b"%", b"+", b"-",
               b"\r", b"\n", b"\r\n", b"\x00", b"\x7f", b"\xe9", b"\xc9", b"0", b"9", b"{3}\r\n", b"{1+}\r\n", b"NIL", b"x"]
VOCAB = [b"a", b"UID", b"FETCH", b"STORE", b"SEARCH", b"LIST", b"APPEND", b"ID", b"STATUS", b"COPY", b"SELECT", b"inbox",
         b"INBOXES", b'"INBOX"', b"1", b"1:*", b"*", b"2,4:7", b"0", b"(", b")", b"()", b"(FLAGS)", b"FLAGS", b"+FLAGS",
         b"-FLAGS.SILENT", b"\\Seen", b"BODY[]", b"BODY.PEEK[1.2.MIME]<0.10>", b"BODY[HEADER.FIELDS (a b)]", b"ALL",
         b"FULL", b"FAST", b"RFC822.SIZE", b"NOT", b"OR", b"NEW", b"FROM", b"KEYWORD", b"BEFORE", b"1-Jan-2020",
         b'"31-Dec-1999"', b"30-Feb-2021", b'"01-Jan-2020 10:00:00 +0000"', b"LARGER", b"99", b"CHARSET", b"utf-8",
         b"RETURN", b"(SUBSCRIBED)", b"(STATUS (MESSAGES))", b"(RECURSIVEMATCH)", b"(CHILDREN)", b'""', b'"a b"',
         b'"q\\"uo\\\\te"', b"{3}\r\nabc", b"{0+}\r\n", b"%", b"NIL", b"(\"k\" \"v\")", b"UNDRAFT", b"HEADER", b"x/../y",
         b"MESSAGES", b"UIDNEXT", b"TEXT", b"SINCE", b"SMALLER", b"UNKEYWORD", b"$Label", b"noop", b"CHECK", b"EXPUNGE"]


def mutate(rng, s: bytes) -> bytes:
    k = rng.random()
    n = len(s)
    p = rng.randint(0, n)
    if k < 0.22:
        return s[:p]
    if k < 0.40:
        return s[:p] + rng.choice(INTERESTING) + s[p:]
    if k < 0.55 and n:
        p = rng.randrange(n)
        return s[:p] + s[p + 1:]
    if k < 0.70 and n:
        p = rng.randrange(n)
        return s[:p] + rng.choice(INTERESTING) + s[p + 1:]
    if k < 0.78:
        q = rng.randint(p, min(n, p + 8))
        return s[:q] + s[p:q] + s[q:]
    if k < 0.86:
        return s + rng.choice([b" ", b"  ", b" x", b"x", b")", b"\r\n\r\n", b"\n", b" \r\n", b"\t"])
    if k < 0.93:
        return s.swapcase()
    # change a literal count
    m = re.search(rb"\{(\d+)", s)
    if m:
        return s[:m.start(1)] + str(max(0, int(m.group(1)) + rng.choice([-1, 1, 5]))).encode() + s[m.end(1):]
    return s[:p] + bytes([rng.randint(0, 255)]) + s[p:]


def near_miss(rng, g):
    """a sentence printed from an AST that breaks exactly one well-formedness condition (the printer does not
    check them): the guards of the parser are exercised one at a time"""
    k = rng.randrange(16)
    tag = g.tag()
    if k == 0:
        c = ("list", False, (False, rng.random() < 0.5, True, False), g.mailbox(), b"*", [], (False,) * 4, [])
    elif k == 1:
        c = ("list", False, (False,) * 4, g.mailbox(), b"%", [], (False, False, True, False), [])
    elif k == 2:
        c = ("fetch", False, g.sset(), [("body", rng.random() < 0.5, ([], "mime"), None)])
    elif k == 3:
        c = ("fetch", True, g.sset(), [("body", False, ([1], ("fields", rng.random() < 0.5, [])), None)])
    elif k == 4:
        c = ("search", False, b"us-ascii", [("and", [g.skey(1)])])
    elif k == 5:
        key = ("all",)
        for _ in range(rng.choice([31, 32, 33, 34, 40])):
            key = rng.choice([("not", key), ("or", key, ("all",)), ("and", [key, ("all",)])])
        c = ("search", False, b"us-ascii", [key])
    elif k == 6:
        y, m, d = g.date()
        c = ("search", False, b"us-ascii", [("date", rng.choice(X.SDATES), (rng.choice([y, 0]), m, rng.choice([d, 0, 29, 30, 31, 32, 99])))])
    elif k == 7:
        y, m, d, h, mi, sec, off = g.date_time()
        t = rng.choice([(y, m, d, 24, mi, sec, off), (y, m, d, h, 60, sec, off), (y, m, d, h, mi, 60, off),
                        (y, m, 31, h, mi, sec, off), (rng.randint(0, 99), m, d, h, mi, sec, off),
                        (y, m, d, h, mi, sec, 86400), (y, m, d, h, mi, sec, -86400 + 60)])
        c = ("append", g.mailbox(), [], t, b"x")
    elif k == 8:
        c = ("store", False, g.sset(), "add", False, [])
        return tag + b" STORE 1 +FLAGS "
    elif k == 9:
        kk = g.anystr()
        c = ("id", [(kk, b"1"), (g.anystr(), None), (kk, b"2")])
    elif k == 10:
        raw = rng.choice([b"a//b", b"INBOX/", b"./x", b"a/../b", b"//x", b"///x", b"x/.", b"Inbox/.", b"..", b"../..", b"a/b/../.."])
        return tag + b" SELECT " + X.r_astring(rng.choice([0, 1, 2, 3]), raw)
    elif k == 11:
        c = ("search", False, b"UTF-8", [("header", b"X-Mixed", b"CaSe \xc9"), ("body", b"UPPER")])
    elif k == 12:
        return b"a+b NOOP"
    elif k == 13:
        c = ("search", False, b"us-ascii", [("keyword", rng.choice([b"\\Seen", b"a b", b"", b"x(y"]))])
    elif k == 14:
        c = ("status", g.mailbox(), [])
        return X.render(("ast", tag, c), X.Rand(rng))[:-1] + rng.choice([b"BOGUS)", b"MESSAGES  RECENT)", b"messagesx)"])
    else:
        c = ("fetch", False, [0, (0, "*")], [("body", False, ([0, 0], None), (0, 0))])
    return X.render(("ast", tag, c), X.Rand(rng))


def mutations(ctx, sentences, n):
    rng = ctx.rng
    inputs = []
    kinds = {"mutated": 0, "twice": 0, "soup": 0, "random": 0, "near_miss": 0}
    g = X.Gen(rng)
    for i in range(n):
        x = rng.random()
        if x < 0.15:
            inputs.append(near_miss(rng, g))
            kinds["near_miss"] += 1
            continue
        x = (x - 0.15) / 0.85
        if x < 0.6:
            inputs.append(mutate(rng, rng.choice(sentences)))
            kinds["mutated"] += 1
        elif x < 0.75:
            inputs.append(mutate(rng, mutate(rng, rng.choice(sentences))))
            kinds["twice"] += 1
        elif x < 0.92:
            sep = b" " if rng.random() < 0.9 else b""
            inputs.append(sep.join(rng.choice(VOCAB) for _ in range(rng.randint(1, 8))))
            kinds["soup"] += 1
        else:
            inputs.append(bytes(rng.randint(0, 255) for _ in range(rng.randint(0, 24))))
            kinds["random"] += 1
    classes = {"parsed": 0, "parsed_with_text_left": 0, "bad": 0, "other": 0, "hang": 0, "unconvertible": 0}
    obs = []
    trailing = None
    for s in inputs:
        got = real_parse(s)
        classes[got[0]] += 1
        ctx.count({"input": show(s)[:200]}, nontrivial=got[0] != "bad" or len(s) > 8)
        if got[0] in ("other", "hang"):
            ctx.violation(f"the parser fails with {'an exception other than BadCommand' if got[0] == 'other' else 'a hang'}",
                          {"input": show(s), "observed": repr(got)[:400]})
        elif got[0] == "unconvertible":
            ctx.violation("the parsed object has attributes outside the command AST", {"input": show(s), "why": got[1]})
        elif got[0] == "parsed" and got[2] not in (b"", b"\r\n"):
            classes["parsed_with_text_left"] += 1
            if trailing is None or len(s) < len(trailing[0]):
                trailing = (s, got)
        if got[0] != "unconvertible":
            obs.append((s, got))
    bad = coq_agree(ctx, "c08m", obs)
    for i in bad[:4]:
        s, o = obs[i]
        ctx.violation("model (proved) and implementation disagree on a malformed command",
                      {"input": show(s), "implementation": repr(o)[:600]})
    if trailing is not None:
        finding(ctx, TRAILING, "text after a complete command is ignored: " + show(trailing[0])[:80] + " is accepted",
                {"input": show(trailing[0]), "unread": show(trailing[1][2]), "parsed_as": repr(trailing[1][1])})
    ctx.extra["malformed_stream"] = {"inputs": len(inputs), "kinds": kinds, "outcome_classes": classes}
    ctx.coverage["traces_validated_against_impl"] = ctx.coverage.get("traces_validated_against_impl", 0) + len(obs) - len(bad)


# ------------------------------------------------------------------ pins
# the source texts the scanners of Model/Lex.v and the tables of Model/ParseM.v were written against
PINNED = {
    "_search_atom": r"[a-zA-Z]+",
    "_fetch_att_atom": r"[a-zA-Z82\.]+",
    "_number": r"\d+",
    "_msg_set_pair": r"^(\d+|\*):(\d+|\*)$",
    "_msg_set": r"[\d,:*]+",
    "_atom": r'[^\(\)\{\} \000-\037\177%\*"\\]+',
    "_fetch_att_macros": r"(all)|(full)|(fast)",
    "_list_atom": r'[^\(\)\{\} \000-\037\177"\\]+',
    "_plus_or_minus": r"[-\+]",
    "_tag": r'[^\+\(\)\{\} \000-\037\177%\*"\\]+',
    "_quoted": r'"(([^\015\012\\"]|\\["\\])*)"',
    "_lit_ref": r"\{(\d+)\+?\}\015\012",
    "_date_time": (r'"(?P<day>[ \d]\d)-(?P<month>(Jan)|(Feb)|(Mar)|(Apr)|(May)|(Jun)|(Jul)|(Aug)|(Sep)|(Oct)|(Nov)|(Dec))-'
                   r'(?P<year>\d\d\d\d) (?P<hour>\d\d):(?P<sec>\d\d):(?P<min>\d\d) (?P<tz_hr>[-+]\d\d)(?P<tz_min>\d\d)"'),
    "_date": (r'(")?(?P<day>\d?\d)-(?P<month>(Jan)|(Feb)|(Mar)|(Apr)|(May)|(Jun)|(Jul)|(Aug)|(Sep)|(Oct)|(Nov)|(Dec))-'
              r'(?P<year>\d\d\d\d)(?(1)")'),
}
PINNED_VALUES = {
    "uid_commands": ("copy", "fetch", "move", "search", "store", "expunge"),
    "MAX_SEARCH_KEY_DEPTH": 32,
}
SEARCH_KEYS = sorted(["all", "answered", "bcc", "before", "body", "cc", "deleted", "draft", "flagged", "from", "header",
                      "keyword", "larger", "new", "not", "old", "on", "or", "recent", "seen", "sentbefore", "senton",
                      "sentsince", "since", "smaller", "subject", "text", "to", "uid", "unanswered", "undeleted",
                      "undraft", "unflagged", "unkeyword", "unseen"])
COMMANDS = sorted(X.NOARG + X.MBOXCMD + ["append", "authenticate", "copy", "expunge", "fetch", "id", "list", "login", "lsub",
                                         "move", "rename", "search", "status", "store", "uid"])


def source_pins(ctx):
    """a changed regular expression / table is not yet a violation: it makes the tie suspect (the correspondence
    run that follows looks for an input on which the change shows)"""
    import asimap.parse as P

    diffs = []
    for name, text in PINNED.items():
        if getattr(P, name, None) != text:
            diffs.append({"pin": name, "model_written_for": text, "source_now": getattr(P, name, None)})
    for name, val in PINNED_VALUES.items():
        if getattr(P, name, None) != val:
            diffs.append({"pin": name, "model_written_for": repr(val), "source_now": repr(getattr(P, name, None))})
    keys = sorted(n[len("_p_srchkey_"):] for n in dir(P.IMAPClientCommand) if n.startswith("_p_srchkey_"))
    if keys != SEARCH_KEYS:
        diffs.append({"pin": "_p_srchkey_* methods", "only_in_source": sorted(set(keys) - set(SEARCH_KEYS)),
                      "only_in_model": sorted(set(SEARCH_KEYS) - set(keys))})
    cmds = sorted(str(c.value) for c in P.IMAPCommand)
    if cmds != COMMANDS:
        diffs.append({"pin": "IMAPCommand", "only_in_source": sorted(set(cmds) - set(COMMANDS)),
                      "only_in_model": sorted(set(COMMANDS) - set(cmds))})
    if P._date_re.flags & 2 == 0 or P._date_time_re.flags & 2 == 0 or P._fetch_att_macros_re.flags & 2 == 0:
        diffs.append({"pin": "re.IGNORECASE on _date_re/_date_time_re/_fetch_att_macros_re"})
    for d in diffs[:6]:
        ctx.proof_broken.append(dict(d, what="pin: asimap/parse.py no longer has the text the model mirrors"))
    ctx.extra["source_pins"] = {"checked": len(PINNED) + len(PINNED_VALUES) + 3, "differences": len(diffs)}


def pins(ctx):
    source_pins(ctx)
    out = ctx.coq.eval_cases("c08p", HEADER + "Eval vm_compute in lower_table.\n")
    tbl = _indices(core.parse_coq_values(out)[0])
    py = [ord(chr(i).lower()) for i in range(256)]
    if tbl != py:
        d = [i for i in range(256) if i >= len(tbl) or tbl[i] != py[i]]
        ctx.proof_broken.append({"what": "model of str.lower() on latin-1 differs from Python", "at": d[:10]})
    # os.path.normpath, int() limit: through parse on dedicated inputs
    rng = ctx.rng
    cases = []
    comps = [b"", b".", b"..", b"a", b"b", b"..a", b"a.", b"\x00", b"INBOX", b"inbox", b"x y"]
    for _ in range(120):
        name = b"/".join(rng.choice(comps) for _ in range(rng.randint(1, 6)))
        if rng.random() < 0.3:
            name = b"/" * rng.randint(1, 3) + name
        s = b"t SELECT " + X.r_string(rng.choice([1, 2, 3]), name)
        cases.append((s, real_parse(s)))
    big = []
    for n, lead in ((4300, b""), (4301, b""), (4300, b"00"), (4301, b"00")) if ctx.thorough else ((4300, b""), (4301, b"0")):
        s = b"t SEARCH LARGER " + lead + b"7" * (n - len(lead))
        big.append((s, real_parse(s)))
    bad = coq_agree(ctx, "c08n", cases)
    badbig = coq_agree(ctx, "c08b", big, per_file=1)
    bad += [len(cases) + i for i in badbig]
    cases += big
    for i in bad[:3]:
        ctx.proof_broken.append({"what": "model of os.path.normpath / int() differs from Python",
                                 "input": show(cases[i][0]), "implementation": repr(cases[i][1])[:300]})
    for s, o in cases:
        if o[0] in ("other", "hang"):
            ctx.violation("the parser fails with an exception other than BadCommand", {"input": show(s), "observed": repr(o)})
    ctx.extra["pins"] = {"lower_table": 256, "normpath_int_cases": len(cases)}


# ------------------------------------------------------------------ (iii) IMAPClientProxy.run
class _Writer:
    def __init__(self):
        self.data = bytearray()
        self.closed = False

    def write(self, d):
        self.data += d

    async def drain(self):
        pass

    def is_closing(self):
        return self.closed

    def close(self):
        self.closed = True

    async def wait_closed(self):
        pass


def proxy_run(ctx, bad_inputs):
    import world as W
    from asimap.user_server import IMAPClientProxy

    w = W.World()
    res = {"connections": 0, "answered_bad_and_usable": 0}
    try:
        for data in bad_inputs:
            reader = asyncio.StreamReader()
            writer = _Writer()
            proxy = IMAPClientProxy(w.server, "verif", 1, "127.0.0.1", 40000, reader, writer)
            task = w.loop.create_task(proxy.run())
            res["connections"] += 1

            def send(msg):
                reader.feed_data(b"{%d}\n" % len(msg) + msg)
                w.quiesce()
                out = bytes(writer.data)
                del writer.data[:]
                return out

            out1 = send(data)
            alive1 = not task.done() and not writer.closed
            out2 = send(b"zz9 NOOP") if alive1 else b""
            reader.feed_eof()
            w.quiesce()
            exc = None
            if task.done():
                try:
                    exc = task.exception()
                except asyncio.CancelledError:
                    exc = "cancelled"
            else:
                task.cancel()
                w.quiesce()
            lines = out1.split(b"\r\n")
            one_bad = (len(lines) == 2 and lines[1] == b"" and re.match(rb"^\S+ BAD ", lines[0]) is not None
                       and b"\r" not in lines[0] and b"\n" not in lines[0])
            usable = out2.startswith(b"zz9 OK")
            if one_bad and usable and exc is None:
                res["answered_bad_and_usable"] += 1
            else:
                what = []
                if not one_bad:
                    what.append("the answer is not exactly one BAD line")
                if not usable:
                    what.append("the next command on the same connection is not answered (connection dropped)")
                if exc is not None:
                    what.append(f"the connection task died with {exc!r}")
                ctx.violation("unparsable command through IMAPClientProxy.run: " + "; ".join(what),
                              {"input": show(data), "sent_for_it": show(out1), "sent_for_next_NOOP": show(out2),
                               "replay": "feed {len}\\n-framed input, then 'zz9 NOOP', to IMAPClientProxy.run"})
            ctx.count({"proxy": show(data)[:100]}, nontrivial=True)
    finally:
        w.close()
    ctx.extra["proxy_run"] = res


# ------------------------------------------------------------------ entry points
def run(ctx):
    import world  # noqa: F401  (puts core.REPO on sys.path before asimap is imported)

    ctx.coverage["rule"] = (
        "(i) sentences printed from random well-formed ASTs with independent random choices per token (keyword case, "
        "atom/quoted/literal/literal+, optional syntax, alternative spellings), every command kind at least 4 times; "
        "(ii) one or two mutations (truncate, insert/delete/replace an interesting byte, duplicate, append, swap case, "
        "change a literal count) of such sentences, sentences printed from ASTs that break exactly one well-formedness "
        "condition, token soup from a vocabulary, raw random bytes; (iii) unparsable "
        "commands through IMAPClientProxy.run. distinct = distinct input bytes; non-trivial = (i) the command has "
        "arguments, (ii) the input is parsed or longer than 8 octets")
    ok = ctx.prove("Properties/C08.v", extra_targets=["Model/ParseCmp.vo"])
    if not ok:
        try:
            ctx.coq.build(["Model/ParseCmp.vo"])
        except core.CoqError as e:
            ctx.proof_broken.append({"what": "model does not build", "log": e.log[-1500:]})
            return
    pins(ctx)
    corp = corpus(ctx)
    bad = coq_agree(ctx, "c08c", [(s, o) for s, o in corp if o[0] != "unconvertible"])
    for i in bad[:3]:
        ctx.violation("model (proved) and implementation disagree on a corpus input",
                      {"input": show(corp[i][0]), "implementation": repr(corp[i][1])[:400]})
    n1 = 6000 if ctx.thorough else 1000
    n2 = 12000 if ctx.thorough else 1500
    sentences = grammar_directed(ctx, n1)
    mutations(ctx, sentences, n2)
    # (iii): corpus rejects, generated rejects, and inputs whose error text would carry CR/LF
    rejects = [s for s, o in corp if o[0] != "parsed"][:8]
    rejects += [b"a STORE 1 {5}\r\nab\r\nc", b"a FETCH 1 BODY[\r\nX]", b"\r\n", b"a", b"a UID NOOP", b"+ bad tag",
                b"a LOGIN {3}\r\nab"]
    extra = []
    tries = 0
    while len(extra) < (40 if ctx.thorough else 10) and tries < 2000:
        tries += 1
        s = mutate(ctx.rng, ctx.rng.choice(sentences))
        if real_parse(s)[0] == "bad":
            extra.append(s)
    proxy_run(ctx, rejects + extra)
    ctx.trusted += [
        "Model/ParseM.v and Model/Lex.v are a hand-written mirror of asimap/parse.py (tied by the correspondence run, "
        "not generated); Python's re, str.lower, int(), os.path.normpath, datetime.date, "
        "email.utils.parsedate_to_datetime are modelled (Lex.v) and pinned by the correspondence inputs",
        "email.message_from_string is outside the model: the AST carries the literal text handed to it",
    ]
    ctx.assume += ["commands reach the parser as one latin-1 decoded string per complete command, literals included "
                   "(server.py framing, property C19)"]


def replay(ctx, path):
    import world  # noqa: F401

    r = json.load(open(path))
    print(json.dumps(r, indent=1)[:3000])
    s = r.get("input")
    if isinstance(s, str) and "...<" not in s:
        data = s.encode("latin-1").decode("unicode_escape").encode("latin-1")
        print("re-run on the implementation:", repr(real_parse(data))[:1500])
    return 0
