"""C16 — message data items are mutually consistent and faithful to what was stored.

Proof:  coq/Properties/C16.v — the data-item algebra over an oracle rendering (hdr, body):
        size = |BODY[]|, RFC822* = BODY[...], <o.n> is the slice, HEADER ++ TEXT = BODY[] iff the
        body is non-empty (refuted for the empty body), literal count = data length.
Tie:    X (a) the tails of FetchAtt.body and generator._msg_as_bytes/get_msg_size run on generated
              byte strings and partial ranges, the parser's RFC822* desugaring and <o.n> parsing —
              each compared with the Coq model inside Coq (vm_compute);
          (b) generated RFC 5322/MIME messages + the fixture corpus are APPENDed through a real
              session and fetched back: the oracle hypotheses are measured (header block ends in
              CRLF, full rendering = header block ++ body rendering), every equation of the
              property is evaluated on the real literals (cut out by their announced count by the
              strict parser harness/resptok.py), the literals are compared with the Coq model
              evaluated on (hdr, body), repeated fetches and a COPY are compared octet for octet,
              and APPEND fidelity is an oracle comparison against the message that was sent.
"""
from __future__ import annotations

import email
import email.policy
import json
import re
import traceback
from pathlib import Path

import core
from core import cbytes, clist, cz
import msgx
import resptok as R
import world as W

FID_EMPTY = "C16-D12-empty-body"

COQ_DEFS = """
From Asimap Require Import Base.Res Model.BodyAlg.
Open Scope Z_scope.
Fixpoint beq (a b : list Z) : bool :=
  match a, b with [] , [] => true | x :: a', y :: b' => (x =? y) && beq a' b' | _, _ => false end.
Fixpoint bad_from {A} (f : A -> bool) (i : nat) (cs : list A) : list nat :=
  match cs with [] => [] | c :: r => if f c then bad_from f (S i) r else i :: bad_from f (S i) r end.
Definition popt (p : Z * Z) : option (Z * Z) := if fst p <? 0 then None else Some p.
(* tail of FetchAtt.body: (section bytes, partial or (-1,0), observed output) *)
Definition chk_tail (c : list Z * (Z * Z) * list Z) : bool :=
  let '(d, p, o) := c in beq (literal (partial (popt p) (ensure_crlf d))) o.
(* tail of _msg_as_bytes and get_msg_size: (flattened bytes, observed bytes, observed size) *)
Definition chk_render (c : list Z * list Z * Z) : bool :=
  let '(d, o, n) := c in beq (ensure_crlf d) o && (Z.of_N (blen (ensure_crlf d)) =? n).
Definition hd_ (m : list Z * list Z) := fst m.
Definition bd_ (m : list Z * list Z) := snd m.
Definition sect_of (k : Z) : sect := if k =? 0 then SFull else if k =? 1 then SHeader else SText.
Definition item_of (k : Z) (p : Z * Z) : item :=
  if k <? 3 then IBody (sect_of k) (popt p)
  else if k =? 3 then IRfc822 else if k =? 4 then IRfc822Header else if k =? 5 then IRfc822Text else IRfc822Size.
(* one message: (hdr, body, [(item code, partial, observed value octets)]) -> all items agree *)
Definition chk_msg (c : list Z * list Z * list (Z * (Z * Z) * list Z)) : bool :=
  let '(h, b, obs) := c in
  forallb (fun x => let '(k, p, o) := x in beq (fetch_item _ hd_ bd_ (item_of k p) (h, b)) o) obs.
(* parser desugaring: (item code, section code the parser produced) *)
Definition chk_desugar (c : Z * Z) : bool :=
  match desugar (item_of (fst c) (-1, 0)) with
  | Some (s, None) => beq [match s with SFull => 0 | SHeader => 1 | SText => 2 end] [snd c]
  | _ => false
  end.
"""


def bad_indices(out):
    vals = core.parse_coq_values(out)
    res = []
    for v in vals:
        body = v.strip()
        res.append([int(x) for x in re.findall(r"\d+", body)] if body.strip("[] ") else [])
    return res


def c_pair(p):
    return f"({cz(p[0])}, {cz(p[1])})" if p is not None else "(-1, 0)"


# ------------------------------------------------------------------------------ (a) function level
def gen_bytes(rng):
    k = rng.random()
    fixed = [b"", b"\r\n", b"\r", b"\n", b"a", b"a\r\n", b"\r\n\r\n", b"a\r", b"a\n", b"\n\r", b"ab", b"a\r\n\r",
             b"\r\r\n", b"x\n\r\n", b"{3}\r\nabc", b"\x00\xff\r\n"]
    if k < 0.25:
        return rng.choice(fixed)
    alpha = [b"a", b"b", b"\r", b"\n", b"\r\n", b"\x80", b"\xe9", b" ", b"{", b"}", b"\x00", b"line\r\n"]
    return b"".join(rng.choice(alpha) for _ in range(rng.choice([1, 2, 3, 5, 8, 13, 40])))


def gen_partial(rng, ln):
    if rng.random() < 0.3:
        return None
    big = [10 ** 6, 2 ** 31, 2 ** 32 - 1, 2 ** 64]
    o = rng.choice([0, 0, 1, 2, 3, max(ln - 2, 0), max(ln - 1, 0), ln, ln + 1, ln + 2, rng.choice(big)])
    n = rng.choice([0, 1, 2, 3, 5, max(ln - o, 0), max(ln - o, 0) + 1, ln, ln + 7, rng.choice(big)])
    return (o, n)


def function_level(ctx):
    import asimap.generator as G
    from asimap.fetch import FetchAtt, FetchOp
    from asimap.parse import IMAPClientCommand

    rng = ctx.rng
    n = 1500 if ctx.thorough else 320
    tails, renders, render_errors = [], [], []
    dist = {"partial": 0, "whole": 0, "empty": 0, "ends_crlf": 0}
    orig_flatten = G.ASBytesGenerator.flatten
    try:
        for _ in range(n):
            d = gen_bytes(rng)
            p = gen_partial(rng, len(d) + 2)
            fa = FetchAtt(FetchOp.BODY, section=[], partial=p)
            fa._body = lambda msg, section, _d=d: _d  # the generator is the oracle: feed its output directly
            out = fa.body(None, [])
            tails.append((d, p, out))
            dist["partial" if p else "whole"] += 1
            dist["empty"] += d == b""
            dist["ends_crlf"] += d.endswith(b"\r\n")
            ctx.count({"tail": d.hex(), "p": p}, nontrivial=True)

            def fake(self, msg, *a, _d=d, **k):
                self._fp.write(_d)

            G.ASBytesGenerator.flatten = fake
            try:
                rb = G.msg_as_bytes(None)
                sz = G.get_msg_size(None)
                renders.append((d, rb, sz))
            except Exception as e:  # the functions no longer are "flatten, then terminate, then measure"
                render_errors.append(repr(e)[:200])
            finally:
                G.ASBytesGenerator.flatten = orig_flatten
    finally:
        G.ASBytesGenerator.flatten = orig_flatten
    if render_errors:
        ctx.proof_broken.append({"what": "tie: msg_as_bytes/get_msg_size are no longer a termination step over one "
                                         "ASBytesGenerator.flatten (the function-level comparison could not run)",
                                 "errors": render_errors[:3]})
    # the parser: RFC822* desugaring and <o.n>
    desugar = []
    sect_code = {(): 0, ("header",): 1, ("text",): 2}
    for code, name in ((3, "RFC822"), (4, "RFC822.HEADER"), (5, "RFC822.TEXT"), (0, "BODY[]"), (1, "BODY.PEEK[HEADER]"),
                       (2, "BODY[TEXT]")):
        cmd = IMAPClientCommand(f"t FETCH 1 ({name})")
        cmd.parse()
        fa = cmd.fetch_atts[0]
        sc = sect_code.get(tuple(str(x).lower() for x in (fa.section or [])), 9)
        if fa.attribute != FetchOp.BODY or fa.partial is not None:
            sc = 9
        desugar.append((code, sc))
    for _ in range(40):
        o, nn = rng.choice([0, 1, 7, 2 ** 32]), rng.choice([1, 2, 100, 2 ** 40])
        cmd = IMAPClientCommand(f"t FETCH 1 (BODY.PEEK[]<{o}.{nn}>)")
        cmd.parse()
        if cmd.fetch_atts[0].partial != (o, nn):
            ctx.violation("the parser read a partial range other than the one sent",
                          {"command": f"FETCH 1 (BODY.PEEK[]<{o}.{nn}>)", "parsed": repr(cmd.fetch_atts[0].partial)})
    texts = []
    for i in range(0, len(tails), 400):
        t = COQ_DEFS
        t += "Definition tails : list (list Z * (Z * Z) * list Z) := " + clist([f"({cbytes(d)}, {c_pair(p)}, {cbytes(o)})" for d, p, o in tails[i:i + 400]]) + ".\n"
        t += "Definition renders : list (list Z * list Z * Z) := " + clist([f"({cbytes(d)}, {cbytes(o)}, {cz(s)})" for d, o, s in renders[i:i + 400]]) + ".\n"
        t += "Definition desug : list (Z * Z) := " + clist([f"({cz(a)}, {cz(b)})" for a, b in desugar]) + ".\n"
        t += "Eval vm_compute in (bad_from chk_tail 0 tails).\nEval vm_compute in (bad_from chk_render 0 renders).\n"
        t += "Eval vm_compute in (bad_from chk_desugar 0 desug).\n"
        texts.append(t)
    outs = ctx.coq.eval_many("c16f", texts)
    for k, out in enumerate(outs):
        bt, br, bd = bad_indices(out)
        for i in bt[:3]:
            d, p, o = tails[k * 400 + i]
            ctx.violation("FetchAtt.body frames/slices/terminates other than the model "
                          "literal(partial(ensure_crlf(section)))",
                          {"section_bytes": repr(d), "partial": p, "observed": repr(o),
                           "replay": "FetchAtt(FetchOp.BODY, section=[], partial=p) with _body returning section_bytes"})
        for i in br[:3]:
            d, o, s = renders[k * 400 + i]
            ctx.violation("msg_as_bytes/get_msg_size differ from ensure_crlf(flattened) and its length",
                          {"flattened": repr(d), "msg_as_bytes": repr(o), "get_msg_size": s})
        if k == 0:
            for i in bd:
                ctx.violation("the parser desugars an RFC822* item to another section than the model",
                              {"item_code": desugar[i][0], "section_code": desugar[i][1]})
    ctx.extra["function_level"] = dict(dist, cases=len(tails), renders=len(renders), desugar=len(desugar))


# ------------------------------------------------------------------------------ (b) end to end
def fixtures():
    out = []
    root = core.REPO / "asimap" / "test" / "fixtures" / "mhdir"
    for p in sorted(root.glob("*/*"), key=lambda q: (q.parent.name, int(q.name) if q.name.isdigit() else 0)):
        if p.is_file() and p.name.isdigit():
            out.append((p.read_bytes(), ["fixture:" + p.parent.name + "/" + p.name]))
    return out


def raw_flatten(msg, render_headers):
    """what the email generator writes before asimap terminates it (mirrors _msg_as_bytes up to the
    termination step; its result is checked against the real msg_as_bytes through the model)"""
    from email.policy import HTTP
    from io import BytesIO

    import asimap.generator as G

    try:
        fp = BytesIO()
        G.ASBytesGenerator(fp, mangle_from_=False, render_headers=render_headers).flatten(msg)
    except UnicodeEncodeError:
        fp = BytesIO()
        G.ASBytesGenerator(fp, mangle_from_=False, render_headers=render_headers, policy=HTTP).flatten(msg)
    return fp.getvalue()


def norm_lines(b: bytes) -> bytes:
    return b.replace(b"\r\n", b"\n")


def unfold(v: str) -> str:
    return re.sub(r"\s+", " ", re.sub(r"\r?\n(?=[ \t])", "", v)).strip()


def header_fields(raw: bytes):
    """(name, unfolded value) list of the top-level header, by an independent RFC 5322 reading of
    the octets: header block = everything before the first empty line"""
    text = norm_lines(raw)
    if text.startswith(b"\n"):
        block = b""
    else:
        block = text.split(b"\n\n", 1)[0]
    fields = []
    for line in block.split(b"\n"):
        if not line:
            continue
        if line[:1] in b" \t" and fields:
            fields[-1][1] += b"\n" + line
        elif b":" in line:
            k, v = line.split(b":", 1)
            fields.append([k, v])
        else:
            fields.append([b"?", line])
    return [(k.decode("latin-1").strip().lower(), unfold(v.decode("latin-1"))) for k, v in fields]


def body_of(raw: bytes) -> bytes:
    text = norm_lines(raw)
    if text.startswith(b"\n"):
        return text[1:]
    parts = text.split(b"\n\n", 1)
    return parts[1] if len(parts) == 2 else b""


def decoded_view(raw: bytes):
    """structure + decoded leaf payloads, as a standard MIME reader sees the message"""
    m = email.message_from_bytes(raw, policy=email.policy.compat32)

    def walk(p):
        if p.is_multipart():
            return (p.get_content_type(), [walk(x) for x in p.get_payload()])
        pl = p.get_payload(decode=True)
        return (p.get_content_type(), norm_lines(pl or b"").rstrip(b"\n"))

    return walk(m)


def semantic_headers(raw: bytes):
    m = email.message_from_bytes(raw, policy=email.policy.default)
    out = []
    for k, v in m.items():
        try:
            out.append((k.lower(), unfold(str(v))))
        except Exception:
            out.append((k.lower(), "?"))
    return out


FID_BARE_LF = "C16-bare-lf-leak"
FID_DSN = "C16-delivery-status-rerendered"
FID_REFOLD = "C16-refold-splits-word"


def declared_multipart_without_parts(raw: bytes) -> bool:
    """some entity says multipart/* but has no body parts (the email package keeps its text as is)"""
    m = email.message_from_bytes(raw, policy=email.policy.compat32)
    return any(p.get_content_maintype() == "multipart" and not p.is_multipart() for p in m.walk())


def header_needs_raw_fallback(msg) -> bool:
    """some header cannot be folded by the SMTP policy (generator._write_headers then writes it raw)"""
    from email.policy import SMTP

    for part in msg.walk():
        for h, v in part.raw_items():
            try:
                SMTP.fold_binary(h, v)
            except (UnicodeEncodeError, UnicodeDecodeError):
                return True
    return False


def value_octets(chunk: bytes, n: int, name: bytes):
    """the octets after '* n FETCH (NAME ' up to the closing ')CRLF' of a single-item FETCH response"""
    pre = b"* %d FETCH (%s " % (n, name)
    if not (chunk.startswith(pre) and chunk.endswith(b")\r\n")):
        return None
    return chunk[len(pre):-3]


def end_to_end(ctx):
    rng = ctx.rng
    fnd = msgx.Findings(ctx)
    corpus = [(r, f) for r, f in msgx.WITNESSES] + fixtures()
    ngen = 900 if ctx.thorough else 44
    for i in range(ngen):
        corpus.append(msgx.gen_message(rng, hostile=(i % 4 == 3)))
    featdist = {}
    for _, fs in corpus:
        for f in fs:
            key = f.split(":")[0]
            featdist[key] = featdist.get(key, 0) + 1
    stats = {"messages": len(corpus), "stored": 0, "byte_identical_modulo_line_ends": 0, "coq_compared": 0,
             "partials": 0, "hdr_text_checked": 0, "empty_body": 0, "copies": 0, "n8_quoted": 0}
    coq_msgs, coq_meta = [], []
    batch = 40
    for b0 in range(0, len(corpus), batch):
        part = corpus[b0:b0 + batch]
        w = W.World()
        try:
            _run_batch(ctx, w, part, fnd, stats, coq_msgs, coq_meta)
        finally:
            w.close()
    # the model, evaluated inside Coq on (hdr, body), against the observed octets
    texts, spans = [], []
    cur, size, start = [], 0, 0
    for i, t in enumerate(coq_msgs):
        cur.append(t)
        size += len(t)
        if size > 150_000 or len(cur) >= 25:
            texts.append(cur)
            spans.append(start)
            cur, size, start = [], 0, i + 1
    if cur:
        texts.append(cur)
        spans.append(start)
    files = [COQ_DEFS + "Definition msgs : list (list Z * list Z * list (Z * (Z * Z) * list Z)) := " + clist(t) + ".\nEval vm_compute in (bad_from chk_msg 0 msgs).\n" for t in texts]
    if files:
        outs = ctx.coq.eval_many("c16m", files)
        for k, out in enumerate(outs):
            for i in bad_indices(out)[0][:3]:
                ctx.violation("a fetched data item differs from the model evaluated on the measured (hdr, body)",
                              dict(coq_meta[spans[k] + i], replay="./check C16 --replay <this file>"))
    stats["coq_compared"] = len(coq_msgs)
    ctx.extra["end_to_end"] = stats
    ctx.extra["message_features"] = dict(sorted(featdist.items()))
    ctx.extra["findings_seen"] = fnd.counts


def _tagged_ok(out, tag=b"t"):
    for o in reversed(out):
        if o.startswith(tag + b" "):
            return o.startswith(tag + b" OK"), o
    return False, None


def _fetch(ctx, w, cmd, fnd):
    """run one FETCH; every chunk must be exactly one well-formed response; returns parsed responses"""
    out = w.cmd("A", cmd)
    res = []
    for ch in out:
        try:
            res.append(R.parse_chunk(ch))
        except R.RespError as e:
            fnd.report(None, "a FETCH response is not a well-formed IMAP response (see C07)",
                       {"command": cmd, "chunk": repr(ch[:300]), "error": str(e)})
            res.append({"kind": "unparsed", "raw": ch})
    return out, res


def _run_batch(ctx, w, part, fnd, stats, coq_msgs, coq_meta):
    rng = ctx.rng
    w.session("A")
    w.cmd("A", "t CREATE copybox")
    stored = []  # (raw, feats)
    for raw, feats in part:
        lit = raw
        try:
            out = w.cmd("A", b"t APPEND inbox {%d}\r\n" % len(lit) + lit)
            ok, line = _tagged_ok(out)
        except Exception as e:
            ok, line = False, repr(e)[:300]
            w.drain("A")
        if not ok:
            fnd.report(None, "APPEND of a valid message was refused or failed",
                       {"message": repr(raw[:600]), "features": feats, "reply": repr(line),
                        "replay": "APPEND inbox {n}<message>"})
            continue
        stored.append((raw, feats))
        stats["stored"] += 1
    out = w.cmd("A", "t SELECT inbox")
    mbox = w.server.active_mailboxes["inbox"]
    if len(mbox.msg_keys) != len(stored):
        ctx.violation("the mailbox does not hold the messages that were appended",
                      {"appended": len(stored), "mailbox": len(mbox.msg_keys)})
        return
    import asimap.generator as G

    for idx, (raw, feats) in enumerate(stored):
        n = idx + 1
        meta = {"message": repr(raw[:800]), "features": feats, "seq": n}
        # ---- the oracle decomposition, measured
        msg = mbox.get_msg(mbox.msg_keys[idx])
        try:
            hdr = G.msg_headers_as_bytes(msg)
            full_raw = raw_flatten(msg, True)
            body_raw = raw_flatten(msg, False)
        except Exception as e:
            fnd.report(None, "the message generator raised on a stored message",
                       dict(meta, error=repr(e)[:300]))
            continue
        if not hdr.endswith(b"\r\n"):
            ctx.violation("oracle hypothesis fails: the header block does not end in CRLF", dict(meta, hdr=repr(hdr[-80:])))
        if full_raw != hdr + body_raw:
            ctx.violation("oracle hypothesis fails: full rendering is not header block ++ body rendering",
                          dict(meta, hdr_len=len(hdr), body_len=len(body_raw), full_len=len(full_raw)))
            continue
        # ---- the items
        items = {}
        observed = []  # (code, partial, value octets)
        names = [(0, b"BODY[]", "BODY.PEEK[]"), (1, b"BODY[HEADER]", "BODY.PEEK[HEADER]"), (2, b"BODY[TEXT]", "BODY.PEEK[TEXT]"),
                 (3, b"RFC822", "RFC822"), (4, b"RFC822.HEADER", "RFC822.HEADER"), (5, b"RFC822.TEXT", "RFC822.TEXT"),
                 (6, b"RFC822.SIZE", "RFC822.SIZE")]
        bad = False
        for code, rname, cname in names:
            out, res = _fetch(ctx, w, f"t FETCH {n} ({cname})", fnd)
            fr = [r for r in res if r.get("kind") == "fetch" and r["n"] == n and any(k == rname for k, _ in r["items"])]
            ok, line = _tagged_ok(out)
            if not ok or len(fr) != 1:
                fnd.report(None, f"FETCH {cname} gave no (single) answer", dict(meta, reply=repr(out)[:400]))
                bad = True
                break
            items[code] = R.fetch_item(fr[0], rname)
            if code in (0, 1, 2, 6):
                vo = value_octets(fr[0]["raw"], n, rname)
                if vo is None:
                    ctx.violation("FETCH response is not '* n FETCH (NAME value)'", dict(meta, chunk=repr(fr[0]["raw"][:200])))
                else:
                    observed.append((code, None, vo))
        if bad:
            continue
        full, H, T = items[0], items[1], items[2]
        if None in (full, H, T, items[3], items[4], items[5]):
            ctx.violation("a message text item came back as NIL", meta)
            continue
        # size
        if items[6] != len(full):
            fnd.report(None, "RFC822.SIZE is not the octet count of BODY[]", dict(meta, size=items[6], body_len=len(full)))
        # RFC822* = BODY[...]
        for a, bname in ((3, 0), (4, 1), (5, 2)):
            if items[a] != items[bname]:
                fnd.report(None, f"{names[a][2]} differs from {names[bname][2]}", dict(meta, a=repr(items[a][:200]), b=repr(items[bname][:200])))
        # header ++ text = full
        stats["hdr_text_checked"] += 1
        if body_raw == b"":
            stats["empty_body"] += 1
        if H + T != full:
            if body_raw == b"" and H + T == full + b"\r\n":
                fnd.report(FID_EMPTY, "empty body: BODY[HEADER] followed by BODY[TEXT] is 2 octets longer than BODY[] "
                                      "(both get a CRLF)",
                           dict(meta, header_len=len(H), text=repr(T), body_len=len(full),
                                replay=f"APPEND the message; FETCH {n} (BODY.PEEK[HEADER] BODY.PEEK[TEXT] BODY.PEEK[])"))
            else:
                fnd.report(None, "BODY[HEADER] followed by BODY[TEXT] is not BODY[]",
                           dict(meta, header=repr(H[:300]), text=repr(T[:200]), body=repr(full[:400]),
                                replay=f"APPEND the message; FETCH {n} (BODY.PEEK[HEADER] BODY.PEEK[TEXT] BODY.PEEK[])"))
        # all lines end in CRLF
        for nm, v in (("BODY[]", full), ("BODY[HEADER]", H), ("BODY[TEXT]", T)):
            if not v.endswith(b"\r\n") or re.search(rb"(?<!\r)\n", v):
                mm = re.search(rb"(?<!\r)\n", v)
                where = repr(v[max(0, (mm.start() if mm else len(v)) - 40):][:80])
                leak = (mm is not None and v.endswith(b"\r\n") and re.search(rb"(?<!\r)\n", raw) is not None
                        and (declared_multipart_without_parts(raw) or header_needs_raw_fallback(msg)))
                fnd.report(FID_BARE_LF if leak else None,
                           (f"{nm} has a line that does not end in CRLF" if not leak else
                            "a message stored with bare-LF line ends keeps them where the email generator copies text "
                            "verbatim (multipart without parts, header written by the raw fallback)"),
                           dict(meta, item=nm, where=where,
                                replay=f"APPEND the message; FETCH {n} (BODY.PEEK[])"), key="crlf-lines")
                break
        # partials
        secs = [(0, b"BODY[]", "BODY.PEEK[]", full), (1, b"BODY[HEADER]", "BODY.PEEK[HEADER]", H), (2, b"BODY[TEXT]", "BODY.PEEK[TEXT]", T)]
        # other sections: a numbered part, its MIME header, a header subset (no model comparison:
        # the slice and termination rules are checked on the real octets)
        for rname, cname in ((b"BODY[1]", "BODY.PEEK[1]"), (b"BODY[1.MIME]", "BODY.PEEK[1.MIME]"),
                             (b"BODY[HEADER.FIELDS (Subject From)]", "BODY.PEEK[HEADER.FIELDS (Subject From)]"),
                             (b"BODY[2]", "BODY.PEEK[2]")):
            if rng.random() < 0.5:
                continue
            out, res = _fetch(ctx, w, f"t FETCH {n} ({cname})", fnd)
            fr = [r for r in res if r.get("kind") == "fetch" and any(k == rname for k, _ in r["items"])]
            ok, line = _tagged_ok(out)
            if ok and len(fr) == 1 and R.fetch_item(fr[0], rname) is not None:
                whole = R.fetch_item(fr[0], rname)
                stats["other_sections"] = stats.get("other_sections", 0) + 1
                if not whole.endswith(b"\r\n"):
                    fnd.report(None, f"{cname} does not end in CRLF", dict(meta, item=cname, tail=repr(whole[-40:])))
                secs.append((9, rname, cname, whole))
        for _ in range(5 if ctx.thorough else 4):
            code, rname, cname, whole = rng.choice(secs)
            L = len(whole)
            o = rng.choice([0, 0, 1, rng.randrange(L + 1), max(L - 1, 0), L, L + 3, 2 ** 32])
            k = rng.choice([1, 2, rng.randrange(1, L + 2), L, L + 5, 64, 2 ** 31])
            out, res = _fetch(ctx, w, f"t FETCH {n} ({cname}<{o}.{k}>)", fnd)
            rn = rname + b"<%d>" % o
            fr = [r for r in res if r.get("kind") == "fetch" and any(kk == rn for kk, _ in r["items"])]
            if len(fr) != 1:
                fnd.report(None, "partial FETCH gave no (single) answer", dict(meta, command=f"FETCH {n} ({cname}<{o}.{k}>)", reply=repr(out)[:300]))
                continue
            got = R.fetch_item(fr[0], rn)
            stats["partials"] += 1
            ctx.count({"msg": meta["message"][:60], "sec": code, "o": o, "k": k}, nontrivial=True)
            if got != whole[o:o + k]:
                fnd.report(None, "a <o.n> partial is not that slice of the item",
                           dict(meta, command=f"FETCH {n} ({cname}<{o}.{k}>)", got=repr(got[:200]), expected=repr(whole[o:o + k][:200])))
            vo = value_octets(fr[0]["raw"], n, rn)
            if vo is not None and len(vo) < 400 and code != 9:
                observed.append((code, (o, k), vo))
        # repeated fetch
        out, res = _fetch(ctx, w, f"t FETCH {n} (BODY.PEEK[] RFC822.SIZE)", fnd)
        fr = [r for r in res if r.get("kind") == "fetch"]
        if len(fr) != 1 or R.fetch_item(fr[0], b"BODY[]") != full or R.fetch_item(fr[0], b"RFC822.SIZE") != items[6]:
            fnd.report(None, "a repeated FETCH is not byte-identical", dict(meta, reply=repr(out)[:300]))
        # APPEND fidelity
        _fidelity(ctx, fnd, raw, full, meta, stats)
        ctx.count({"msg": meta["message"][:120], "len": len(raw)}, nontrivial=True)
        # several items in ONE command, in a random order, preceded or not by items that only need the header
        # (ENVELOPE, a header subset, BODYSTRUCTURE): each item is what it is when fetched alone
        pool = [(c, rn, cn) for c, rn, cn in names] + [(None, b"ENVELOPE", "ENVELOPE"), (None, b"BODYSTRUCTURE", "BODYSTRUCTURE"),
                                                        (None, b"BODY[HEADER.FIELDS (Subject From)]", "BODY.PEEK[HEADER.FIELDS (Subject From)]")]
        combo = rng.sample(pool, rng.choice([3, 4, 5]))
        if rng.random() < 0.5:
            combo.sort(key=lambda x: x[0] is not None)     # header-only items first
        out, res = _fetch(ctx, w, f"t FETCH {n} (" + " ".join(cn for _, _, cn in combo) + ")", fnd)
        fr = [r for r in res if r.get("kind") == "fetch" and r["n"] == n]
        ok, line = _tagged_ok(out)
        stats["combined"] = stats.get("combined", 0) + 1
        if not ok or len(fr) != 1:
            fnd.report(None, "a FETCH of several items gave no (single) answer",
                       dict(meta, command=" ".join(cn for _, _, cn in combo), reply=repr(out)[:300]))
        else:
            for c, rn, cn in combo:
                if c is not None and R.fetch_item(fr[0], rn) != items[c]:
                    got = R.fetch_item(fr[0], rn)
                    fnd.report(None, "an item fetched together with others differs from the same item fetched alone",
                               dict(meta, command=" ".join(x[2] for x in combo), item=cn,
                                    alone=repr(items[c])[:200] if not isinstance(items[c], int) else items[c],
                                    together=repr(got)[:200] if not isinstance(got, int) else got))
                    break
        # the model
        if len(full) <= 2500:
            obs = clist([f"({cz(c)}, {c_pair(p)}, {cbytes(v)})" for c, p, v in observed])
            coq_msgs.append(f"({cbytes(hdr)}, {cbytes(body_raw)}, {obs})")
            coq_meta.append(dict(meta, hdr=repr(hdr[:300]), body=repr(body_raw[:300]),
                                 observed=[(c, p, repr(v[:120])) for c, p, v in observed]))
    # a message number that comes to name another message (the last message expunged, a new one appended: MH gives
    # it the freed number): what is reported for the new message is about the new message
    if stored:
        last = len(stored)
        od = b"".join(w.cmd("A", f"t FETCH {last} (RFC822.SIZE INTERNALDATE)"))
        md = re.search(rb'INTERNALDATE "([^"]+)"', od)
        w.cmd("A", f"t STORE {last} +FLAGS.SILENT (\\Deleted)")
        w.cmd("A", "t EXPUNGE")
        fresh = b"Subject: key reuse\r\nFrom: a@example.com\r\n\r\n" + b"x" * rng.randint(700, 1900) + b"\r\n"
        # half of the time the message that goes and the one that comes have the same INTERNALDATE (a client re-saving
        # a draft with the date it had): first put such a message in the place of the last one
        dt_ = b""
        if rng.random() < 0.5:
            dt_ = b' "05-Mar-2024 10:11:12 +0000"'
            first = b"Subject: draft\r\nFrom: a@example.com\r\n\r\n" + b"y" * rng.randint(10, 300) + b"\r\n"
            w.cmd("A", b"t APPEND inbox" + dt_ + b" {%d}\r\n" % len(first) + first)
            w.cmd("A", f"t FETCH {last} (RFC822.SIZE)")
            w.cmd("A", f"t SEARCH LARGER 100")
            w.cmd("A", f"t STORE {last} +FLAGS.SILENT (\\Deleted)")
            w.cmd("A", "t EXPUNGE")
        w.cmd("A", b"t APPEND inbox" + dt_ + b" {%d}\r\n" % len(fresh) + fresh)
        out, res = _fetch(ctx, w, f"t FETCH {last} (RFC822.SIZE BODY.PEEK[])", fnd)
        fr = [r for r in res if r.get("kind") == "fetch" and r["n"] == last]
        stats["key_reuse"] = stats.get("key_reuse", 0) + 1
        if len(fr) == 1:
            sz, body = R.fetch_item(fr[0], b"RFC822.SIZE"), R.fetch_item(fr[0], b"BODY[]")
            if body is None or sz != len(body) or body != fresh:
                fnd.report(None, "after the last message was expunged and another appended (same MH number), the data "
                                 "reported for the new message are not the new message's",
                           {"size": sz, "body_len": None if body is None else len(body), "appended_len": len(fresh)})
        else:
            fnd.report(None, "FETCH of a freshly appended message gave no (single) answer", {"reply": repr(out)[:300]})
        stored = stored[:-1]
    # COPY: identical octets
    picks = sorted(rng.sample(range(1, len(stored) + 1), min(len(stored), 10 if ctx.thorough else 6)))
    if picks:
        src = {}
        for n in picks:
            out, res = _fetch(ctx, w, f"t FETCH {n} (BODY.PEEK[] RFC822.SIZE BODY.PEEK[HEADER] BODY.PEEK[TEXT])", fnd)
            fr = [r for r in res if r.get("kind") == "fetch"]
            if len(fr) == 1:
                src[n] = fr[0]["items"]
        out = w.cmd("A", "t COPY " + ",".join(str(n) for n in picks) + " copybox")
        ok, line = _tagged_ok(out)
        if not ok:
            ctx.violation("COPY failed", {"reply": repr(out)[:300]})
        else:
            w.cmd("A", "t SELECT copybox")
            for j, n in enumerate(picks, 1):
                out, res = _fetch(ctx, w, f"t FETCH {j} (BODY.PEEK[] RFC822.SIZE BODY.PEEK[HEADER] BODY.PEEK[TEXT])", fnd)
                fr = [r for r in res if r.get("kind") == "fetch"]
                stats["copies"] += 1
                if n in src and (len(fr) != 1 or fr[0]["items"] != src[n]):
                    fnd.report(None, "a COPY does not return bytes identical to its source",
                               {"message": repr(stored[n - 1][0][:600]), "source_seq": n, "copy_seq": j})


def _fidelity(ctx, fnd, raw, full, meta, stats):
    """same header fields and same body content as the message that was sent"""
    want = norm_lines(raw)
    if not want.endswith(b"\n"):
        want += b"\n"
    got = norm_lines(full)
    if got == want or (body_of(raw) == b"" and got == want.rstrip(b"\n") + b"\n\n"):
        stats["byte_identical_modulo_line_ends"] += 1
        return
    # not identical octets: the header may have been re-folded / re-encoded; compare field by field
    hf_w, hf_g = header_fields(raw), header_fields(full)
    if hf_w != hf_g:
        sw, sg = semantic_headers(raw), semantic_headers(full)
        if sw != sg:
            diff = [(a, b) for a, b in zip(hf_w, hf_g) if a != b][:3] or [("count", len(hf_w), len(hf_g))]
            has8 = any(b >= 128 for b in raw.split(b"\n\n")[0].split(b"\r\n\r\n")[0])
            if not has8:  # raw 8-bit octets in a header are outside RFC 5322; nothing is demanded for them
                hb = norm_lines(raw).split(b"\n\n", 1)[0]
                refold = any(len(ln) > 78 for ln in hb.split(b"\n")) and b"=?" in hb
                sdiff = [(a, b) for a, b in zip(sw, sg) if a != b][:2]
                loose = lambda x: [(k, v.replace(" ", "")) for k, v in x]
                # is what came back exactly what Python's own email package makes of these header fields (policy SMTP,
                # fold_binary - the call asimap's generator makes)?  Then the re-folding of the package is what changed them
                by_email_pkg = False
                try:
                    m0 = email.message_from_bytes(raw, policy=email.policy.SMTP)
                    again = b"".join(email.policy.SMTP.fold_binary(h, v) for h, v in m0.raw_items())
                    by_email_pkg = header_fields(again + b"\r\n") == hf_g
                except Exception:
                    by_email_pkg = False
                fnd.report(FID_REFOLD if refold and (loose(sw) == loose(sg) or by_email_pkg) else None,
                           ("APPEND fidelity: the header fields returned differ from the ones stored" if not refold else
                            "a header line longer than 78 octets that holds encoded words is re-folded by the email "
                            "package, which splits a word (an extra space appears in the decoded value)"),
                           dict(meta, differing=repr(diff), decoded=repr(sdiff)), key="header-fidelity")
                return
    bw, bg = body_of(raw), body_of(full)
    if not bw.endswith(b"\n") and bw != b"":
        bw += b"\n"
    if bw != bg and not (bw == b"" and bg in (b"", b"\n")):
        try:
            same = decoded_view(raw) == decoded_view(full)
        except Exception:
            same = False
        if not same:
            dsn = re.search(rb"(?im)^content-type:\s*message/delivery-status", raw) is not None
            squeeze = lambda x: re.sub(rb"\n+", b"\n", x)
            fnd.report(FID_DSN if dsn and squeeze(bw) == squeeze(bg) else None,
                       ("APPEND fidelity: the body content returned differs from the one stored" if not dsn else
                        "a message/delivery-status part comes back with other blank lines than it was stored with "
                        "(the email package re-renders its blocks)"),
                       dict(meta, stored=repr(bw[:300]), returned=repr(bg[:300])), key="body-fidelity")


def run(ctx):
    ctx.coverage["rule"] = (
        "function level: generated byte strings (CR/LF/CRLF mixes, empty, 8-bit, brace look-alikes) x partial ranges "
        "(None, in range, at/after the end, 2^31..2^64) through the real tails of FetchAtt.body, msg_as_bytes, "
        "get_msg_size; end to end: witness messages + fixture corpus + generated RFC 5322/MIME messages, each "
        "APPENDed and fetched back (7 items, random partials, repeat, COPY). distinct = distinct (bytes, partial) / "
        "(message, section, o, n); non-trivial = all counted")
    ok = ctx.prove("Properties/C16.v")
    function_level(ctx)
    end_to_end(ctx)
    ctx.trusted += [
        "Python's email parser/generator is an oracle: hdr/body are universally quantified in the theorems and the "
        "decomposition full = hdr ++ body, hdr ends in CRLF is measured on every message of the run",
        "mailbox.MH.add / the MH folder factory (what APPEND stores and FETCH reads) — measured by the fidelity oracle",
        "harness/resptok.py cuts literals out of the responses by their announced count",
    ]
    ctx.assume += ["the email generator renders a stored message deterministically (repeat fetches are measured)",
                   "raw 8-bit octets inside header fields are outside RFC 5322: only the consistency equations, not "
                   "header fidelity, are demanded for them"]


def replay(ctx, path):
    r = json.load(open(path))
    print(json.dumps(r, indent=1)[:3000])
    return 0
