"""C01 — message sequence numbers never desynchronise between server and session.

Proof:  coq/Properties/C01.v — the FIFO/view invariant holds in every reachable world of
        Model/Mbox.v (any number of sessions, mailboxes, commands, deliveries, polls), flush
        points synchronise, numbers are accepted on a synced view, no EXPUNGE during the issuer's
        own non-UID FETCH/STORE/SEARCH.
Tie:    X — multi-session histories generated online, executed on the real Authenticated /
        Mailbox / IMAPUserServer objects under the virtual clock; every response each session
        receives is compared, step by step, with the model's (inside Coq).  The property's
        replay oracle additionally runs on the implementation's own streams.
"""
import json

import core
import mboxx

MIX = {"expunge": 10, "append": 9, "deliver": 7, "noop": 8, "store": 10, "move": 5, "copy": 4, "idle": 4,
       "select": 6, "close": 2, "fetch": 8, "poll": 4}


def report_diffs(ctx, prop, hs, bad, what):
    for (i, step) in bad[:3]:
        h = hs[i]
        orc = mboxx.replay_oracle(h)
        model = mboxx.model_output_at(ctx, h, step)
        lo = max(0, step - 12)
        ctx.violation(what,
                      {"seed": h.seed, "sessions": h.nsess, "first_difference_at_step": step,
                       "ops_up_to_difference": [repr(o) for o in h.ops[:step + 1]],
                       "implementation_output": {str(k): [repr(r) for r in v] for k, v in h.obs[step].items()},
                       "model_output": model,
                       "recent_steps": [[repr(h.ops[j]), {str(k): [repr(r) for r in v] for k, v in h.obs[j].items()}]
                                        for j in range(lo, step + 1)],
                       "property_oracle_on_implementation_stream": [f"step {k}: {d}" for k, d in orc][:10]},
                      found_input=True)


def run(ctx):
    ctx.coverage["rule"] = ("histories of 45 (quick) / 70 (thorough) commands over 1-3 sessions and two mailboxes "
                            "(SELECT/EXAMINE, APPEND, STORE, FETCH, SEARCH, EXPUNGE, UID EXPUNGE, COPY, MOVE, CLOSE, "
                            "UNSELECT, IDLE/DONE, NOOP, CHECK, external deliveries, management-task polls), generated "
                            "online from one seeded PRNG; distinct by op list; non-trivial = some session had EXPUNGEs "
                            "queued while its mailbox grew (the situation in which a desynchronisation can occur)")
    ok = ctx.prove("Properties/C01.v")
    n = 400 if ctx.thorough else 64
    nops = 70 if ctx.thorough else 45
    hs = mboxx.generate(ctx, n, nops, mix=MIX, pack=(4, 4, 5))
    errs = [h for h in hs if h.error]
    for h in errs[:3]:
        ctx.violation("the implementation raised while running a history",
                      {"seed": h.seed, "ops": [repr(o) for o in h.ops], "error": h.error})
    hs = [h for h in hs if not h.error]
    d1 = 0
    for h in hs:
        nt = mboxx.d1_condition(h)
        d1 += nt
        ctx.count({"sessions": h.nsess, "ops": [repr(o) for o in h.ops[:12]] + ["..."], "n_ops": len(h.ops),
                   "seed": h.seed}, nontrivial=nt)
        for (k, d) in mboxx.replay_oracle(h)[:1]:
            ctx.violation("replaying a session's EXISTS/EXPUNGE stream gives an illegal or stale view: " + d,
                          {"seed": h.seed, "step": k, "ops_up_to_step": [repr(o) for o in h.ops[:k + 1]],
                           "stream_at_step": {str(s): [repr(r) for r in v] for s, v in h.obs[k].items()}})
    ctx.coq.build(["Model/MboxCmp.vo"])
    bad, _ = mboxx.compare(ctx, "c01", hs)
    report_diffs(ctx, "C01", hs, bad, "model (proved) and implementation disagree on what a session is sent")
    ctx.coverage["traces_validated_against_impl"] = len(hs) - len({i for i, _ in bad})
    ctx.extra["histories"] = len(hs)
    ctx.extra["histories_with_queued_expunge_during_growth"] = d1
    ctx.extra["op_mix"] = _mix(hs)
    ctx.assume += ["commands are atomic with respect to one another (interleavings inside a command are C10's)",
                   "the response tokenizer of the harness (unknown bytes are a difference, never ignored)",
                   "the ghost view of the model is what a client replaying the stream computes (apply_resp)"]


def _mix(hs):
    m = {}
    for h in hs:
        for o in h.ops:
            m[o[0]] = m.get(o[0], 0) + 1
    return m


def replay(ctx, path):
    r = json.load(open(path))
    print(json.dumps(r, indent=1)[:4000])
    return 0
