"""C14 — SEARCH returns exactly the messages that satisfy the criteria.

Proof:  coq/Properties/C14.v — for every search program (structural induction over the key AST,
        any nesting) and every mailbox the evaluator of Model/SearchM.v (parser tree of parse.py,
        IMAPSearch._match_* of search.py, the loop of Mailbox.search) returns exactly the ascending
        sequence numbers of the messages satisfying the RFC 3501 denotation of Spec/SearchSem.v;
        UID SEARCH is that list mapped through the UID table; Boolean-algebra corollaries; the set
        keys address Spec/SetSem.denote.
Tie:    X — generated mailboxes (0-8 messages; flags through APPEND/STORE, \\Recent cleared on some,
        UID gaps, INTERNALDATEs and Date: headers around day boundaries in several zones, duplicate
        and folded header fields, multipart bodies) on the real IMAPUserServer; search programs from
        the RFC 3501 grammar (depth <= 4, every key) sent as real SEARCH / UID SEARCH commands.  What
        the model is told about each message is taken from the implementation's own
        FETCH (UID FLAGS RFC822.SIZE INTERNALDATE BODY.PEEK[] BODY.PEEK[TEXT]) answers of a read-only
        session, so "agrees with FETCH" is what is compared.  Model and denotation are evaluated inside
        Coq (vm_compute).  Metamorphic laws are checked on the implementation itself.
"""
from __future__ import annotations

import datetime as dt
import json
import re

import core
from core import cz, clist, cbool, cbytes, cstr
import world as W

MONTHS = ["Jan", "Feb", "Mar", "Apr", "May", "Jun", "Jul", "Aug", "Sep", "Oct", "Nov", "Dec"]
D0 = dt.date(2024, 1, 3)
WORDS = ["alpha", "Bravo", "CHARLIE", "delta", "Echo", "foxtrot", "Golf", "hotel", "India", "juliet"]
ABSENT = ["zulu", "qqq", "alphax", "xbravo", "nomatch"]
ADDRS = ["Alice <alice@example.com>", "BOB@Example.ORG", "carol@example.net", "Dave Smith <dave@sub.example.com>",
         "eve@example.com, frank@example.org"]
SYSFLAGS = ["\\Seen", "\\Answered", "\\Flagged", "\\Deleted", "\\Draft"]
KEYWORDS = ["kw1", "Kw1", "$Forwarded", "important"]
# keyword atoms that are the names of MH sequences of system flags: no message can carry them
RESERVED = ["Seen", "Recent", "replied", "flagged", "Deleted", "Draft"]
ZONES = ["+0000", "-0500", "+0900", "-1100", "+1300"]
FLAGKEYS = ["answered", "deleted", "draft", "flagged", "recent", "seen", "new", "old",
            "unanswered", "undeleted", "undraft", "unflagged", "unseen"]
HDR1 = ["bcc", "cc", "from", "subject", "to"]


def imap_date(d: dt.date) -> str:
    return f"{d.day}-{MONTHS[d.month - 1]}-{d.year}"


# ------------------------------------------------------------------ message generator
LONG_SUBJECTS = False   # thorough tier: subjects the email package folds at 78 columns


def gen_message(rng, idx):
    """-> (raw bytes, meta) ; meta['words'] are byte strings that occur somewhere in the message"""
    nl = rng.choice(["\r\n", "\n"])
    words = []

    def w():
        x = rng.choice(WORDS)
        words.append(x)
        return x

    h = []
    frm = rng.choice(ADDRS[:4])
    h.append(("From", frm))
    h.append((rng.choice(["To", "TO", "to"]), rng.choice(ADDRS)))
    if rng.random() < 0.4:
        h.append(("Cc", rng.choice(ADDRS)))
    if rng.random() < 0.15:
        h.append(("Bcc", rng.choice(ADDRS)))
    r = rng.random()
    if r < 0.75:
        nw = rng.choice([1, 2, 3, 14, 25] if LONG_SUBJECTS else [1, 2, 3])
        subj = " ".join(w() for _ in range(nw)) + f" tok{idx}"
        h.append((rng.choice(["Subject", "SUBJECT", "subject"]), subj))
    elif r < 0.9:
        h.append(("Subject", w() + nl + " " + w() + " folded"))
    day = D0 + dt.timedelta(days=rng.choice([-1, 0, 0, 1]))
    r = rng.random()
    if r < 0.72:
        hh = rng.choice([0, 1, 12, 22, 23])
        h.append(("Date", f"{day.strftime('%a')}, {day.day:02d} {MONTHS[day.month - 1]} {day.year} "
                          f"{hh:02d}:{rng.choice([0, 30, 59]):02d}:00 {rng.choice(ZONES)}"))
    elif r < 0.86:
        h.append(("Date", rng.choice(["yesterday", "not a date", "32 Foo 2024 99:99:99 +0000"])))
    for _ in range(rng.choice([0, 0, 1, 2, 2])):
        h.append((rng.choice(["X-Tag", "x-tag", "X-TAG"]), w()))
    for k in range(rng.choice([0, 0, 2, 3])):
        h.append(("Received", f"from mx{k}.{w()}.example.com by verif"))
    rng.shuffle(h)
    body_lines = [" ".join(w() for _ in range(rng.choice([1, 2, 4]))) for _ in range(rng.choice([0, 1, 2, 3]))]
    if rng.random() < 0.2:
        b = "zz" + str(idx)
        h.append(("MIME-Version", "1.0"))
        h.append(("Content-Type", f"multipart/mixed; boundary={b}"))
        p1 = nl.join(["Content-Type: text/plain", "", w() + " part one"])
        p2 = nl.join(["Content-Type: text/plain", "X-Part: " + w(), ""] + body_lines)
        body = nl.join(["preamble " + w(), "--" + b, p1, "--" + b, p2, "--" + b + "--", ""])
    else:
        body = "".join(x + nl for x in body_lines)
    raw = "".join(f"{k}: {v}{nl}" for k, v in h) + nl + body
    words += [f"tok{idx}", "example.com", "alice", "EXAMPLE"]
    return raw.encode("ascii"), {"words": words}


# ---- witness corpus: the inputs on which the pinned tree violated the property (repaired by the
# fix: patches /verif/fixes/C14-search-*.patch); they run first on every run so a regression is reported again
def _lit(raw, flags="", when=' " 3-Jan-2024 12:00:00 +0000"'):
    return f"x APPEND inbox{flags}{when} {{{len(raw)}}}\r\n{raw}"


CORPUS_MSGS = [
    "From: a@example.com\r\nReceived: from mx1.example.com by verif\r\nReceived: from mx2.example.com by verif\r\n"
    "X-Tag: alpha\r\nx-tag: beta\r\nSubject: duplicate fields\r\nDate: Tue, 02 Jan 2024 23:30:00 -0500\r\n\r\nbody one\r\n",
    "From: b@example.com\r\nSubject: not a date\r\nDate: yesterday\r\n\r\nbody two\r\n",
    "From: c@example.com\r\nSubject: no date\r\n\r\nbody three\r\n",
]
CORPUS_OPS = [{"s": "A", "cmd": _lit(CORPUS_MSGS[0], " (\\Seen \\Flagged)")},
              {"s": "A", "cmd": _lit(CORPUS_MSGS[1], " (\\Draft kw1)")},
              {"s": "A", "cmd": _lit(CORPUS_MSGS[2], " (\\Answered \\Deleted)")},
              {"s": "A", "cmd": "x SELECT inbox"}, {"s": "A", "cmd": "x FETCH 1 (FLAGS)"},
              {"s": "B", "cmd": "x EXAMINE inbox"}]
_D = dt.date(2024, 1, 2).toordinal()
CORPUS_PROGRAMS = (
    [[("flag", "undraft")], [("not", ("flag", "undraft"))],                                   # UNDRAFT was unknown
     [("header", "Received", "mx2")], [("header", "X-Tag", "BETA")], [("not", ("header", "x-tag", "beta"))],
     [("date", "senton", _D)], [("not", ("date", "sentbefore", _D))], [("date", "sentsince", _D - 1)]]
    + [[(t, k)] for k in RESERVED for t in ("keyword", "unkeyword")])


def gen_setup(rng, n, gap=False):
    """the command script that builds a mailbox of about n messages; -> list of ops"""
    if n == "corpus":
        return [dict(o) for o in CORPUS_OPS], [{"words": ["body", "mx1"]} for _ in CORPUS_MSGS]
    ops = []
    total = n + (1 if n >= 3 and gap else 0)     # one message more, removed again: a hole in the UIDs
    metas = []
    for i in range(total):
        raw, meta = gen_message(rng, i + 1)
        metas.append(meta)
        fl = [f for f in SYSFLAGS if rng.random() < 0.3] + [k for k in KEYWORDS if rng.random() < 0.2]
        day = D0 + dt.timedelta(days=rng.choice([-1, 0, 0, 1]))
        tm = rng.choice([("23:59:59", "+0000"), ("00:00:00", "+0000"), ("00:30:00", "+0500"),
                         ("23:30:00", "-0500"), ("12:00:00", "+0000"), None])
        cmd = "x APPEND inbox"
        if fl:
            cmd += " (" + " ".join(fl) + ")"
        if tm:
            cmd += f' "{day.day:2d}-{MONTHS[day.month - 1]}-{day.year} {tm[0]} {tm[1]}"'
        cmd += f" {{{len(raw)}}}\r\n" + raw.decode("ascii")
        ops.append({"s": "A", "cmd": cmd})
    ops.append({"s": "A", "cmd": "x SELECT inbox"})
    if total > n:
        # half of the time the highest UID goes: UIDNEXT - 1 is then not the UID of the last message (what `*` must denote)
        k = total if rng.random() < 0.5 else rng.randint(1, total)
        ops.append({"s": "A", "cmd": f"x STORE {k} +FLAGS.SILENT (\\Deleted)"})
        ops.append({"s": "A", "cmd": f"x UID EXPUNGE {k}"})   # fresh mailbox: UID k is message k
    if n and rng.random() < 0.25:
        # an MH tool drops a message into the folder (it becomes \\Recent and unseen at the next resync)
        raw, meta = gen_message(rng, total + 1)
        metas.append(meta)
        ops.append({"deliver": raw.decode("ascii")})
        ops.append({"s": "A", "cmd": "x NOOP"})
    for _ in range(rng.choice([0, 1, 2, 3]) if n else 0):
        a, b = sorted([rng.randint(1, n), rng.randint(1, n)])
        fl = rng.sample(SYSFLAGS + KEYWORDS, rng.choice([1, 2]))
        ops.append({"s": "A", "cmd": f"x STORE {a}:{b} {rng.choice(['+FLAGS', '-FLAGS', '+FLAGS', 'FLAGS'])} "
                                     f"({' '.join(fl)})"})
    if n and rng.random() < 0.7:
        # a read-write FETCH of FLAGS is what clears \Recent: do it on part of the mailbox
        a, b = sorted([rng.randint(1, n), rng.randint(1, n)])
        ops.append({"s": "A", "cmd": f"x FETCH {a}:{b} (FLAGS)"})
    ops.append({"s": "B", "cmd": "x EXAMINE inbox"})
    return ops, metas


def run_setup(ops):
    w = W.World()
    w.session("A")
    w.session("B")
    for op in ops:
        if "deliver" in op:
            mh = w.folder("inbox")
            key = int(mh.add(op["deliver"].encode("ascii")))
            seqs = mh.get_sequences()
            seqs["unseen"] = sorted(set(seqs.get("unseen", [])) | {key})
            mh.set_sequences(seqs)
            w.bump_mtime("inbox")
            w.settle(0.0)
        else:
            out = w.cmd(op["s"], op["cmd"])
            t = tagged(out)
            if t is None or t[2] != "OK":
                w.close()
                raise RuntimeError(f"setup command failed: {op['cmd'][:80]!r} -> {out!r}")
    w.drain("A")
    w.drain("B")
    return w


def tagged(out):
    for o in reversed(out):
        c = W.classify(o)
        if c[0] == "tagged":
            return c
    return None


# ------------------------------------------------------------------ what FETCH shows
RE_FETCH = re.compile(rb"\* (\d+) FETCH \(")
RE_ITEMS = [
    ("uid", re.compile(rb"UID (\d+)")),
    ("size", re.compile(rb"RFC822\.SIZE (\d+)")),
    ("flags", re.compile(rb"FLAGS \(([^)]*)\)")),
    ("idate", re.compile(rb'INTERNALDATE "([^"]*)"')),
]
RE_LIT = re.compile(rb"BODY\[(TEXT)?\] \{(\d+)\}\r\n")
RE_IDATE = re.compile(r"^([ \d]\d)-([A-Z][a-z][a-z])-(\d{4}) \d\d:\d\d:\d\d [-+]\d{4}$")
RE_HDATE = re.compile(r"^(?:[A-Za-z]{3},\s*)?(\d{1,2})\s+([A-Za-z]{3})\s+(\d{4})\s+(\d{2}):(\d{2})(?::(\d{2}))?\s+([-+]\d{4})$")


def parse_fetches(chunks):
    """strict parser of the FETCH answers -> {seq: attrs}; anything unexpected raises"""
    data = b"".join(chunks)
    pos, res = 0, {}
    while pos < len(data):
        m = RE_FETCH.match(data, pos)
        if not m:
            e = data.index(b"\r\n", pos) + 2
            line = data[pos:e]
            if W.classify(line)[0] != "tagged":
                raise ValueError(f"unexpected line in FETCH answer: {line!r}")
            pos = e
            continue
        seq = int(m.group(1))
        pos = m.end()
        att = {}
        while True:
            if data[pos:pos + 3] == b")\r\n":
                pos += 3
                break
            if data[pos:pos + 1] == b" ":
                pos += 1
                continue
            for name, rx in RE_ITEMS:
                m2 = rx.match(data, pos)
                if m2:
                    att[name] = m2.group(1)
                    pos = m2.end()
                    break
            else:
                m3 = RE_LIT.match(data, pos)
                if not m3:
                    raise ValueError(f"unexpected FETCH item at {data[pos:pos + 40]!r}")
                n = int(m3.group(2))
                att["body" if m3.group(1) else "text"] = data[m3.end():m3.end() + n]
                pos = m3.end() + n
        if seq in res:
            raise ValueError(f"two FETCH answers for message {seq}")
        res[seq] = att
    return res


def parse_headers(raw: bytes):
    """the header fields of BODY[]: [(name, text after the colon, unfolded)]"""
    head = raw.split(b"\r\n\r\n", 1)[0] if not raw.startswith(b"\r\n") else b""
    fields = []
    for ln in head.split(b"\r\n"):
        if ln[:1] in (b" ", b"\t") and fields:
            fields[-1][1] += ln
        elif b":" in ln:
            k, v = ln.split(b":", 1)
            fields.append([k, v])
    return [(k, v.lstrip(b" \t")) for k, v in fields]


def header_date_day(fields):
    """the first Date: field as a day number, time and zone disregarded; None if absent / not a date"""
    for k, v in fields:
        if k.lower() == b"date":
            m = RE_HDATE.match(v.decode("latin-1"))
            if not m or m.group(2).capitalize() not in MONTHS:
                return None
            try:
                dt.datetime(int(m.group(3)), MONTHS.index(m.group(2).capitalize()) + 1, int(m.group(1)),
                            int(m.group(4)), int(m.group(5)), int(m.group(6) or 0))
                return dt.date(int(m.group(3)), MONTHS.index(m.group(2).capitalize()) + 1,
                               int(m.group(1))).toordinal()
            except ValueError:
                return None
    return None


def observe(w, sess="B"):
    """the mailbox as the implementation's own FETCH describes it (read-only session: nothing changes)"""
    ex = w.cmd(sess, "x EXAMINE inbox")
    nex = [c[1] for c in map(W.classify, ex) if c[0] == "exists"]
    if len(nex) != 1 or tagged(ex)[2] != "OK":
        raise RuntimeError(f"EXAMINE not answered with one EXISTS: {ex!r}")
    if nex[0] == 0:
        return []
    out = w.cmd(sess, "f FETCH 1:* (UID FLAGS RFC822.SIZE INTERNALDATE BODY.PEEK[] BODY.PEEK[TEXT])")
    t = tagged(out)
    if t is None or t[2] != "OK":
        raise RuntimeError(f"FETCH failed: {out!r}")
    att = parse_fetches(out)
    msgs = []
    if sorted(att) != list(range(1, nex[0] + 1)):
        raise ValueError(f"FETCH 1:* answered for {sorted(att)} of {nex[0]} messages")
    for seq in range(1, len(att) + 1):
        a = att[seq]
        if set(a) != {"uid", "size", "flags", "idate", "text", "body"}:
            raise ValueError(f"FETCH answer of message {seq} lacks items: {sorted(a)}")
        m = RE_IDATE.match(a["idate"].decode())
        if not m:
            raise ValueError(f"INTERNALDATE not in RFC 3501 form: {a['idate']!r}")
        iday = dt.date(int(m.group(3)), MONTHS.index(m.group(2)) + 1, int(m.group(1))).toordinal()
        fields = parse_headers(a["text"])
        msgs.append({"uid": int(a["uid"]), "flags": [x.decode("latin-1") for x in a["flags"].split()],
                     "size": int(a["size"]), "iday": iday, "idate": a["idate"].decode(),
                     "sent": header_date_day(fields), "hdrs": fields, "text": a["text"], "body": a["body"]})
    return msgs


# ------------------------------------------------------------------ program generator (RFC 3501 search-key)
def flip(rng, s):
    return "".join(c.upper() if rng.random() < 0.3 else c.lower() if rng.random() < 0.3 else c for c in s)


def needle(rng, msgs, metas, where):
    """a search string: mostly something that occurs (in some message), mixed case; sometimes not"""
    r = rng.random()
    if r < 0.08:
        return ""
    if r < 0.3 or not msgs:
        return flip(rng, rng.choice(ABSENT))
    m = rng.choice(msgs)
    if where == "body":
        src = m["body"]
    elif where == "text":
        src = m["text"]
    else:
        vals = [v for k, v in m["hdrs"] if k.lower() == where.encode()]
        src = rng.choice(vals) if vals else m["text"]
    src = src.decode("latin-1")
    toks = [t for t in re.split(r"[\r\n]+", src) if t.strip()]
    if not toks:
        return flip(rng, rng.choice(WORDS))
    line = rng.choice(toks).strip()
    a = rng.randrange(len(line))
    b = min(len(line), a + rng.choice([1, 3, 5, 9, 14]))
    s = line[a:b].strip() or line[:3]
    s = "".join(c for c in s if 32 <= ord(c) < 127 and c not in '"\\')
    return flip(rng, s)


def gen_set(rng, top, extra):
    atoms = ["*"] + list(range(1, top + 2)) + extra
    out = []
    for _ in range(rng.choice([1, 1, 2, 3])):
        if rng.random() < 0.5:
            out.append(rng.choice(atoms))
        else:
            out.append((rng.choice(atoms), rng.choice(atoms)))
    return out


def gen_leaf(rng, msgs, metas, stats):
    n = len(msgs)
    kind = rng.choice(["flag", "flag", "keyword", "hdr1", "header", "body", "text", "idate", "sdate",
                       "size", "set", "uid", "all"])
    if kind == "all":
        k = ("all",)
    elif kind == "flag":
        k = ("flag", rng.choice(FLAGKEYS))
    elif kind == "keyword":
        present = sorted({f for m in msgs for f in m["flags"] if not f.startswith("\\")})
        pool = KEYWORDS + present + ["absentkw"] + RESERVED
        k = (rng.choice(["keyword", "unkeyword"]), rng.choice(pool))
    elif kind == "hdr1":
        f = rng.choice(HDR1)
        k = ("hdr1", f, needle(rng, msgs, metas, f))
    elif kind == "header":
        # not content-type: the email package re-renders structured MIME headers (boundary=zz -> boundary="zz"),
        # which is outside the model (see trusted base)
        f = rng.choice(["subject", "x-tag", "received", "date", "from", "to", "cc", "mime-version", "x-none"])
        k = ("header", flip(rng, f), needle(rng, msgs, metas, f))
    elif kind == "body":
        k = ("body", needle(rng, msgs, metas, "body"))
    elif kind == "text":
        k = ("text", needle(rng, msgs, metas, rng.choice(["text", "body", "subject"])))
    elif kind == "idate":
        days = [m["iday"] for m in msgs] or [D0.toordinal()]
        d = rng.choice(days) + rng.choice([-1, 0, 0, 1])
        if rng.random() < 0.1:
            d = rng.choice([dt.date(1999, 12, 31).toordinal(), dt.date(2031, 2, 28).toordinal()])
        k = ("date", rng.choice(["before", "on", "since"]), d)
    elif kind == "sdate":
        days = [m["sent"] for m in msgs if m["sent"] is not None] or [D0.toordinal()]
        d = rng.choice(days) + rng.choice([-1, 0, 0, 1])
        k = ("date", rng.choice(["sentbefore", "senton", "sentsince"]), d)
    elif kind == "size":
        sizes = [m["size"] for m in msgs] or [100]
        v = max(0, rng.choice(sizes) + rng.choice([-1, 0, 0, 1]))
        if rng.random() < 0.1:
            v = rng.choice([0, 1, 10 ** 7])
        k = ("size", rng.choice(["larger", "smaller"]), v)
    elif kind == "set":
        k = ("set", gen_set(rng, n, []))
    else:
        uids = [m["uid"] for m in msgs]
        top = uids[-1] if uids else 1
        k = ("uid", gen_set(rng, top, uids[:]))
    stats[k[0] if k[0] not in ("flag", "date", "size") else k[1]] = stats.get(
        k[0] if k[0] not in ("flag", "date", "size") else k[1], 0) + 1
    return k


def gen_key(rng, msgs, metas, depth, stats):
    if depth <= 1 or rng.random() < 0.2:
        return gen_leaf(rng, msgs, metas, stats)
    c = rng.choice(["not", "or", "paren", "not", "or"])
    stats[c] = stats.get(c, 0) + 1
    if c == "not":
        return ("not", gen_key(rng, msgs, metas, depth - 1, stats))
    if c == "or":
        return ("or", gen_key(rng, msgs, metas, depth - 1, stats), gen_key(rng, msgs, metas, depth - 1, stats))
    return ("paren", [gen_key(rng, msgs, metas, depth - 1, stats) for _ in range(rng.choice([1, 2, 3]))])


def key_depth(k):
    if k[0] == "not":
        return 1 + key_depth(k[1])
    if k[0] == "or":
        return 1 + max(key_depth(k[1]), key_depth(k[2]))
    if k[0] == "paren":
        return 1 + max([key_depth(x) for x in k[1]] + [0])
    return 1


def key_size(k):
    if k[0] == "not":
        return 1 + key_size(k[1])
    if k[0] == "or":
        return 1 + key_size(k[1]) + key_size(k[2])
    if k[0] == "paren":
        return 1 + sum(key_size(x) for x in k[1])
    return 1


ATOM_OK = re.compile(r'^[A-Za-z0-9.@$_<>,=/!#&\'+;?^`|~-]+$')


def render_str(rng, s, forms):
    if s and ATOM_OK.match(s) and rng.random() < 0.5:
        forms["atom"] = forms.get("atom", 0) + 1
        return s
    if rng.random() < 0.8:
        forms["quoted"] = forms.get("quoted", 0) + 1
        return '"' + s + '"'
    forms["literal"] = forms.get("literal", 0) + 1
    return f"{{{len(s)}}}\r\n{s}"


def set_text(s):
    def a(x):
        return str(x)

    return ",".join((f"{a(e[0])}:{a(e[1])}" if isinstance(e, tuple) else a(e)) for e in s)


def render_key(rng, k, forms):
    kw = lambda x: flip(rng, x)  # noqa: E731  search key atoms are case-insensitive
    t = k[0]
    if t == "all":
        return kw("all")
    if t == "flag":
        return kw(k[1])
    if t in ("keyword", "unkeyword"):
        return f"{kw(t)} {k[1]}"
    if t == "hdr1":
        return f"{kw(k[1])} {render_str(rng, k[2], forms)}"
    if t == "header":
        return f"{kw('header')} {render_str(rng, k[1], forms)} {render_str(rng, k[2], forms)}"
    if t in ("body", "text"):
        return f"{kw(t)} {render_str(rng, k[1], forms)}"
    if t == "date":
        d = dt.date.fromordinal(k[2])
        txt = (f"{d.day:02d}" if rng.random() < 0.3 else str(d.day)) + f"-{flip(rng, MONTHS[d.month - 1])}-{d.year}"
        if rng.random() < 0.3:
            txt = '"' + txt + '"'
        return f"{kw(k[1])} {txt}"
    if t == "size":
        return f"{kw(k[1])} {k[2]}"
    if t == "set":
        return set_text(k[1])
    if t == "uid":
        return f"{kw('uid')} {set_text(k[1])}"
    if t == "not":
        return f"{kw('not')} {render_key(rng, k[1], forms)}"
    if t == "or":
        return f"{kw('or')} {render_key(rng, k[1], forms)} {render_key(rng, k[2], forms)}"
    if t == "paren":
        return "(" + " ".join(render_key(rng, x, forms) for x in k[1]) + ")"
    raise ValueError(t)


FLAGCON = {"answered": "SAnswered", "deleted": "SDeleted", "draft": "SDraft", "flagged": "SFlagged",
           "recent": "SRecent", "seen": "SSeen", "new": "SNew", "old": "SOld", "unanswered": "SUnanswered",
           "undeleted": "SUndeleted", "undraft": "SUndraft", "unflagged": "SUnflagged", "unseen": "SUnseen"}
HDRCON = {"bcc": "SBcc", "cc": "SCc", "from": "SFrom", "subject": "SSubject", "to": "STo"}
DATECON = {"before": "SBefore", "on": "SOn", "since": "SSince", "sentbefore": "SSentBefore", "senton": "SSentOn",
           "sentsince": "SSentSince"}


def c_atom(a):
    return "AStar" if a == "*" else f"(ANum {cz(a)})"


def c_set(s):
    return clist([("EStar" if e == "*" else f"(ERange {c_atom(e[0])} {c_atom(e[1])})" if isinstance(e, tuple)
                   else f"(ENum {cz(e)})") for e in s])


def bz(s) -> str:
    return cbytes(s.encode("latin-1") if isinstance(s, str) else s)


def c_key(k):
    t = k[0]
    if t == "all":
        return "SAll"
    if t == "flag":
        return FLAGCON[k[1]]
    if t == "keyword":
        return f"(SKeyword {cstr(k[1])})"
    if t == "unkeyword":
        return f"(SUnkeyword {cstr(k[1])})"
    if t == "hdr1":
        return f"({HDRCON[k[1]]} {bz(k[2])})"
    if t == "header":
        return f"(SHeader {bz(k[1])} {bz(k[2])})"
    if t == "body":
        return f"(SBody {bz(k[1])})"
    if t == "text":
        return f"(SText {bz(k[1])})"
    if t == "date":
        return f"({DATECON[k[1]]} {cz(k[2])})"
    if t == "size":
        return f"({'SLarger' if k[1] == 'larger' else 'SSmaller'} {cz(k[2])})"
    if t == "set":
        return f"(SMsgSet {c_set(k[1])})"
    if t == "uid":
        return f"(SUid {c_set(k[1])})"
    if t == "not":
        return f"(SNot {c_key(k[1])})"
    if t == "or":
        return f"(SOr {c_key(k[1])} {c_key(k[2])})"
    if t == "paren":
        return f"(SParen {clist([c_key(x) for x in k[1]])})"
    raise ValueError(t)


def c_msg(m):
    sent = "None" if m["sent"] is None else f"(Some {cz(m['sent'])})"
    hd = clist([f"({bz(k)}, {bz(v)})" for k, v in m["hdrs"]])
    return (f"({cz(m['uid'])}, {clist([cstr(f) for f in m['flags']])}, {cz(m['size'])}, {cz(m['iday'])}, {sent}, "
            f"{hd}, {bz(m['text'])}, {bz(m['body'])})")


CASE_DEFS = """
From Asimap Require Import Base.Res Gen.Flags Spec.SetSem Spec.SearchSem Model.SearchM.
Open Scope Z_scope.
Definition raw := (Z * list string * Z * Z * option Z * list (bstr * bstr) * bstr * bstr)%type.
(* the state behind what FETCH showed: the MH sequences are the names flag_to_seq gives the flags *)
Definition mk (r : raw) : msg :=
  let '(uid, flags, size, iday, sent, hdrs, text, body) := r in
  {| m_uid := uid; m_seqs := map flag_to_seq flags; m_size := size; m_iday := iday; m_date := sent;
     m_hdrs := hdrs; m_text := text; m_body := body |}.
(* what FETCH showed, as the specification sees it *)
Definition fk (r : raw) : fmsg :=
  let '(uid, flags, size, iday, sent, hdrs, text, body) := r in
  {| f_uid := uid; f_flags := flags; f_size := size; f_iday := iday; f_sent := sent;
     f_hdrs := hdrs; f_text := text; f_body := body |}.
Fixpoint zlist_eqb (a b : list Z) : bool :=
  match a, b with [], [] => true | x :: a', y :: b' => (x =? y) && zlist_eqb a' b' | _, _ => false end.
Definition case := (list raw * prog * bool * list Z)%type.
Definition model_of (c : case) : list Z := let '(mb, p, u, _) := c in search_all p (map mk mb) u.
Definition spec_of (c : case) : list Z :=
  let '(mb, p, u, _) := c in if u then sem_uid_search p (map fk mb) else sem_search p (map fk mb).
Definition obs_of (c : case) : list Z := let '(_, _, _, o) := c in o.
Fixpoint bad_from (f : case -> list Z) (i : nat) (cs : list case) : list nat :=
  match cs with [] => [] | c :: r => if zlist_eqb (f c) (obs_of c) then bad_from f (S i) r else i :: bad_from f (S i) r end.
"""

CHUNK = 350


def coq_check(ctx, name, mailboxes, cases):
    """cases: (mailbox index, key list, uid, observed).  -> (model_bad, spec_bad) global indices"""
    chunks = [cases[i:i + CHUNK] for i in range(0, len(cases), CHUNK)]
    texts = []
    for ch in chunks:
        used = sorted({c[0] for c in ch})
        t = CASE_DEFS
        for b in used:
            t += f"Definition mb{b} : list raw := {clist([c_msg(m) for m in mailboxes[b]])}.\n"
        t += "Definition cases : list case := " + clist(
            [f"(mb{c[0]}, {clist([c_key(k) for k in c[1]])}, {cbool(c[2])}, {clist([cz(x) for x in c[3]])})"
             for c in ch]) + ".\n"
        t += "Eval vm_compute in (bad_from model_of 0 cases).\nEval vm_compute in (bad_from spec_of 0 cases).\n"
        texts.append(t)
    outs = ctx.coq.eval_many(name, texts)
    mbad, sbad = [], []
    for j, out in enumerate(outs):
        vals = core.parse_coq_values(out)
        if len(vals) != 2:
            raise core.CoqError(name, "unexpected output of the cases file: " + out[:500])
        mbad += [j * CHUNK + int(x) for x in re.findall(r"\d+", vals[0])]
        sbad += [j * CHUNK + int(x) for x in re.findall(r"\d+", vals[1])]
    return mbad, sbad


def coq_expected(ctx, name, mailboxes, case):
    """what model and denotation say for one case (for the replay file)"""
    b, keys, uid, obs = case
    t = CASE_DEFS + f"Definition mb : list raw := {clist([c_msg(m) for m in mailboxes[b]])}.\n"
    t += (f"Definition c : case := (mb, {clist([c_key(k) for k in keys])}, {cbool(uid)}, "
          f"{clist([cz(x) for x in obs])}).\n")
    t += "Eval vm_compute in (model_of c).\nEval vm_compute in (spec_of c).\n"
    vals = core.parse_coq_values(ctx.coq.eval_cases(name, t))
    return [[int(x) for x in re.findall(r"\d+", v)] for v in vals]


# ------------------------------------------------------------------ running searches
def do_search(w, sess, text, uid):
    """-> ('ok', [numbers]) | ('bad'|'no', reply) | ('broken', what)"""
    try:
        out = w.cmd(sess, f"s {'UID ' if uid else ''}SEARCH {text}")
    except Exception as e:  # noqa: BLE001  the command handler let an exception escape
        return ("broken", f"exception escaped: {e!r}")
    t = tagged(out)
    res = [W.classify(o) for o in out]
    srch = [c for c in res if c[0] == "search"]
    other = [o for o, c in zip(out, res) if c[0] not in ("search", "tagged")]
    if t is None or sum(1 for c in res if c[0] == "tagged") != 1:
        return ("broken", f"not exactly one tagged reply: {out!r}")
    if t[2] == "OK":
        if len(srch) != 1 or other:
            return ("broken", f"OK without exactly one SEARCH line: {out!r}")
        return ("ok", srch[0][1])
    if srch:
        return ("broken", f"{t[2]} together with a SEARCH line: {out!r}")
    return (t[2].lower(), repr(out))


def stable(m):
    return {k: m[k] for k in ("uid", "flags", "size", "idate", "text", "body")}


def jsonable_msgs(msgs):
    return [{"uid": m["uid"], "flags": m["flags"], "size": m["size"], "internaldate": m["idate"],
             "sent_day": m["sent"], "body[]": m["text"].decode("latin-1")} for m in msgs]


def viol(ctx, what, replay):
    """at most three replays per kind of violation, so that one defect does not hide the others"""
    seen = ctx.extra.setdefault("violations_by_kind", {})
    seen[what] = seen.get(what, 0) + 1
    if seen[what] <= 3:
        ctx.violation(what, replay)


def explore(ctx, sizes, nprog):
    rng = ctx.rng
    mailboxes, setups, cases, texts = [], [], [], []
    stats, forms, depths, outcome = {}, {}, {}, {"empty": 0, "all": 0, "proper": 0}
    meta_n = {"not_not": 0, "or_comm": 0, "and_inter": 0, "not_complement": 0, "or_union": 0, "uid_map": 0,
              "paren": 0, "new_old_un": 0}
    for ix, n in enumerate(sizes):
        ops, metas = gen_setup(rng, n, gap=(ix % 2 == 1))
        try:
            w = run_setup(ops)
        except Exception as e:  # noqa: BLE001
            ctx.violation("building the mailbox failed", {"setup": ops, "error": repr(e)})
            continue
        try:
            msgs = observe(w)
            b = len(mailboxes)
            mailboxes.append(msgs)
            setups.append(ops)
            allpos = list(range(1, len(msgs) + 1))
            uids = [m["uid"] for m in msgs]

            last = {}

            def ask(keys, uid, sess=None, record=True):
                text = " ".join(render_key(rng, k, forms) for k in keys)
                last["text"] = ("UID " if uid else "") + "SEARCH " + text
                st, val = do_search(w, sess or rng.choice(["A", "B"]), text, uid)
                if st != "ok":
                    viol(ctx, "a search program of the RFC 3501 grammar was not answered with its result",
                                  {"setup": ops, "mailbox": jsonable_msgs(msgs),
                                   "search": ("UID " if uid else "") + "SEARCH " + text, "reply": val,
                                   "status": st})
                    return None
                if record:
                    cases.append((b, keys, uid, val))
                    texts.append(("UID " if uid else "") + "SEARCH " + text)
                    d = max(key_depth(k) for k in keys)
                    depths[d] = depths.get(d, 0) + 1
                    cls = "empty" if not val else "all" if len(val) == len(msgs) else "proper"
                    outcome[cls] += 1
                    ctx.count({"mailbox": b, "search": texts[-1]}, nontrivial=(cls == "proper"))
                return val

            # one program per key kind first, so every key is exercised on every mailbox
            sweep = ([[("flag", f)] for f in FLAGCON] + [[("keyword", "kw1")], [("unkeyword", "kw1")]]
                     + [[("hdr1", f, needle(rng, msgs, metas, f))] for f in HDR1]
                     + [[("header", "X-Tag", needle(rng, msgs, metas, "x-tag"))],
                        [("header", "received", needle(rng, msgs, metas, "received"))],
                        [("body", needle(rng, msgs, metas, "body"))], [("text", needle(rng, msgs, metas, "text"))]]
                     + [[("date", o, (msgs[0]["iday"] if msgs else D0.toordinal()))] for o in ("before", "on", "since")]
                     + [[("date", o, next((m["sent"] for m in msgs if m["sent"]), D0.toordinal()))]
                        for o in ("sentbefore", "senton", "sentsince")]
                     + [[("size", o, (msgs[-1]["size"] if msgs else 10))] for o in ("larger", "smaller")]
                     + [[("set", gen_set(rng, len(msgs), []))], [("uid", gen_set(rng, uids[-1] if uids else 1, uids[:]))],
                        [("set", ["*"])], [("set", [("*", 1)])], [("set", [(max(1, len(msgs) - 1), "*")])],
                        [("uid", ["*"])], [("uid", [(uids[-1] if uids else 1, "*")])], [("uid", [("*", 1)])],
                        [("uid", [len(msgs) + 1])], [("all",)]])
            # (keys of the sweep are counted below; nested keys of corpus programs only by their head)
            if n == "corpus":
                sweep = CORPUS_PROGRAMS + sweep
            for keys in sweep:
                for k in keys:
                    k = k[1] if k[0] == "not" else k
                    kk = k[0] if k[0] not in ("flag", "date", "size") else k[1]
                    stats[kk] = stats.get(kk, 0) + 1
                ask(keys, rng.random() < 0.3)
            for _ in range(nprog):
                keys = [gen_key(rng, msgs, metas, rng.choice([1, 2, 3, 3, 4, 4]), stats)
                        for _ in range(rng.choice([1, 1, 2, 3]))]
                ask(keys, rng.random() < 0.4)

            # ---- metamorphic laws on the implementation itself
            def law(name, lkeys, luid, rhs, detail):
                """rhs: a list (computed from other answers) or (keys, uid) for a second search"""
                meta_n[name] += 1
                lhs = ask(lkeys, luid, record=False)
                ltext = last["text"]
                rtext = None
                if isinstance(rhs, tuple):
                    rhs = ask(rhs[0], rhs[1], record=False)
                    rtext = last["text"]
                if lhs is None or rhs is None:
                    return
                if lhs != rhs:
                    viol(ctx, f"the implementation breaks a law of the search algebra: {name}",
                         dict(detail, setup=ops, mailbox=jsonable_msgs(msgs), left_search=ltext, left=lhs,
                              right_search=rtext, right=rhs, replay="./check C14 --replay <this file>"))

            for _ in range(max(3, nprog // 6)):
                k1 = gen_key(rng, msgs, metas, rng.choice([1, 2, 3]), {})
                k2 = gen_key(rng, msgs, metas, rng.choice([1, 2, 3]), {})
                r1 = ask([k1], False, record=False)
                r2 = ask([k2], False, record=False)
                if r1 is None or r2 is None:
                    continue
                d = {"k1": render_key(rng, k1, {}), "k2": render_key(rng, k2, {})}
                law("not_not", [("not", ("not", k1))], False, r1, d)
                law("or_comm", [("or", k1, k2)], False, ([("or", k2, k1)], False), d)
                law("and_inter", [k1, k2], False, sorted(set(r1) & set(r2)), d)
                law("not_complement", [("not", k1)], False, sorted(set(allpos) - set(r1)), d)
                law("or_union", [("or", k1, k2)], False, sorted(set(r1) | set(r2)), d)
                law("paren", [("paren", [k1, k2])], False, sorted(set(r1) & set(r2)), d)
                law("uid_map", [k1], True, [uids[i - 1] for i in r1], d)
            for un, pos in (("new", None), ("old", "recent"), ("unanswered", "answered"), ("undeleted", "deleted"),
                            ("undraft", "draft"), ("unflagged", "flagged"), ("unseen", "seen")):
                if un == "new":
                    rhs = ([("flag", "recent"), ("flag", "unseen")], False)
                else:
                    rhs = ([("not", ("flag", pos))], False)
                law("new_old_un", [("flag", un)], False, rhs, {"key": un})

            # ---- malformed programs: refused, never answered with matches
            for bad in ["FOO", "OR SEEN", "(SEEN", "LARGER x", "HEADER x", "KEYWORD", "NOT", "1:", "UID",
                        "BEFORE 1-Foo-2020", "SINCE 1-Jan-20", "OR (SEEN)", "SMALLER -1", "UNKEYWORD (x)", "HEADER (a) b",
                        "SENTON 2024-01-03", "NOT NOT", "UID 1:x SEEN"]:
                try:
                    st, val = do_search(w, "B", bad, False)
                except Exception as e:  # noqa: BLE001
                    st, val = "broken", repr(e)
                stats["malformed"] = stats.get("malformed", 0) + 1
                if st == "ok":
                    viol(ctx, "a malformed search program was answered with a result",
                                  {"search": "SEARCH " + bad, "result": val})
                elif st == "broken":
                    viol(ctx, "a malformed search program was not refused in an orderly way",
                                  {"search": "SEARCH " + bad, "what": val})

            # ---- searching changed nothing that FETCH shows (e.g. \Recent is not consumed by SEARCH RECENT)
            after = observe(w)
            if [stable(m) for m in after] != [stable(m) for m in msgs]:
                ctx.violation("SEARCH changed what FETCH shows of the mailbox",
                              {"setup": ops, "before": jsonable_msgs(msgs), "after": jsonable_msgs(after)})
        except Exception as e:  # noqa: BLE001
            ctx.violation("the harness could not observe the mailbox through FETCH",
                          {"setup": ops, "error": repr(e)})
        finally:
            w.close()

    mbad, sbad = coq_check(ctx, "c14", mailboxes, cases)
    shown = 0
    # smallest programs first: they point at the key that is evaluated wrongly
    for i in sorted(set(mbad) | set(sbad), key=lambda j: (sum(key_size(k) for k in cases[j][1]), j)):
        if shown >= 5:
            break
        shown += 1
        b, keys, uid, obs = cases[i]
        try:
            exp = coq_expected(ctx, "c14e", mailboxes, cases[i])
        except core.CoqError:
            exp = [None, None]
        what = ("SEARCH answered with other messages than satisfy the program (RFC 3501 denotation over what FETCH shows)"
                if i in sbad else
                "model of the search evaluator (proved) and implementation disagree")
        ctx.violation(what, {"setup": setups[b], "mailbox": jsonable_msgs(mailboxes[b]), "search": texts[i],
                             "observed": obs, "model": exp[0], "denotation": exp[1],
                             "disagrees_with": [x for x, l in (("model", mbad), ("denotation", sbad)) if i in l],
                             "replay": "./check C14 --replay <this file>"})
    if len(set(mbad) | set(sbad)) > shown:
        ctx.extra["further_mismatches"] = len(set(mbad) | set(sbad)) - shown
    ctx.coverage["traces_validated_against_impl"] = len(cases) - len(set(mbad) | set(sbad))
    ctx.extra["mailboxes"] = {"count": len(mailboxes),
                              "sizes": {str(k): sum(1 for m in mailboxes if len(m) == k) for k in range(0, 10)},
                              "with_uid_gap": sum(1 for m in mailboxes
                                                  if m and [x["uid"] for x in m] != list(range(1, len(m) + 1))),
                              "messages_recent": sum(1 for m in mailboxes for x in m if "\\Recent" in x["flags"]),
                              "messages_without_date_header": sum(1 for m in mailboxes for x in m if x["sent"] is None),
                              "messages": sum(len(m) for m in mailboxes)}
    ctx.extra["search_cases"] = len(cases)
    ctx.extra["uid_search_cases"] = sum(1 for c in cases if c[2])
    ctx.extra["key_histogram"] = dict(sorted(stats.items()))
    ctx.extra["program_depth"] = {str(k): v for k, v in sorted(depths.items())}
    ctx.extra["string_forms"] = forms
    ctx.extra["result_classes"] = outcome
    ctx.extra["metamorphic_checks"] = meta_n


def run(ctx):
    ctx.coverage["rule"] = ("mailboxes of 0-8 generated messages built through APPEND/STORE/EXPUNGE/FETCH/MH delivery; "
                            "per mailbox one program for every RFC 3501 search key, then random programs of 1-3 keys "
                            "with nesting depth <= 4 (NOT/OR/lists, sets, UID sets, dates and sizes at the boundaries, "
                            "strings that do and do not occur, mixed case, atom/quoted/literal), as SEARCH and UID "
                            "SEARCH; distinct = distinct (mailbox, command text); non-trivial = the answer is a proper "
                            "non-empty subset of the mailbox")
    ok = ctx.prove("Properties/C14.v")
    if ctx.thorough:
        global LONG_SUBJECTS
        LONG_SUBJECTS = True
        sizes = ["corpus"] + [0, 1, 2, 3, 4, 5, 6, 7, 8] * 8 + [ctx.rng.randint(2, 8) for _ in range(48)]
        nprog = 60
    else:
        sizes = ["corpus", 0, 1, 2, 3, 4, 5, 6, 8]
        nprog = 30
    if not ok:
        ctx.extra["note"] = "proof closure does not build; the correspondence still runs if Model/SearchM.vo builds"
        try:
            ctx.coq.build(["Model/SearchM.vo"])
        except core.CoqError:
            return
    explore(ctx, sizes, nprog)
    ctx.trusted += [
        "modelled, not verified: Python's email package (parsing a file into header fields and parts, header value "
        "decoding, msg_as_string rendering, parsedate) — the model takes header fields, BODY[] and BODY[TEXT] from "
        "the server's own FETCH answers; the harness' unfolding of header lines and its reading of Date: fields",
        "str.lower() is modelled as ASCII case folding (generated messages and search strings are ASCII)",
        "_match_body evaluates the same containment once per non-multipart part; every message the email parser "
        "produces has at least one, the model evaluates it once",
    ]
    ctx.assume += ["sequence sets and strings reach IMAPSearch in the representation parse.py produces (C08 covers "
                   "the lexical level; the programs sent are in the RFC grammar)",
                   "CHARSET is not exercised (US-ASCII search strings)",
                   "a keyword is compared by exact spelling (DESIGN Appendix C.2)"]


def replay(ctx, path):
    r = json.load(open(path))
    if "setup" not in r or not (r.get("search") or r.get("left_search")):
        print(json.dumps(r, indent=1)[:4000])
        return 0
    w = run_setup(r["setup"])
    try:
        def again(cmd):
            uid = cmd.startswith("UID ")
            st, val = do_search(w, "B", cmd.split("SEARCH ", 1)[1], uid)
            print(f"search   : {cmd!r}\nobserved : {st} {val}")
            return val if st == "ok" else None

        if r.get("left_search"):
            left = again(r["left_search"])
            right = again(r["right_search"]) if r.get("right_search") else r["right"]
            print(f"law      : must equal {right}")
            return 0 if (left is not None and left == right) else 1
        val = again(r["search"])
        exp = r.get("denotation")
        print(f"expected : {exp if exp is not None else 'an OK with a SEARCH line'}")
        if val is None:
            return 1
        return 0 if (exp is None or val == exp) else 1
    finally:
        w.close()
