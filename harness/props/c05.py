"""C05 — only the addressed messages are removed, copied or moved.

Proof:  coq/Properties/C05.v (expunge removes exactly the selected messages; adding is exact; nothing
        else ever disappears; EXAMINE sessions change nothing)
Tie:    X on Model/Mbox.v (every response incl. EXPUNGE numbers, COPYUID/APPENDUID, refusals) and an
        exactness oracle over white-box snapshots before/after every command.
"""
import json

import core
import mboxx
from props.c01 import report_diffs, _mix

MIX = {"expunge": 14, "store": 14, "copy": 9, "move": 8, "close": 5, "append": 8, "select": 9, "fetch": 6, "noop": 4,
       "deliver": 3, "poll": 2, "search": 2, "idle": 1, "check": 1, "unselect": 2}


def uid_expunge_after_reuse(ctx):
    """message numbers and UIDs drift apart (the top message is expunged, new mail reuses its number with a fresh UID); then
    several messages are \\Deleted and UID EXPUNGE names only some of them: exactly the \\Deleted messages in the UID set go"""
    import world as W
    n = 0
    for variant in range(4 if ctx.thorough else 2):
        w = W.World(seed=ctx.rng.randrange(1 << 30))
        try:
            w.session("A")
            base = 3 + variant
            w.deliver("inbox", base, unseen=True)
            w.cmd("A", "a SELECT inbox")
            w.cmd("A", f"a STORE {base - 1}:{base} +FLAGS.SILENT (\\Deleted)")
            w.cmd("A", "a EXPUNGE")                               # the two top numbers are free again
            w.deliver("inbox", 3, unseen=True)                    # ... and reused, with fresh UIDs
            w.cmd("A", "a NOOP")
            mb = w.server.active_mailboxes["inbox"]
            uids, keys = list(mb.uids), list(mb.msg_keys)
            marked = uids[-3:]                                    # UIDs that differ from their message numbers
            named = [marked[0], uids[0], marked[2] + 7] if variant % 2 == 0 else [marked[1]]
            w.cmd("A", "a UID STORE %s +FLAGS.SILENT (\\Deleted)" % ",".join(map(str, marked)))
            w.cmd("A", "a UID EXPUNGE %s" % ",".join(map(str, named)))
            w.cmd("A", "a NOOP")
            want = [u for u in uids if not (u in marked and u in named)]
            got = list(w.server.active_mailboxes["inbox"].uids)
            n += 1
            ctx.count({"uid_expunge_after_number_reuse": {"uids": uids, "numbers": keys, "deleted": marked, "named": named}},
                      nontrivial=True)
            if got != want:
                ctx.violation(f"UID EXPUNGE {named} with \\Deleted on UIDs {marked} (message numbers {keys} for UIDs {uids}): "
                              f"the mailbox holds UIDs {got} afterwards, expected {want}",
                              {"uids_before": uids, "message_numbers": keys, "deleted_uids": marked, "uid_expunge_set": named,
                               "uids_after": got, "expected": want})
        finally:
            w.close()
    ctx.extra["uid_expunge_after_reuse_cases"] = n


def run(ctx):
    ctx.coverage["rule"] = ("histories of 45/70 commands (1-3 sessions incl. EXAMINE sessions, two mailboxes, COPY/MOVE "
                            "also into the same mailbox) biased to \\Deleted stores, EXPUNGE, UID EXPUNGE with partly "
                            "non-existent UIDs and duplicates, CLOSE, COPY, MOVE; non-trivial = a UID EXPUNGE, MOVE or "
                            "EXAMINE-session command occurred with a non-empty mailbox. Plus: UID EXPUNGE of part of the \\Deleted messages after "
                            "message numbers and UIDs have drifted apart (top messages expunged, numbers reused)")
    ok = ctx.prove("Properties/C05.v")
    n = 400 if ctx.thorough else 64
    hs = mboxx.generate(ctx, n, 70 if ctx.thorough else 45, mix=MIX, pack=(4, 4, 5))
    for h in [h for h in hs if h.error][:3]:
        ctx.violation("the implementation raised while running a history",
                      {"seed": h.seed, "ops": [repr(o) for o in h.ops], "error": h.error})
    hs = [h for h in hs if not h.error]
    for h in hs:
        nt = any((o[0] == "expunge" and o[2] is not None) or o[0] == "move" or (o[0] == "select" and o[3]) for o in h.ops)
        ctx.count({"sessions": h.nsess, "ops": [repr(o) for o in h.ops[:12]] + ["..."], "n_ops": len(h.ops), "seed": h.seed},
                  nontrivial=nt)
        for (k, d) in (mboxx.exact_oracle(h) + mboxx.uid_oracle(h))[:1]:
            ctx.violation("exactness violated on the implementation: " + d,
                          {"seed": h.seed, "step": k, "ops_up_to_step": [repr(o) for o in h.ops[:k + 1]],
                           "before": h.snaps[k][0]["boxes"] if h.snaps[k][0] else None,
                           "after": h.snaps[k][1]["boxes"] if h.snaps[k][1] else None})
    uid_expunge_after_reuse(ctx)
    ctx.coq.build(["Model/MboxCmp.vo"])
    bad, _ = mboxx.compare(ctx, "c05", hs)
    report_diffs(ctx, "C05", hs, bad, "model (proved) and implementation disagree (removed / copied messages, response codes)")
    ctx.coverage["traces_validated_against_impl"] = len(hs) - len({i for i, _ in bad})
    ctx.extra.update({"histories": len(hs), "op_mix": _mix(hs)})


def replay(ctx, path):
    print(json.dumps(json.load(open(path)), indent=1)[:4000])
    return 0
