"""C20 — a POP3 session is a stable snapshot and deletes only on QUIT.

Proof:  coq/Properties/C20.v — stuffing/framing for every byte string over the GENERATED dot_stuff
        (Gen/DotStuff.v), snapshot stability / exact QUIT / RSET / drop / announced size over all
        event sequences of Model/Pop3M.v.
Tie:    G  dot_stuff is translated from asimap/pop3_client.py on every run (and compared with the
           Python function on random byte strings here);
        X  the real POP3ClientProxy.run / POP3CommandHandler are driven in-process through a fake
           stream pair on generated command sequences, interleaved with IMAP APPEND / STORE /
           EXPUNGE on INBOX, MH deliveries and folder packs; every POP3 reply is compared with the
           model's (inside Coq, vm_compute); the property's own oracle runs on the real replies.
"""
from __future__ import annotations

import asyncio
import io
import json
import re

import core
from core import cz, clist
import world as W

# ----------------------------------------------------------------------------- Coq side
DEFS = """
From Asimap Require Import Base.Res Base.Bytes Gen.DotStuff Spec.Pop3Spec Model.Pop3M.
Open Scope Z_scope.
Open Scope list_scope.
Fixpoint zl_eqb (a b : list Z) : bool :=
  match a, b with [], [] => true | x :: a', y :: b' => (x =? y) && zl_eqb a' b' | _, _ => false end.
Fixpoint zz_eqb (a b : list (Z * Z)) : bool :=
  match a, b with
  | [], [] => true
  | (x1, x2) :: a', (y1, y2) :: b' => (x1 =? y1) && (x2 =? y2) && zz_eqb a' b'
  | _, _ => false
  end.
Definition reply_eqb (a b : reply) : bool :=
  match a, b with
  | RStat c t, RStat c' t' => (c =? c') && (t =? t')
  | RListAll c t r, RListAll c' t' r' => (c =? c') && (t =? t') && zz_eqb r r'
  | RListOne n s, RListOne n' s' => (n =? n') && (s =? s')
  | RUidlAll r, RUidlAll r' => zz_eqb r r'
  | RUidlOne n u, RUidlOne n' u' => (n =? n') && (u =? u')
  | RRetr n s w, RRetr n' s' w' => (n =? n') && (s =? s') && zl_eqb w w'
  | RTop n w, RTop n' w' => (n =? n') && zl_eqb w w'
  | RDeleted n, RDeleted n' => n =? n'
  | ROk, ROk | RBye, RBye | RCapa, RCapa | RNoSuch, RNoSuch | RNotAvail, RNotAvail => true
  | RTopUsage, RTopUsage | RTopLines, RTopLines | RUnknown, RUnknown | RNone, RNone => true
  | RAppended u, RAppended u' => u =? u'
  | RInbox m, RInbox m' => zz_eqb m m'
  | _, _ => false
  end.
Fixpoint diff_from (i : nat) (a b : list reply) : list nat :=
  match a, b with
  | [], [] => []
  | x :: a', y :: b' => if reply_eqb x y then diff_from (S i) a' b' else i :: diff_from (S i) a' b'
  | _, _ => [i]
  end.
Definition mk (raw hdr body : list Z) : content := {| c_raw := raw; c_hdr := hdr; c_body := body |}.
Definition check (h : list ev * list reply) : list nat :=
  diff_from 0 (snd (run true init_world (fst h))) (snd h).
Definition oeqb (a b : option (list Z)) : bool :=
  match a, b with None, None => true | Some x, Some y => zl_eqb x y | _, _ => false end.
(* (data, python dot_stuff(data)) *)
Definition ds_check (c : list Z * list Z) : bool :=
  match dot_stuff (fst c) with Ok p => zl_eqb p (snd c) | Err _ => false end.
(* (wire, what the harness' client reads from it) against the client of the specification *)
Definition rc_check (c : list Z * option (list Z)) : bool := oeqb (receive (fst c)) (snd c).
(* (payload, python end_multiline(payload)) *)
Definition em_check (c : list Z * list Z) : bool :=
  zl_eqb (Pop3M.end_multiline (fst c)) (snd c) &&
  match Asimap.Gen.DotStuff.end_multiline (fst c) with Ok p => zl_eqb p (snd c) | Err _ => false end.
Fixpoint bad_from {A} (f : A -> bool) (i : nat) (cs : list A) : list nat :=
  match cs with [] => [] | c :: r => if f c then bad_from f (S i) r else i :: bad_from f (S i) r end.
"""


def cb(b: bytes) -> str:
    return "[" + ";".join(str(x) for x in b) + "]"


def copt(x, f):
    return "None" if x is None else f"(Some {f(x)})"


def c_rows(rows):
    return clist([f"({cz(a)}, {cz(b)})" for a, b in rows])


def c_reply(r) -> str:
    k = r[0]
    if k == "stat":
        return f"(RStat {cz(r[1])} {cz(r[2])})"
    if k == "listall":
        return f"(RListAll {cz(r[1])} {cz(r[2])} {c_rows(r[3])})"
    if k == "listone":
        return f"(RListOne {cz(r[1])} {cz(r[2])})"
    if k == "uidlall":
        return f"(RUidlAll {c_rows(r[1])})"
    if k == "uidlone":
        return f"(RUidlOne {cz(r[1])} {cz(r[2])})"
    if k == "retr":
        return f"(RRetr {cz(r[1])} {cz(r[2])} {cb(r[3])})"
    if k == "top":
        return f"(RTop {cz(r[1])} {cb(r[2])})"
    if k == "deleted":
        return f"(RDeleted {cz(r[1])})"
    if k == "appended":
        return f"(RAppended {cz(r[1])})"
    if k == "inbox":
        return f"(RInbox {c_rows(r[1])})"
    simple = {"ok": "ROk", "bye": "RBye", "capa": "RCapa", "nosuch": "RNoSuch", "notavail": "RNotAvail",
              "topusage": "RTopUsage", "toplines": "RTopLines", "unknown": "RUnknown", "none": "RNone"}
    if k in simple:
        return simple[k]
    return "(RAppended (-1))"  # an unrecognised reply never equals a model reply


def c_oz(x):
    return copt(x, cz)


def c_cmd(c) -> str:
    k = c[0]
    if k in ("list", "uidl"):
        a = "None" if c[1] == "noarg" else f"(Some {c_oz(c[1])})"
        return f"({'PList' if k == 'list' else 'PUidl'} {a})"
    if k in ("retr", "dele"):
        return f"({'PRetr' if k == 'retr' else 'PDele'} {c_oz(c[1])})"
    if k == "top":
        return f"(PTop {clist([c_oz(t) for t in c[1]])})"
    return {"stat": "PStat", "noop": "PNoop", "rset": "PRset", "quit": "PQuit", "capa": "PCapa",
            "other": "POther"}[k]


def c_ev(e) -> str:
    k = e[0]
    if k == "open":
        return "EOpen"
    if k == "pop":
        return f"(EPop {c_cmd(e[1])})"
    if k == "drop":
        return "EDrop"
    if k == "append":
        raw, hdr, body = e[1]
        return f"(EAppend (mk {cb(raw)} {cb(hdr)} {cb(body)}))"
    if k == "expunge":
        return f"(EExpunge {clist([cz(u) for u in e[1]])})"
    if k == "pack":
        return "EPack"
    return "EObserve"


def parse_nat_lists(out):
    vals = core.parse_coq_values(out)
    return [[int(x) for x in re.findall(r"\d+", v.split(":")[0])] if v.strip("[] ") else [] for v in vals]


# ----------------------------------------------------------------------------- the client's side
def py_receive(wire: bytes):
    """what a POP3 client gets from the bytes after the status line (RFC 1939 s.3); None if
    the reply is not terminated by a line '.' with nothing after it"""
    lines = wire.split(b"\r\n")
    out = []
    for i, ln in enumerate(lines):
        if ln == b".":
            return b"".join(out) if lines[i + 1:] == [b""] else None
        out.append((ln[1:] if ln.startswith(b".") else ln) + b"\r\n")
    return None


def int_or_none(s: str):
    try:
        return int(s)
    except ValueError:
        return None


def model_cmd(line: str):
    """the model's view of a command line: keyword and the results of Python's int() on its
    arguments (int() is an oracle of the model)"""
    parts = line.strip().split(None, 1)
    if not parts:
        return ("other",)
    kw = parts[0].upper()
    args = parts[1].strip() if len(parts) > 1 else ""
    if kw in ("LIST", "UIDL"):
        return (kw.lower(), "noarg" if not args else int_or_none(args))
    if kw in ("RETR", "DELE"):
        return (kw.lower(), int_or_none(args))
    if kw == "TOP":
        return ("top", [int_or_none(t) for t in args.split()])
    if kw in ("STAT", "NOOP", "RSET", "QUIT", "CAPA"):
        return (kw.lower(),)
    return ("other",)


CAPA = b"+OK Capability list follows\r\nUSER\r\nUIDL\r\nTOP\r\nIMPLEMENTATION asimap\r\n.\r\n"
RE_ROWS = re.compile(rb"(?:\d+ \d+\r\n)*")


def rows_of(b: bytes):
    return [tuple(int(x) for x in ln.split()) for ln in b.split(b"\r\n") if ln]


def tokenize(cmd, raw: bytes):
    """strict: bytes of one reply -> reply tuple; ('raw', bytes) for anything unexpected"""
    k = cmd[0]
    fixed = {b"-ERR no such message\r\n": ("nosuch",), b"-ERR message not available\r\n": ("notavail",),
             b"-ERR usage: TOP msg n\r\n": ("topusage",), b"-ERR invalid number of lines\r\n": ("toplines",)}
    if raw in fixed:
        return fixed[raw]
    if k == "other":
        if re.fullmatch(rb"-ERR (unknown command: \S+|empty command)\r\n", raw):
            return ("unknown",)
    if k == "stat":
        m = re.fullmatch(rb"\+OK (\d+) (\d+)\r\n", raw)
        if m:
            return ("stat", int(m.group(1)), int(m.group(2)))
    if k == "list":
        m = re.fullmatch(rb"\+OK (\d+) messages \((\d+) octets\)\r\n((?:\d+ \d+\r\n)*)\.\r\n", raw)
        if m and cmd[1] == "noarg":
            return ("listall", int(m.group(1)), int(m.group(2)), rows_of(m.group(3)))
        m = re.fullmatch(rb"\+OK (\d+) (\d+)\r\n", raw)
        if m and cmd[1] != "noarg":
            return ("listone", int(m.group(1)), int(m.group(2)))
    if k == "uidl":
        m = re.fullmatch(rb"\+OK\r\n((?:\d+ \d+\r\n)*)\.\r\n", raw)
        if m and cmd[1] == "noarg":
            return ("uidlall", rows_of(m.group(1)))
        m = re.fullmatch(rb"\+OK (\d+) (\d+)\r\n", raw)
        if m and cmd[1] != "noarg":
            return ("uidlone", int(m.group(1)), int(m.group(2)))
    if k == "retr":
        m = re.match(rb"\+OK (\d+) octets\r\n", raw)
        if m and cmd[1] is not None:
            return ("retr", cmd[1], int(m.group(1)), raw[m.end():])
    if k == "top":
        if raw.startswith(b"+OK\r\n") and len(cmd[1]) == 2 and cmd[1][0] is not None:
            return ("top", cmd[1][0], raw[5:])
    if k == "dele":
        m = re.fullmatch(rb"\+OK message (\d+) deleted\r\n", raw)
        if m:
            return ("deleted", int(m.group(1)))
    if k in ("noop", "rset") and raw == b"+OK\r\n":
        return ("ok",)
    if k == "quit" and raw == b"+OK Bye\r\n":
        return ("bye",)
    if k == "capa" and raw == CAPA:
        return ("capa",)
    return ("raw", raw)


# ----------------------------------------------------------------------------- the real server
class FakeWriter:
    def __init__(self):
        self.out = []
        self.closing = False

    def write(self, d):
        self.out.append(bytes(d))

    def is_closing(self):
        return self.closing

    def close(self):
        self.closing = True

    async def wait_closed(self):
        return None

    async def drain(self):
        return None

    def get_extra_info(self, _name, default=None):
        return default

    def take(self):
        o = b"".join(self.out)
        self.out = []
        return o


def render(msg, render_headers=True) -> bytes:
    """generator._msg_as_bytes without its last step (the CRLF it adds when missing)"""
    from asimap.generator import ASBytesGenerator

    try:
        fp = io.BytesIO()
        ASBytesGenerator(fp, mangle_from_=False, render_headers=render_headers).flatten(msg)
    except UnicodeEncodeError:
        from email.policy import HTTP

        fp = io.BytesIO()
        ASBytesGenerator(fp, mangle_from_=False, render_headers=render_headers, policy=HTTP).flatten(msg)
    return fp.getvalue()


class Runner:
    """executes a script (list of JSON-able steps) on a fresh real server; records the model
    events, the observed replies and what the property's own oracle finds"""

    def __init__(self, seed=0):
        self.w = W.World(seed=seed)
        self.w.session("A")
        self.w.cmd("A", "a0 SELECT inbox")
        self.tagn = 0
        self.script = []
        self.events = []   # model events
        self.obs = []      # observed replies, one per event
        self.finds = []    # oracle findings on the real replies: (step index, text)
        self.raws = []     # raw reply bytes per step (for the replay file)
        self.proxy = None
        self.task = None
        self.reader = None
        self.writer = None
        self.content = {}  # uid -> msg_as_bytes
        # what a client knows about the running session
        self.open = False
        self.uids0 = []
        self.marks = set()
        self.sizes = {}
        self.flags = {"imap_change_in_session": False, "listing_after_change": False, "quit_with_marks": False,
                      "drop_with_marks": False, "gone_msg_marked": False, "dots": False, "nofinalnl": False,
                      "key_reuse": False, "pack": False}
        self.nsess = 0
        self.maxkey = 0

    def close(self):
        try:
            if self.task is not None and not self.task.done():
                self.reader.feed_eof()
                self.w.quiesce()
        finally:
            self.w.close()

    # ---- helpers
    def tag(self):
        self.tagn += 1
        return f"t{self.tagn}"

    def mbox(self):
        return self.w.server.active_mailboxes["inbox"]

    def imap_uids(self):
        out = self.w.cmd("A", f"{self.tag()} UID SEARCH ALL")
        for ch in out:
            c = W.classify(ch)
            if c[0] == "search":
                return c[1]
        return None

    def find(self, text, kind="other"):
        self.finds.append((len(self.events) - 1, text, kind))

    def record(self, step, ev, reply, raw=b""):
        self.script.append(step)
        self.events.append(ev)
        self.obs.append(reply)
        self.raws.append(raw)

    # ---- steps
    def step(self, st):
        getattr(self, "do_" + st[0])(*st[1:])

    def do_append(self, via, text):
        data = text.encode("latin-1")
        before = list(self.mbox().uids) if "inbox" in self.w.server.active_mailboxes else []
        keys_before = self.w.mh_keys("inbox")
        if via == "imap":
            lit = data.replace(b"\r\n", b"\n").replace(b"\n", b"\r\n")
            out = self.w.cmd("A", f"{self.tag()} APPEND inbox {{{len(lit)}}}\r\n".encode() + lit)
            m = re.search(rb"\[APPENDUID \d+ (\d+)\]", b"".join(out))
            uid = int(m.group(1)) if m else -1
        else:
            mh = self.w.folder("inbox")
            mh.add(data)
            self.w.bump_mtime("inbox")
            self.w.cmd("A", f"{self.tag()} NOOP")
            after = list(self.mbox().uids)
            uid = after[-1] if len(after) == len(before) + 1 else -1
        mb = self.mbox()
        key = mb.msg_keys[-1]
        if key <= self.maxkey and self.open:
            self.flags["key_reuse"] = True
        self.maxkey = max(self.maxkey, key)
        from asimap.generator import msg_as_bytes, msg_headers_as_bytes

        msg = mb.get_msg(key)
        raw, hdr, body = render(msg), msg_headers_as_bytes(msg), render(msg, render_headers=False)
        full = msg_as_bytes(msg)
        if full != (raw if raw.endswith(b"\r\n") else raw + b"\r\n"):
            self.finds.append((len(self.events), "harness: render() does not reproduce msg_as_bytes", "harness"))
        self.content[uid] = full
        if any(ln.startswith(b".") for ln in full.split(b"\r\n")):
            self.flags["dots"] = True
        if not raw.endswith(b"\r\n"):
            self.flags["nofinalnl"] = True
        if self.open:
            self.flags["imap_change_in_session"] = True
        self.record(["append", via, text], ("append", (raw, hdr, body)), ("appended", uid))

    def do_expunge(self, uids, mode):
        if uids:
            s = ",".join(str(u) for u in uids)
            self.w.cmd("A", f"{self.tag()} UID STORE {s} +FLAGS.SILENT (\\Deleted)")
            if mode == "uid":
                self.w.cmd("A", f"{self.tag()} UID EXPUNGE {s}")
            else:
                self.w.cmd("A", f"{self.tag()} EXPUNGE")
        if self.open and uids:
            self.flags["imap_change_in_session"] = True
            if any(self.uids0[n - 1] in uids for n in self.marks if n <= len(self.uids0)):
                self.flags["gone_msg_marked"] = True
        self.record(["expunge", uids, mode], ("expunge", list(uids)), ("none",))

    def do_flag(self, uids):
        """\\Deleted is set by an IMAP session but nothing is expunged: not an event of the model"""
        if uids:
            s = ",".join(str(u) for u in uids)
            self.w.cmd("A", f"{self.tag()} UID STORE {s} +FLAGS.SILENT (\\Deleted)")
            self.w.cmd("A", f"{self.tag()} UID STORE {s} -FLAGS.SILENT (\\Deleted)")
        self.script.append(["flag", uids])

    def do_pack(self):
        mb = self.mbox()
        saved = (mb.folder_size_pack_limit, mb.folder_ratio_pack_limit)
        mb.folder_size_pack_limit, mb.folder_ratio_pack_limit = 0, 1.0

        async def go():
            # what management_task does on a quiet poll
            async with mb.mailbox.lock_folder():
                return await mb._pack_if_necessary()

        try:
            if mb.msg_keys:
                self.w.run(go())
        finally:
            mb.folder_size_pack_limit, mb.folder_ratio_pack_limit = saved
        self.w.quiesce()
        if self.open:
            self.flags["pack"] = True
        self.record(["pack"], ("pack",), ("none",))

    def do_observe(self):
        uids = self.imap_uids()
        keys = self.w.mh_keys("inbox")
        pairs = list(zip(keys, uids)) if uids is not None and len(keys) == len(uids) else [(-1, -1)]
        self.record(["observe"], ("observe",), ("inbox", pairs))
        return uids

    def do_open(self):
        from asimap.pop3_client import POP3ClientProxy

        self.uids0 = self.imap_uids() or []
        self.reader = asyncio.StreamReader()
        self.writer = FakeWriter()
        self.nsess += 1
        self.proxy = POP3ClientProxy(self.w.server, f"pop3-{self.nsess}", self.nsess, "127.0.0.1", 40000 + self.nsess,
                                     self.reader, self.writer)
        self.task = self.w.loop.create_task(self.proxy.run())
        self.w.quiesce()
        self.open = True
        self.marks = set()
        self.sizes = {}
        self.record(["open"], ("open",), ("none",), self.writer.take())

    def do_drop(self):
        before = self.imap_uids()
        self.reader.feed_eof()
        self.w.quiesce()
        self.record(["drop"], ("drop",), ("none",), self.writer.take())
        if self.marks:
            self.flags["drop_with_marks"] = True
        if not self.task.done():
            self.find("the POP3 task is still running after the connection was dropped", "drop")
        after = self.imap_uids()
        if after != before:
            self.find(f"a dropped connection changed INBOX: UIDs {before} -> {after}", "drop")
        self.open = False

    def do_pop(self, line):
        cmd = model_cmd(line)
        before = list(self.mbox().uids)
        b = line.encode("latin-1")
        self.reader.feed_data(b"{%d}\n" % len(b) + b)
        self.w.quiesce()
        raw = self.writer.take()
        r = tokenize(cmd, raw)
        self.record(["pop", line], ("pop", cmd), r, raw)
        after = list(self.mbox().uids)
        self.oracle(cmd, r, raw, before, after)
        if cmd[0] == "quit":
            self.open = False
            self.w.cmd("A", f"{self.tag()} NOOP")

    # ---- the property, checked on the real replies
    def oracle(self, cmd, r, raw, before, after):
        k = r[0]
        if k == "raw":
            self.find(f"unrecognised reply to {cmd}: {raw[:120]!r}")
            return
        if cmd[0] != "quit" and before != after:
            self.find(f"{cmd[0].upper()} changed INBOX: UIDs {before} -> {after}", "early-delete")
        n0 = len(self.uids0)
        shown = [n for n in range(1, n0 + 1) if n not in self.marks]
        sz = []
        if k == "uidlall":
            if [a for a, _ in r[1]] != shown:
                self.find(f"UIDL lists numbers {[a for a, _ in r[1]]}, the unmarked numbers of the snapshot are {shown}", "numbers")
            for n, u in r[1]:
                if not (1 <= n <= n0) or self.uids0[n - 1] != u:
                    self.find(f"UIDL gives {u} for message {n}; INBOX had UIDs {self.uids0} when the session began", "uidl")
        if k == "uidlone":
            n, u = r[1], r[2]
            if not (1 <= n <= n0) or self.uids0[n - 1] != u or n in self.marks:
                self.find(f"UIDL {n} gives {u}; INBOX had UIDs {self.uids0} at session start, marks {sorted(self.marks)}", "uidl")
        if k == "listall":
            if [a for a, _ in r[3]] != shown:
                self.find(f"LIST lists numbers {[a for a, _ in r[3]]}, the unmarked numbers of the snapshot are {shown}", "numbers")
            if r[1] != len(r[3]) or r[2] != sum(s for _, s in r[3]):
                self.find(f"LIST header says {r[1]} messages / {r[2]} octets, rows are {r[3]}", "stat")
            sz = list(r[3])
        if k == "listone":
            sz = [(r[1], r[2])]
            if r[1] in self.marks or not (1 <= r[1] <= n0):
                self.find(f"LIST {r[1]} answered for a marked or unknown message", "numbers")
        if k == "stat":
            if r[1] != len(shown):
                self.find(f"STAT counts {r[1]} messages, {len(shown)} are unmarked", "numbers")
            self.pending_stat = (r[1], r[2])
        if k == "listall" and getattr(self, "pending_stat", None) is not None and self.last_cmd == "stat":
            if self.pending_stat != (r[1], r[2]):
                self.find(f"STAT said {self.pending_stat}, the LIST that follows says {(r[1], r[2])}", "stat")
        if k == "retr":
            n, N, wire = r[1], r[2], r[3]
            data = py_receive(wire)
            sz = [(n, N)]
            if data is None:
                self.find(f"RETR {n}: the reply is not terminated by a '.' line with nothing after it: ...{wire[-30:]!r}", "framing")
            else:
                if len(data) != N:
                    self.find(f"RETR {n} announces {N} octets and delivers {len(data)} (after un-stuffing)", "octets")
                if 1 <= n <= n0:
                    want = self.content.get(self.uids0[n - 1])
                    if want is not None and data != want and data != want + b"\r\n":
                        self.find(f"RETR {n} does not deliver the octets of the message with UID {self.uids0[n - 1]} "
                                  f"(the UID UIDL {n} shows): starts {data[:60]!r}, expected {want[:60]!r}", "content")
                    elif want is not None and data != want:
                        self.find(f"RETR {n} delivers the message of UID {self.uids0[n - 1]} plus {len(data) - len(want)} extra octets", "octets")
            if n in self.marks or not (1 <= n <= n0):
                self.find(f"RETR {n} answered for a marked or unknown message", "numbers")
        if k == "top":
            if py_receive(r[2]) is None:
                self.find(f"TOP {r[1]}: the reply is not terminated by a '.' line with nothing after it", "framing")
        for n, s in sz:
            if n in self.sizes and self.sizes[n] != s:
                self.find(f"message {n} was announced with {self.sizes[n]} octets earlier in this session, now {s}", "size-changed")
            self.sizes.setdefault(n, s)
        if sz and self.flags["imap_change_in_session"]:
            self.flags["listing_after_change"] = True
        if k == "deleted":
            if r[1] in self.marks or not (1 <= r[1] <= n0):
                self.find(f"DELE {r[1]} accepted for a marked or unknown message", "numbers")
            self.marks.add(r[1])
        if cmd[0] == "rset" and k == "ok":
            self.marks = set()
        if cmd[0] == "quit":
            if k != "bye":
                self.find(f"QUIT answered {raw!r}", "quit")
            gone = {self.uids0[n - 1] for n in self.marks if 1 <= n <= n0}
            want = [u for u in before if u not in gone]
            via_imap = self.imap_uids()
            if after != want or via_imap != want:
                self.find(f"QUIT with marks {sorted(self.marks)} (UIDs {sorted(gone)}): INBOX had UIDs {before}, "
                          f"has {via_imap} afterwards, expected {want}", "quit")
            if self.marks:
                self.flags["quit_with_marks"] = True
            if not self.task.done():
                self.find("the POP3 task is still running after QUIT", "quit")
        self.last_cmd = cmd[0]

    last_cmd = None
    pending_stat = None


# ----------------------------------------------------------------------------- generators
BODY_LINES = [".", "..", ".hidden", "..two dots", ". dot and space", "plain text", "a . inside", "",
              "From the start", "x" * 40, ".\t", "end."]


def gen_message(rng, cid):
    n = rng.choice([0, 1, 1, 2, 3, 4])
    lines = [rng.choice(BODY_LINES) for _ in range(n)]
    if rng.random() < 0.5:
        lines.insert(rng.randrange(0, len(lines) + 1), rng.choice([".", "..", ".x"]))
    body = "\n".join(lines)
    if lines and rng.random() < 0.55:
        body += "\n"
    hdr = f"From: s{cid}@example.com\nSubject: c{cid}\nMessage-ID: <{cid}@v>\n"
    if rng.random() < 0.2:
        hdr += "X-Dot: .\n"
    return hdr + "\n" + body


def gen_number(rng, count):
    r = rng.random()
    if r < 0.72 and count:
        return str(rng.randint(1, count))
    return rng.choice(["0", str(count + 1), "-1", "abc", "", "1 2", "+1", "99", "1.0", " 2", "0x1"])


def gen_history(ctx, rng, seed, nops):
    r = Runner(seed)
    try:
        cid = [0]

        def append():
            cid[0] += 1
            r.step(["append", rng.choice(["imap", "imap", "mh"]), gen_message(rng, cid[0])])

        def live():
            return list(r.mbox().uids)

        for _ in range(rng.choice([0, 1, 2, 3, 3, 4, 5])):
            append()
        sessions = rng.choice([1, 1, 2])
        for _s in range(sessions):
            r.step(["open"])
            count = len(r.uids0)
            for _ in range(nops):
                if not r.open:
                    break
                x = rng.random()
                if x < 0.62:
                    c = rng.choice(["STAT", "LIST", "LIST", "UIDL", "UIDL", "RETR", "RETR", "RETR", "DELE", "DELE",
                                    "DELE", "TOP", "RSET", "NOOP", "LISTN", "LISTN", "UIDLN", "CAPA", "BAD"])
                    if c == "STAT":
                        r.step(["pop", rng.choice(["STAT", "stat"])])
                        if rng.random() < 0.7:
                            r.step(["pop", "LIST"])
                    elif c in ("LIST", "UIDL"):
                        r.step(["pop", c])
                    elif c in ("LISTN", "UIDLN"):
                        r.step(["pop", f"{c[:4]} {gen_number(rng, count)}"])
                    elif c in ("RETR", "DELE"):
                        r.step(["pop", f"{c} {gen_number(rng, count)}"])
                    elif c == "TOP":
                        k = rng.choice(["0", "1", "2", "99", "-1", "x", ""])
                        r.step(["pop", f"TOP {gen_number(rng, count)} {k}".rstrip()])
                    elif c == "BAD":
                        r.step(["pop", rng.choice(["FOO", "USER x", "", "XYZZY 1"])])
                    else:
                        r.step(["pop", c])
                elif x < 0.74:
                    append()
                elif x < 0.88:
                    lv = live()
                    if lv:
                        pick = set()
                        if rng.random() < 0.6:
                            pick.add(lv[-1])  # the last message: its MH key is reused by the next arrival
                        for u in lv:
                            if rng.random() < 0.25:
                                pick.add(u)
                        r.step(["expunge", sorted(pick), rng.choice(["uid", "all"])])
                elif x < 0.92:
                    r.step(["pack"])
                elif x < 0.95:
                    lv = live()
                    r.step(["flag", sorted(u for u in lv if rng.random() < 0.4)])
                else:
                    r.step(["observe"])
            if r.open:
                if rng.random() < 0.3:
                    r.step(["drop"])
                else:
                    r.step(["pop", rng.choice(["QUIT", "quit", "QUIT now"])])
            r.step(["observe"])
        return snapshot(r, seed)
    finally:
        r.close()


def snapshot(r, seed):
    return {"seed": seed, "script": r.script, "events": r.events, "obs": r.obs, "finds": r.finds,
            "flags": dict(r.flags), "raws": r.raws}


def run_script(script, seed=0):
    r = Runner(seed)
    try:
        for st in script:
            r.step(st)
        return snapshot(r, seed)
    finally:
        r.close()


M1 = "From: a@b\nSubject: one\n\n.dot line\n..two\nlast line without newline"
M2 = "From: a@b\nSubject: two\n\nbody2\n"
M3 = "From: a@b\nSubject: three\n\nbody three is longer\n.\n"
M4 = "Subject: new\n\nthe new message\n"
CORPUS = [
    # D13: the announced size and the delivered octets
    [["append", "mh", M1], ["append", "imap", M2], ["open"], ["pop", "LIST"], ["pop", "RETR 1"], ["pop", "RETR 2"],
     ["pop", "TOP 1 1"], ["pop", "TOP 2 9"], ["pop", "QUIT"], ["observe"]],
    # D14: the last message is expunged by IMAP, the next arrival reuses its MH key
    [["append", "mh", M1], ["append", "mh", M2], ["append", "mh", M3], ["open"], ["pop", "LIST"], ["pop", "UIDL"],
     ["expunge", [3], "uid"], ["append", "imap", M4], ["pop", "UIDL 3"], ["pop", "LIST 3"], ["pop", "RETR 3"],
     ["pop", "DELE 3"], ["pop", "QUIT"], ["observe"]],
    # D14 after a pack: keys are renumbered under the session
    [["append", "mh", M1], ["append", "mh", M2], ["append", "mh", M3], ["expunge", [1], "all"], ["open"],
     ["pack"], ["pop", "RETR 1"], ["pop", "LIST"], ["pop", "DELE 2"], ["pop", "QUIT"], ["observe"]],
    # a size first asked for after the message has gone; RETR before, LIST after an expunge
    [["append", "imap", M2], ["append", "imap", M3], ["open"], ["pop", "RETR 2"], ["expunge", [2], "uid"],
     ["pop", "LIST"], ["pop", "STAT"], ["pop", "LIST"], ["pop", "DELE 2"], ["pop", "DELE 1"], ["pop", "RSET"],
     ["pop", "DELE 2"], ["drop"], ["observe"]],
    # several messages marked; an IMAP session expunges one of the marked ones (not the last marked) before QUIT:
    # QUIT still removes every other marked message and nothing else
    [["append", "imap", M1], ["append", "imap", M2], ["append", "imap", M3], ["append", "imap", M4], ["append", "imap", M2],
     ["append", "imap", M3], ["open"], ["pop", "DELE 2"], ["pop", "DELE 3"], ["pop", "DELE 5"], ["expunge", [2], "uid"],
     ["pop", "QUIT"], ["observe"]],
    [["append", "imap", M1], ["append", "imap", M2], ["append", "imap", M3], ["append", "imap", M4], ["open"],
     ["pop", "DELE 1"], ["pop", "DELE 4"], ["pop", "DELE 2"], ["expunge", [1], "uid"], ["expunge", [3], "uid"],
     ["pop", "QUIT"], ["observe"]],
]


# ----------------------------------------------------------------------------- comparison in Coq
def compare(ctx, name, hs):
    """-> per history: list of indices where model and implementation replies differ"""
    per = 12
    chunks = [hs[i:i + per] for i in range(0, len(hs), per)]
    texts = []
    for ch in chunks:
        t = DEFS
        for j, h in enumerate(ch):
            evs = clist([c_ev(e) for e in h["events"]])
            obs = clist([c_reply(o) for o in h["obs"]])
            t += f"Definition h_{j} : list ev * list reply := ({evs}, {obs}).\n"
            t += f"Eval vm_compute in (check h_{j}).\n"
        texts.append(t)
    outs = ctx.coq.eval_many(name, texts)
    res = []
    for out in outs:
        res += parse_nat_lists(out)
    return res


def model_reply_at(ctx, h, i):
    t = DEFS + "Definition evs : list ev := " + clist([c_ev(e) for e in h["events"][:i + 1]]) + ".\n"
    t += f"Eval vm_compute in (nth {i} (snd (run true init_world evs)) RNone).\n"
    try:
        v = core.parse_coq_values(ctx.coq.eval_cases("c20_at", t))
        return v[0][:1500] if v else "?"
    except core.CoqError as e:
        return "coq error: " + e.log[-300:]


def show(o):
    if o and o[0] in ("retr", "top"):
        return [o[0], *[x if not isinstance(x, bytes) else x.decode("latin-1") for x in o[1:]]]
    return list(o)


def report(ctx, h, where, what, extra=None):
    body = {"seed": h["seed"], "script": h["script"], "at_step": where, "how": "./check C20 --replay <this file>"}
    if extra:
        body.update(extra)
    ctx.violation(what, body)


def function_level(ctx, proof_ok):
    """dot_stuff: the Python function against the generated Gallina; the harness' client against
    the client of the specification; end_multiline against the model's"""
    import asimap.pop3_client as pc

    rng = ctx.rng
    n = 1500 if ctx.thorough else 300
    alpha = [46, 46, 46, 13, 10, 13, 10, 97, 98, 32, 0, 255]
    datas = [b"", b".", b"..", b".\r\n", b"\r\n.\r\n", b"a\r\n.b", b".\r", b"\r.\n.", b"\n.", b"a\r\n", b"\r\n", b".\r\n."]
    for _ in range(n):
        ln = rng.choice([0, 1, 2, 3, 5, 8, 13, 30])
        d = bytearray(rng.choice(alpha) for _ in range(ln))
        if rng.random() < 0.4:
            d += b"\r\n"
        datas.append(bytes(d))
    ds_cases, rc_cases, em_cases = [], [], []
    has_em = hasattr(pc, "end_multiline")
    fn_reported = False
    for d in datas:
        p = pc.dot_stuff(d)
        ds_cases.append((d, p))
        wire = pc.end_multiline(p) if has_em else p + b"\r\n.\r\n"
        if has_em:
            em_cases.append((p, wire))
        got = py_receive(wire)
        rc_cases.append((wire, got))
        rc_cases.append((d, py_receive(d)))
        # the property on the real functions: the client reads back the data (last line completed)
        want = d if (d == b"" or d.endswith(b"\r\n")) else d + b"\r\n"
        nt = b"." in d
        ctx.count({"dot_stuff_of": d.decode("latin-1")}, nontrivial=nt)
        if got != want and not fn_reported:
            fn_reported = True
            ctx.violation("a multi-line payload is not read back by a POP3 client as the data that was stuffed",
                          {"data": d.decode("latin-1"), "dot_stuff(data)": p.decode("latin-1"),
                           "on_the_wire": wire.decode("latin-1"), "client_reads": None if got is None else got.decode("latin-1"),
                           "expected": want.decode("latin-1"),
                           "how": "asimap.pop3_client.dot_stuff (+ end_multiline or the RETR terminator), then RFC 1939 s.3"})
    t = DEFS
    t += "Definition ds : list (list Z * list Z) := " + clist([f"({cb(a)}, {cb(b)})" for a, b in ds_cases]) + ".\n"
    t += "Eval vm_compute in (bad_from ds_check 0 ds).\n"
    t += "Definition rc : list (list Z * option (list Z)) := " + clist([f"({cb(a)}, {copt(b, cb)})" for a, b in rc_cases]) + ".\n"
    t += "Eval vm_compute in (bad_from rc_check 0 rc).\n"
    t += "Definition em : list (list Z * list Z) := " + clist([f"({cb(a)}, {cb(b)})" for a, b in em_cases]) + ".\n"
    t += "Eval vm_compute in (bad_from em_check 0 em).\n"
    ls = parse_nat_lists(ctx.coq.eval_cases("c20_fn", t))
    if ls[0]:
        d, p = ds_cases[ls[0][0]]
        ctx.proof_broken.append({"what": "translator validation: Gen/DotStuff.v and pop3_client.dot_stuff differ",
                                 "data": d.decode("latin-1"), "python": p.decode("latin-1")})
    if ls[1]:
        wv, g = rc_cases[ls[1][0]]
        ctx.proof_broken.append({"what": "the harness' POP3 client and Spec.receive differ", "wire": wv.decode("latin-1"),
                                 "python": None if g is None else g.decode("latin-1")})
    if ls[2]:
        p, wv = em_cases[ls[2][0]]
        ctx.proof_broken.append({"what": "translator validation: pop3_client.end_multiline differs from Gen/DotStuff.v end_multiline (and the model's)", "payload": p.decode("latin-1"),
                                 "python": wv.decode("latin-1")})
    ctx.extra["function_level"] = {"byte_strings": len(datas), "end_multiline_in_source": has_em,
                                   "gen_vs_python_diffs": len(ls[0]), "client_vs_spec_diffs": len(ls[1])}


def big_messages(ctx):
    """messages well over 64 KiB whose bodies are nothing but dot lines, with header lengths that put the line starts at
    every phase relative to any power-of-two offset: whatever way the implementation pushes a large RETR, the reply must be
    one correctly stuffed multi-line response that delivers exactly the announced octets.  Implementation only (the
    property's oracle on the real replies); not sent through Coq (the literals would be megabytes)."""
    n = 0
    kinds = {}
    for line, width in ((".", 3), ("..", 4), (".x", 4)) if ctx.thorough else ((".", 3),):
        msgs = []
        for pad in range(width):
            body = (line + "\n") * (70000 // width + 1500 * pad)
            msgs.append(f"From: big@example.com\nSubject: big {line} {pad}\nX-Pad: {'p' * pad}\n\n" + body)
        script = [["append", "mh", m] for m in msgs] + [["open"], ["pop", "LIST"]] + \
                 [["pop", f"RETR {i + 1}"] for i in range(len(msgs))] + [["pop", "STAT"], ["pop", "QUIT"], ["observe"]]
        h = run_script(script, seed=7)
        n += len(msgs)
        ctx.count({"big_messages": f"{len(msgs)} messages of ~{len(msgs[0]) // 1000} KB of {line!r} lines"}, nontrivial=True)
        for (i, text, kind) in h["finds"]:
            kinds[kind] = kinds.get(kind, 0) + 1
            if kinds[kind] == 1:
                ctx.violation("POP3 (message over 64 KiB made of dot lines): " + text[:400],
                              {"messages": [m[:80] + f"... ({len(m)} characters of {line!r} lines)" for m in msgs],
                               "script": [st if st[0] != "append" else ["append", "mh", "<big message>"] for st in script],
                               "step": i, "kind": kind})
    ctx.extra["big_messages"] = {"messages": n, "findings": kinds}


def session_level(ctx):
    rng = ctx.rng
    nh = 160 if ctx.thorough else 22
    nops = 26 if ctx.thorough else 20
    hs = []
    for sc in CORPUS:
        hs.append(run_script(sc, seed=0))
    for i in range(nh):
        sd = rng.randrange(1 << 30)
        import random as _r

        hs.append(gen_history(ctx, _r.Random(sd), sd, nops))
    mix = {}
    for h in hs:
        for st in h["script"]:
            key = st[0] if st[0] != "pop" else "pop:" + (st[1].split() or ["<empty>"])[0].upper()
            mix[key] = mix.get(key, 0) + 1
        f = h["flags"]
        nt = f["listing_after_change"] or f["quit_with_marks"] or f["drop_with_marks"]
        ctx.count({"seed": h["seed"], "script": h["script"][:14] + ["..."], "steps": len(h["script"])}, nontrivial=nt)
    # the property's oracle on the implementation's own replies: one report per kind of finding
    nrep = 0
    kinds = {}
    for h in hs:
        for (i, text, kind) in h["finds"]:
            nrep += 1
            kinds[kind] = kinds.get(kind, 0) + 1
            if kinds[kind] == 1 and len(kinds) <= 5:
                report(ctx, h, i, "POP3: " + text,
                       {"kind": kind, "reply_at_step": show(h["obs"][i]) if 0 <= i < len(h["obs"]) else None,
                        "all_findings_of_this_history": [f"step {a}: {b}" for a, b, _ in h["finds"]][:8]})
    ctx.extra["oracle_findings_by_kind"] = kinds
    # model against implementation
    try:
        ctx.coq.build(["Model/Pop3M.vo"])
        diffs = compare(ctx, "c20_h", hs)
    except core.CoqError as e:
        ctx.proof_broken.append({"what": "the model could not be evaluated", "log": e.log[-1500:]})
        diffs = [[] for _ in hs]
    ndiff = 0
    for h, d in zip(hs, diffs):
        if d:
            ndiff += 1
            if ndiff <= 3:
                i = d[0]
                report(ctx, h, i, "model (proved) and implementation disagree on a POP3 reply / on INBOX",
                       {"event": repr(h["events"][i])[:300], "implementation": show(h["obs"][i]),
                        "model": model_reply_at(ctx, h, i),
                        "property_oracle_on_this_history": [f"step {a}: {b}" for a, b, _ in h["finds"]][:6]})
    ctx.coverage["traces_validated_against_impl"] = len(hs) - ndiff
    agg = {}
    for h in hs:
        for k, v in h["flags"].items():
            agg[k] = agg.get(k, 0) + (1 if v else 0)
    ctx.extra["histories"] = len(hs)
    ctx.extra["histories_with"] = agg
    ctx.extra["step_mix"] = dict(sorted(mix.items()))
    ctx.extra["oracle_findings"] = nrep
    ctx.extra["model_diffs"] = ndiff


def prove_stable(ctx):
    """ctx.prove, repeated if another check running at the same time regenerated coq/Gen from a
    different source tree between our regeneration and our build (core.Coq.regenerate runs
    outside the build lock): the proof must be about the dot_stuff of OUR tree"""
    import hashlib

    ctx.coq.lock()
    ok = False
    for _ in range(3):
        saved = (ctx.obligations, ctx.discharged, len(ctx.proof_broken), len(ctx.checker_cmds), len(ctx.assume))
        ok = ctx.prove("Properties/C20.v")
        want = ctx.extra["generated"].get("DotStuff", {}).get("sha")
        have = hashlib.sha256((core.COQ / "Gen" / "DotStuff.v").read_text().encode()).hexdigest()[:16]
        if want == have:
            return ok
        ctx.obligations, ctx.discharged = saved[0], saved[1]
        del ctx.proof_broken[saved[2]:], ctx.checker_cmds[saved[3]:], ctx.assume[saved[4]:]
    ctx.proof_broken.append({"what": "coq/Gen/DotStuff.v keeps being regenerated from another source tree by a "
                                     "concurrent check; the proof could not be tied to this tree"})
    return False


def run(ctx):
    ctx.coverage["rule"] = (
        "histories on a fresh INBOX: 0-5 initial messages (IMAP APPEND or MH delivery; bodies drawn from lines "
        "'.', '..', '.x', dotted and plain text, empty lines, 45% without a final newline), then 1-2 POP3 sessions "
        "through the real POP3ClientProxy.run of up to 20 (quick) / 26 (thorough) steps: 62% POP3 commands "
        "(STAT LIST UIDL RETR DELE TOP RSET NOOP CAPA, unknown words; numbers 72% valid, else 0, count+1, -1, "
        "abc, empty, '1 2', '+1', '1.0'), 12% appends, 14% IMAP expunges of random UIDs (60% include the last "
        "message), 4% folder packs, 3% \\Deleted set and cleared, 5% observations; ended by QUIT (70%) or a drop. "
        "Plus 300/1500 random byte strings through dot_stuff. non-trivial = a size was announced after an IMAP "
        "change inside the session, or the session ended with marks set (byte strings: the data contains a dot)")
    ok = prove_stable(ctx)
    try:
        function_level(ctx, ok)
    except core.CoqError as e:
        ctx.proof_broken.append({"what": "function-level cases could not be evaluated", "log": e.log[-1500:]})
    session_level(ctx)
    big_messages(ctx)
    ctx.trusted += [
        "the e-mail library's rendering of a message (msg_as_bytes, msg_headers_as_bytes) is an oracle of the model: "
        "the three renderings are measured on the stored message and given to the model as data",
        "Python's int() on POP3 arguments is an oracle of the model (the harness applies it to the command text)",
        "Mailbox.expunge / append / pack are atomic INBOX updates in the model (their own correctness is C05/C02/C13)",
        "commands are atomic with respect to one another (QUIT's expunge against running IMAP commands is C10's)",
    ]
    ctx.assume += ["UIDs are handed out in increasing order and never reused (C02); hypothesis `wf` of the theorems, "
                   "proved for every world reachable in the model",
                   "the strict reply tokenizer of the harness (unknown bytes are a difference, never ignored)"]


def replay(ctx, path):
    r = json.load(open(path))
    print(json.dumps({k: v for k, v in r.items() if k != "script"}, indent=1)[:3000])
    if "script" in r:
        h = run_script(r["script"], seed=r.get("seed", 0))
        print("re-run on the implementation:")
        for i, (st, o) in enumerate(zip([s for s in h["script"] if s[0] != "flag"], h["obs"])):
            print(f"  {i:3d} {json.dumps(st)[:100]:100s} -> {str(show(o))[:160]}")
        for a, b, _ in h["finds"]:
            print(f"  PROPERTY VIOLATED at step {a}: {b}")
        return 1 if h["finds"] else 0
    if "data" in r:
        import asimap.pop3_client as pc

        d = r["data"].encode("latin-1")
        p = pc.dot_stuff(d)
        wire = pc.end_multiline(p) if hasattr(pc, "end_multiline") else p + b"\r\n.\r\n"
        print("dot_stuff:", p, "wire:", wire, "client reads:", py_receive(wire))
        want = d if (d == b"" or d.endswith(b"\r\n")) else d + b"\r\n"
        return 0 if py_receive(wire) == want else 1
    return 0
