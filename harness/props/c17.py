"""C17 — the mailbox list follows the CREATE/DELETE/RENAME/SUBSCRIBE history.

Proof:  coq/Properties/C17.v — Model/Namespace.v (rows of the mailboxes table, CREATE / DELETE /
        RENAME / SUBSCRIBE / UNSUBSCRIBE / APPEND / SELECT / restart as total functions, LIST / LSUB with
        the LIST-EXTENDED options) refines the reference tree of Spec/NsSpec.v for every history;
        the wildcard matcher of Model/Glob.v is RFC 3501's `*` / `%` relation; LIST/LSUB answer exactly
        the matching existing / subscribed names, each once; \\HasChildren, \\Noselect; RENAME moves
        the subtree with its payload; INBOX is never deleted; a refused command changes nothing.
Tie:    X  (a) generated reference/pattern/name triples through the real Mailbox._mbox_pattern_to_re
               and Python's `re` against Glob.glob (regex metacharacters in names and patterns);
           (b) histories of namespace commands with restarts on the real Authenticated / Mailbox /
               IMAPUserServer objects: every tagged result, every LIST/LSUB answer for a pattern
               grammar (plain and LIST-EXTENDED), the mailboxes table, the directories on disk and
               the messages (UID, content, flags) of every mailbox are compared with the model
               inside Coq (vm_compute);
           (c) oracles that do not go through the model: a refused command leaves table and disk
               byte-identical; no name is listed twice.
        pins: the two `replace` rewrites of _mbox_pattern_to_re and the child query of
              _helper_rename_folder (source text).
"""
from __future__ import annotations

import inspect
import json
import os
import re

import core
from core import cbool, clist, cstr, cz
import world as W

SPECIAL = {"Junk": "\\Junk", "Archive": "\\Archive", "Sent Messages": "\\Sent", "Drafts": "\\Drafts",
           "Deleted Messages": "\\Trash"}
SPECIAL_VALUES = set(SPECIAL.values())
FLAGBITS = {"\\Seen": 1, "\\Answered": 2, "\\Flagged": 4, "\\Deleted": 8, "\\Draft": 16}
ATTR_COQ = {"\\Noselect": "Noselect", "\\HasChildren": "HasChildren", "\\HasNoChildren": "HasNoChildren",
            "\\Subscribed": "Subscribed", "\\NonExistent": "NonExistent"}

HEADER = """
From Coq Require Import List Ascii String Bool ZArith.
From Asimap Require Import Spec.NsSpec Model.Glob Model.Namespace Model.NamespaceCmp.
Import ListNotations.
Open Scope Z_scope.
"""

# ----------------------------------------------------------------------------- names and patterns
LEVELS = ["a", "b", "a b", "a.b", "a[b", "A", "a_b", "c"]
TOP_EXTRA = ["inbox", "Junk", "Sent Messages"]
INBOX_SPELLINGS = ["INBOX", "inbox", "Inbox"]
ODD_NAMES = ["123", " ", "a/12"]

REFS = ["", "", "", "a/", "a", "a/b/", "inbox/", "INBOX/", "b/", "A/", "a b/", "a[b/", "%/", "x/"]
PATTERNS = ["*", "%", "a*", "a/%", "%/%", "INBOX", "inbox", "Inbox", "IN*", "i%", "*b", "%b", "a%", "a.b", "a[b",
            "a b", "a?b", "*/c", "%/b/%", "a/b/c", "*x*", "[ab]", "a|b", "(a)", "a+", "^a", "a$", "J*", "Sent*",
            "% %", "a_b", "A", "A/*", "*/%", "%/*", "a/*/c", "%/%/%", "inbox/%", "inbox*", "*nbox", "a.*", ".*",
            "[^/]*", "a{1}", "$", "*a b*", "a/b", "b", "c", "*/b", "%.%", "*[*", "*_*", "In%x"]


def gen_name(rng):
    r = rng.random()
    if r < 0.06:
        return rng.choice(INBOX_SPELLINGS)
    if r < 0.09:
        return rng.choice(ODD_NAMES)
    depth = rng.choice([1, 1, 1, 2, 2, 2, 3, 3])
    if rng.random() < 0.12:
        first = rng.choice(TOP_EXTRA)
    else:
        first = rng.choice(LEVELS[:5] if rng.random() < 0.7 else LEVELS)
    parts = [first]
    for _ in range(depth - 1):
        parts.append(rng.choice(LEVELS[:4] if rng.random() < 0.7 else LEVELS))
    return "/".join(parts)


def in_guard(name):
    """names the reference model speaks about (Spec/NsSpec.v name_ok)"""
    parts = name.split("/")
    if not name or any(p == "" for p in parts):
        return False
    if len(parts) > 1 and parts[0].lower() == "inbox" and parts[0] != "inbox":
        return False
    if len(parts) > 1 and any(p.isdigit() for p in parts):
        return False   # known finding: MH takes a/12 for message 12 of a
    return True


def q(s):
    assert '"' not in s and "\\" not in s and "\r" not in s and "\n" not in s
    return '"' + s + '"'


def canonical_pattern(p):
    return p == "" or (not p.startswith("/") and os.path.normpath(p) == p)


def canonical_ref(r):
    if r == "":
        return True
    core_ = r[:-1] if r.endswith("/") else r
    return core_ != "" and not r.startswith("/") and os.path.normpath(core_) == core_ and not core_.endswith("/")


# ----------------------------------------------------------------------------- Coq terms
def c_name(s):
    return f"(nm {cstr(s)})"


def c_op(o):
    k = o[0]
    if k == "create":
        return f"(Create {c_name(o[1])})"
    if k == "delete":
        return f"(Delete {c_name(o[1])})"
    if k == "rename":
        return f"(Rename {c_name(o[1])} {c_name(o[2])})"
    if k == "subscribe":
        return f"(Subscribe {c_name(o[1])})"
    if k == "unsubscribe":
        return f"(Unsubscribe {c_name(o[1])})"
    if k == "append":
        return f"(Append {c_name(o[1])} {cz(o[2])} {cz(o[3])})"
    if k == "select":
        return f"(Select {c_name(o[1])})"
    if k == "restart":
        return "Restart"
    raise ValueError(k)


def c_attr(a):
    if a in ATTR_COQ:
        return ATTR_COQ[a]
    if a in SPECIAL_VALUES:
        return f"(Special {cstr(a)})"
    raise ValueError(a)


def c_entry(e):
    name, attrs, child, status = e
    st = "None" if status is None else f"(Some ({cz(status[0])}, {cz(status[1])}, {cz(status[2])}))"
    return f"(E {cstr(name)} {clist([c_attr(a) for a in attrs])} {cbool(child)} {st})"


def c_query(qy):
    return (f"(Q {cbool(qy['lsub'])} {cstr(qy['ref'])} {clist([cstr(p) for p in qy['pats']])} "
            f"{cbool(qy['ssub'])} {cbool(qy['srec'])} {cbool(qy['sspec'])} {cbool(qy['rsub'])} {cbool(qy['rstat'])})")


def c_item(it):
    k = it[0]
    if k == "op":
        return f"(IOp {c_op(it[1])} {it[2]})"
    if k == "list":
        return f"(IList {c_query(it[1])} {clist([c_entry(e) for e in it[2]])})"
    if k == "rows":
        rows = [f"({cstr(n)}, {cbool(ns)}, {cbool(sb)}, {clist([cstr(x) for x in sp])}, {cz(vv)}, {cz(nu)}, {cbool(hk)})"
                for (n, ns, sb, sp, vv, nu, hk) in it[1]]
        return f"(IRows {clist(rows)})"
    if k == "dirs":
        return f"(IDirs {clist([cstr(d) for d in it[1]])})"
    if k == "msgs":
        return f"(IMsgs {cstr(it[1])} {clist([f'(M {cz(u)} {cz(c)} {cz(f)})' for (u, c, f) in it[2]])})"
    raise ValueError(k)


# ----------------------------------------------------------------------------- the implementation side
RE_LIST = re.compile(rb'^\* (LIST|LSUB) \(([^)]*)\) "/" "(.*?)"( \("CHILDINFO" \("SUBSCRIBED"\)\))?\r\n$', re.S)
RE_STATUS = re.compile(rb'^\* STATUS "(.*?)" \(MESSAGES (\d+) UIDNEXT (\d+) UIDVALIDITY (\d+)\)\r\n$', re.S)
RE_FETCH = re.compile(rb'^\* (\d+) FETCH \(FLAGS \(([^)]*)\) BODY\[HEADER\.FIELDS \(SUBJECT\)\] \{\d+\}\r\n'
                      rb'Subject: cid-(\d+)\r\n\r\n UID (\d+)\)\r\n$', re.S)


class Odd(Exception):
    """the implementation answered something the strict tokenizer does not know"""


def tagged_of(out, tag="t"):
    tl = [o for o in out if o.startswith(tag.encode() + b" ")]
    if len(tl) != 1 or out[-1] is not tl[0]:
        raise Odd(f"not exactly one tagged line at the end: {out!r}")
    m = W.RE_TAGGED.match(tl[0])
    if not m:
        raise Odd(f"malformed tagged line {tl[0]!r}")
    return m.group(2).decode()


class _Items(list):
    def __init__(self, driver):
        super().__init__()
        self.driver = driver

    def append(self, it):
        super().append(it)
        self.driver.pos.append(len(self.driver.log))


class Driver:
    """one World plus the bookkeeping of what was sent and seen"""

    def __init__(self, seed):
        self.w = W.World(seed=seed)
        self.w.run(self.w.server.find_all_folders())
        self.w.session("A")
        self.w.session("B")
        self.items = _Items(self)   # what goes to Coq
        self.pos = []        # for every item: how many commands had been sent when it was observed
        self.log = []        # human readable: command text -> reply
        self.next_cid = 1
        self.error = None

    def close(self):
        # the history is over: no orderly shutdown (it commits every mailbox once more), just
        # close the database, cancel what is left and remove the directory
        w = self.w
        try:
            if w.server is not None:
                w.run(w.server.db.close())
                w.server = None
        except Exception:
            pass
        w.close()

    # ---- raw observations
    def table(self):
        async def rows():
            return [r async for r in self.w.server.db.query(
                "SELECT name, attributes, subscribed, uid_vv, next_uid, uids FROM mailboxes ORDER BY name")]

        out = []
        for (name, attrs, sub, vv, nuid, uids) in self.w.run(rows()):
            a = set(attrs.split(","))
            a -= {"\\Marked", "\\Unmarked"}
            unknown = a - {"\\Noselect", "\\HasChildren", "\\HasNoChildren"} - SPECIAL_VALUES
            hk = {"\\HasChildren", "\\HasNoChildren"} & a
            if unknown or len(hk) != 1:
                raise Odd(f"mailboxes row {name!r} has attributes {attrs!r}")
            out.append((name, "\\Noselect" in a, bool(sub), sorted(a & SPECIAL_VALUES), int(vv), int(nuid),
                        "\\HasChildren" in a, uids))
        return out

    def dirs(self):
        root = str(self.w.root)
        out = []
        for r, ds, _fs in os.walk(root, followlinks=False):
            for d in ds:
                p = os.path.join(r, d)
                out.append(os.path.relpath(p, root) + ("@" if os.path.islink(p) else ""))
        return sorted(out)

    def snapshot(self):
        """everything a refused command must leave alone"""
        root = str(self.w.root)
        files = []
        for r, ds, fs in os.walk(root):
            rel = os.path.relpath(r, root)
            for f in fs:
                if rel == "." or f == ".mh_sequences":
                    continue   # the database file; .mh_sequences is rewritten by resyncs
                files.append(os.path.join(rel, f))
        return (self.dirs(), sorted(files), [t[:6] for t in self.table()])

    # ---- commands
    def send(self, sess, text):
        try:
            out = self.w.cmd(sess, "t " + text)
        except Exception as e:   # the handler re-raises what it could not deal with: the connection is lost
            self.w.drain(sess)
            self.log.append([text, f"EXCEPTION {type(e).__name__}: {e}"])
            return None
        self.log.append([text, [o.decode("latin-1") for o in out]])
        return out

    def namespace_op(self, o):
        k = o[0]
        before = self.snapshot()
        text = "(restart)"
        if k == "restart":
            self.w.restart()
            self.w.run(self.w.server.find_all_folders())
            self.w.session("A")
            self.w.session("B")
            self.log.append(["(orderly restart, find_all_folders)", []])
            res = "OK"
        else:
            if k == "append":
                fl = " ".join(f for f, b in FLAGBITS.items() if o[3] & b)
                body = f"Subject: cid-{o[2]}\r\n\r\nmessage {o[2]}\r\n"
                text = f"APPEND {q(o[4])} ({fl}) {{{len(body)}}}\r\n{body}"
            elif k == "rename":
                text = f"RENAME {q(o[3])} {q(o[4])}"
            elif k == "select":
                text = f"EXAMINE {q(o[2])}"
            else:
                text = f"{k.upper()} {q(o[2])}"
            out = self.send("B" if k == "select" else "A", text)
            if out is None:
                res = "EXC"
            else:
                res = tagged_of(out)
                if k == "select" and res == "OK":
                    self.send("B", "UNSELECT")
        mo = (k, o[1]) if k in ("create", "delete", "subscribe", "unsubscribe", "select") else \
            ("rename", o[1], o[2]) if k == "rename" else ("append", o[1], o[2], o[3]) if k == "append" else ("restart",)
        self.items.append(("op", mo, res if res in ("OK", "NO") else "NO"))
        after = self.snapshot()
        if res != "OK" and after != before:
            raise Refused(text, res, before, after)
        if res not in ("OK", "NO"):
            raise Odd(f"{text!r} was answered {res}: {self.log[-1][1]}")
        return res

    def observe_state(self):
        t = self.table()
        self.items.append(("rows", [r[:7] for r in t]))
        self.items.append(("dirs", self.dirs()))
        return t

    def observe_msgs(self, table):
        for r in table:
            name, nosel = r[0], r[1]
            if nosel:
                continue
            out = self.send("B", f"EXAMINE {q(name)}")
            if out is None or tagged_of(out) != "OK":
                raise Odd(f"EXAMINE {name!r}: {self.log[-1][1]}")
            out = self.send("B", "UID FETCH 1:* (FLAGS BODY.PEEK[HEADER.FIELDS (SUBJECT)])")
            msgs = []
            if out is None:
                raise Odd(f"UID FETCH in {name!r}: {self.log[-1][1]}")
            for ch in out[:-1]:
                m = RE_FETCH.match(ch)
                if not m:
                    raise Odd(f"UID FETCH in {name!r}: {ch!r}")
                fl = 0
                for f in m.group(2).decode().split():
                    if f in FLAGBITS:
                        fl |= FLAGBITS[f]
                    elif f not in ("\\Recent", "unseen"):
                        raise Odd(f"flag {f!r} in {name!r}")
                msgs.append((int(m.group(4)), int(m.group(3)), fl))
            if tagged_of(out) != "OK" and not (len(out) == 1):
                raise Odd(f"UID FETCH in {name!r}: {out[-1]!r}")
            self.send("B", "UNSELECT")
            self.items.append(("msgs", name, msgs))

    def list_probe(self, qy):
        sel = [x for x, on in (("SUBSCRIBED", qy["ssub"]), ("REMOTE", qy.get("remote")),
                               ("RECURSIVEMATCH", qy["srec"]), ("SPECIAL-USE", qy["sspec"])) if on]
        ret = [x for x, on in (("SUBSCRIBED", qy["rsub"]), ("CHILDREN", qy.get("rchildren")),
                               ("SPECIAL-USE", qy.get("rspecial")),
                               ("STATUS (MESSAGES UIDNEXT UIDVALIDITY)", qy["rstat"])) if on]
        text = "LSUB" if qy["lsub"] else "LIST"
        if sel or qy.get("empty_sel"):
            text += " (" + " ".join(sel) + ")"
        text += " " + q(qy["ref"]) + " "
        text += q(qy["pats"][0]) if not qy.get("multi") else "(" + " ".join(q(p) for p in qy["pats"]) + ")"
        if ret:
            text += " RETURN (" + " ".join(ret) + ")"
        out = self.send("A", text)
        if out is None or tagged_of(out) != "OK":
            raise Odd(f"{text!r}: {self.log[-1][1]}")
        entries = []
        for ch in out[:-1]:
            m = RE_LIST.match(ch)
            if m:
                if (m.group(1) == b"LSUB") != qy["lsub"]:
                    raise Odd(f"{text!r}: {ch!r}")
                attrs = [a for a in m.group(2).decode("latin-1").split() if a not in ("\\Marked", "\\Unmarked")]
                for a in attrs:
                    if a not in ATTR_COQ and a not in SPECIAL_VALUES:
                        raise Odd(f"{text!r}: attribute {a!r}")
                if len(set(attrs)) != len(attrs):
                    raise Odd(f"{text!r}: attribute twice in {ch!r}")
                entries.append([m.group(3).decode("latin-1"), attrs, m.group(4) is not None, None])
                continue
            m = RE_STATUS.match(ch)
            if m and entries and entries[-1][0] == m.group(1).decode("latin-1") and entries[-1][3] is None:
                entries[-1][3] = (int(m.group(2)), int(m.group(3)), int(m.group(4)))
                continue
            raise Odd(f"{text!r}: unexpected line {ch!r}")
        names = [e[0] for e in entries]
        if len(set(names)) != len(names):
            raise Twice(text, names)
        self.items.append(("list", qy, [tuple(e) for e in entries]))
        return entries


class Refused(Exception):
    def __init__(self, text, res, before, after):
        self.text, self.res, self.before, self.after = text, res, before, after


class Twice(Exception):
    def __init__(self, text, names):
        self.text, self.names = text, names


def plain_query(lsub, ref, pat):
    return {"lsub": lsub, "ref": ref, "pats": [pat], "ssub": False, "srec": False, "sspec": False, "rsub": False,
            "rstat": False}


def gen_query(rng):
    r = rng.random()
    ref = rng.choice(REFS)
    pat = rng.choice(PATTERNS)
    if r < 0.45:
        return plain_query(rng.random() < 0.35, ref, pat)
    qy = plain_query(False, ref, pat)
    if rng.random() < 0.3:
        qy["pats"] = [rng.choice(PATTERNS) for _ in range(rng.choice([1, 2, 3]))]
        qy["multi"] = True
    qy["ssub"] = rng.random() < 0.5
    qy["srec"] = qy["ssub"] and rng.random() < 0.6
    qy["remote"] = rng.random() < 0.15
    qy["sspec"] = rng.random() < 0.15
    qy["rsub"] = rng.random() < 0.4
    qy["rchildren"] = rng.random() < 0.3
    qy["rspecial"] = rng.random() < 0.2
    qy["rstat"] = rng.random() < 0.3
    return qy


def gen_op(rng, used, live):
    """used: names that occurred already, live: names in the mailboxes table now (to make collisions,
    children and renames of existing trees likely)"""
    def pick(existing=0.0):
        pool = live if (live and rng.random() < existing) else used
        if pool and rng.random() < 0.7:
            n = rng.choice(pool)
            r = rng.random()
            if r < 0.15 and n.count("/") < 2:
                return n + "/" + rng.choice(LEVELS[:4])
            if r < 0.25 and "/" in n:
                return n.rsplit("/", 1)[0]
            return n
        return gen_name(rng)

    r = rng.random()
    if r < 0.27:
        return ("create", pick(0.2))
    if r < 0.47:
        return ("delete", pick(0.7))
    if r < 0.63:
        return ("rename", pick(0.8), pick(0.15))
    if r < 0.74:
        return ("subscribe", pick(0.8))
    if r < 0.79:
        return ("unsubscribe", pick(0.8))
    if r < 0.90:
        return ("append", pick(0.85))
    if r < 0.95:
        return ("select", pick(0.6))
    return ("restart",)


def run_history(ctx, seed, nops, nprobes, witness=None):
    """-> dict(items, log, error, meta).  One world, one history."""
    rng = ctx.rng
    d = Driver(seed)
    used = []
    meta = {"ops": {}, "refused": 0, "placeholders": 0, "renamed_subtrees": 0, "probes": 0, "skipped": 0}
    res = {"seed": seed, "items": d.items, "pos": d.pos, "log": d.log, "error": None, "meta": meta,
           "violation": None}
    try:
        t = d.observe_state()
        script = list(witness) if witness else None
        for step in range(nops if script is None else len(script)):
            live = [x[0] for x in t if x[0] not in SPECIAL or rng.random() < 0.3]
            o = script[step] if script is not None else gen_op(rng, used, live)
            k = o[0]
            if k != "restart":
                names = [o[1]] + ([o[2]] if k == "rename" else [])
                if not all(in_guard(n) for n in names):
                    meta["skipped"] += 1
                    continue
                # RENAME onto an RFC 6154 name is outside the model (the attribute appears when the
                # mailbox is next loaded); APPEND to a placeholder is outside it too (see the report)
                if k == "rename" and names[1] in SPECIAL:
                    meta["skipped"] += 1
                    continue
                if k == "append":
                    row = [r for r in t if r[0] == ("inbox" if names[0].lower() == "inbox" else names[0])]
                    if row and row[0][1]:
                        meta["skipped"] += 1
                        continue
                for n in names:
                    if n not in used and n.lower() != "inbox":
                        used.append(n)
            sent = None
            if k == "append":
                cid = d.next_cid
                d.next_cid += 1
                fl = rng.choice([0, 1, 4, 5, 2, 16, 6])
                sent = ("append", names[0], cid, fl, names[0])
            elif k == "rename":
                sent = ("rename", names[0], names[1], names[0], names[1])
            elif k == "restart":
                sent = ("restart",)
            else:
                wire = names[0]
                # a trailing hierarchy delimiter is dropped by the parser (os.path.normpath): C08/C09's
                if k == "create" and rng.random() < 0.1 and names[0].lower() != "inbox":
                    wire = names[0] + "/"
                sent = (k, names[0], wire)
            r = d.namespace_op(sent)
            meta["ops"][k] = meta["ops"].get(k, 0) + 1
            meta["refused"] += r != "OK"
            t = d.observe_state()
            meta["placeholders"] += any(x[1] for x in t)
            if k == "rename" and r == "OK":
                meta["renamed_subtrees"] += any(x[0].startswith(names[1] + "/") for x in t)
                d.observe_msgs(t)
            if rng.random() < 0.25:
                d.list_probe(gen_query(rng))
                meta["probes"] += 1
        d.observe_msgs(t)
        # the whole pattern grammar on the final tree, LIST and LSUB
        d.list_probe(plain_query(False, "", ""))
        for _ in range(nprobes):
            d.list_probe(gen_query(rng))
            meta["probes"] += 1
        for pat in PATTERNS:
            for lsub in (False, True):
                d.list_probe(plain_query(lsub, "", pat))
                meta["probes"] += 1
        for ref in sorted(set(REFS) - {""}):
            for pat in ("%", "*", "b", "%/%"):
                d.list_probe(plain_query(False, ref, pat))
                meta["probes"] += 1
        # the LIST-EXTENDED forms on the final tree
        for pat in ("%", "*", "a%", "%/%", "a/%", "INBOX"):
            for opts in ({"ssub": True}, {"ssub": True, "srec": True}, {"rsub": True}, {"rstat": True},
                         {"sspec": True}, {"ssub": True, "srec": True, "rsub": True, "rstat": True},
                         {"multi": True, "pats": [pat, "b*"]}):
                qy = plain_query(False, "", pat)
                qy.update(opts)
                d.list_probe(qy)
                meta["probes"] += 1
    except Refused as e:
        res["violation"] = ("a refused command changed the mailbox tree",
                            {"command": e.text, "result": e.res, "dirs_files_table_before": e.before,
                             "dirs_files_table_after": e.after})
    except Twice as e:
        res["violation"] = ("a mailbox is listed twice", {"command": e.text, "names": e.names})
    except Odd as e:
        res["violation"] = ("the implementation answered outside the protocol the check knows", {"what": str(e)})
    except Exception as e:  # noqa: BLE001
        import traceback

        res["error"] = traceback.format_exc()[-2000:]
    finally:
        d.close()
    return res


WITNESSES = [
    # D9: children computed from the returned subset / upper-case INBOX pattern
    [("create", "a/b"), ("subscribe", "a/b")],
    # DELETE "INBOX" (quoted, upper case) used to clear the inbox
    [("append", "inbox"), ("delete", "INBOX"), ("delete", "Inbox"), ("select", "inbox")],
    # RENAME into the own subtree / onto INBOX / onto digits / to a name whose superior is missing
    [("create", "a/b"), ("append", "a/b"), ("rename", "a", "a/c"), ("rename", "a", "INBOX"), ("rename", "a", "123"),
     ("rename", "a", "c/b/a"), ("restart",)],
    # LIKE in the child query of RENAME ignored case and treated _ as a wildcard
    [("create", "a"), ("create", "A/b"), ("create", "a_b"), ("create", "a.b/c"), ("rename", "a", "c"),
     ("rename", "a_b", "b")],
    # placeholders
    [("create", "a/b/c"), ("subscribe", "a/b"), ("delete", "a"), ("delete", "a/b/c"), ("delete", "a/b"),
     ("delete", "a/b"), ("select", "a/b"), ("delete", "a"), ("restart",), ("unsubscribe", "a/b"), ("delete", "a/b"),
     ("delete", "a"), ("create", "a")],
    # RENAME of INBOX moves the messages
    [("append", "inbox"), ("append", "INBOX"), ("create", "inbox/a"), ("rename", "INBOX", "b/c"), ("append", "inbox"),
     ("rename", "inbox", "inbox/a/b")],
    # subscribed parent and child under RECURSIVEMATCH; SUBSCRIBED with a placeholder (\NonExistent)
    [("create", "a/b/c"), ("create", "b/a"), ("subscribe", "a"), ("subscribe", "a/b"), ("subscribe", "a/b/c"),
     ("subscribe", "b/a"), ("append", "a/b"), ("delete", "a/b")],
    # names MH can not hold
    [("create", "a"), ("create", " "), ("create", " /b"), ("rename", "a", " /c"), ("create", "123"),
     ("rename", "a", "123"), ("rename", "a", " "), ("subscribe", " "), ("delete", "123")],
    # RFC 6154 mailboxes
    [("delete", "Junk"), ("rename", "Drafts", "a/b"), ("restart",), ("subscribe", "Sent Messages")],
]


def coq_compare(ctx, name, hs):
    texts = []
    per = 3
    for i in range(0, len(hs), per):
        t = HEADER
        for j, h in enumerate(hs[i:i + per]):
            t += f"Definition h{j} : list item := " + clist([c_item(it) for it in h["items"]]) + ".\n"
            t += f"Eval vm_compute in (check init h{j} 0).\n"
        texts.append(t)
    outs = ctx.coq.eval_many(name, texts, timeout=1200)
    bad = []
    for k, out in enumerate(outs):
        vals = core.parse_coq_values(out)
        chunk = hs[k * per:(k + 1) * per]
        if len(vals) != len(chunk):
            raise core.CoqError(name, f"{len(vals)} values for {len(chunk)} histories: {out[-500:]}")
        for j, v in enumerate(vals):
            idx = [int(x) for x in re.findall(r"\d+", v)]
            if idx:
                bad.append((k * per + j, idx))
    return bad


def model_at(ctx, h, k):
    t = HEADER + "Definition h : list item := " + clist([c_item(it) for it in h["items"][:k + 1]]) + ".\n"
    t += f"Eval vm_compute in (model_at init h {k}).\n"
    try:
        out = ctx.coq.eval_cases("c17explain", t)
        v = core.parse_coq_values(out)
        return v[0][:3000] if v else out[-1500:]
    except core.CoqError as e:
        return "coq error: " + e.log[-500:]


def history_level(ctx):
    n = 300 if ctx.thorough else 14
    nops = 40 if ctx.thorough else 30
    nprobes = 30 if ctx.thorough else 12
    hs = []
    for wi, wt in enumerate(WITNESSES):
        hs.append(run_history(ctx, 1000 + wi, 0, nprobes, witness=wt))
    for i in range(n):
        hs.append(run_history(ctx, ctx.seed + i, nops, nprobes))
    tot = {"ops": {}, "refused": 0, "probes": 0, "skipped": 0, "histories_with_placeholder": 0,
           "histories_with_renamed_subtree": 0}
    for h in hs:
        m = h["meta"]
        for k, v in m["ops"].items():
            tot["ops"][k] = tot["ops"].get(k, 0) + v
        tot["refused"] += m["refused"]
        tot["probes"] += m["probes"]
        tot["skipped"] += m["skipped"]
        tot["histories_with_placeholder"] += m["placeholders"] > 0
        tot["histories_with_renamed_subtree"] += m["renamed_subtrees"] > 0
        cmds = [x[0] for x in h["log"]]
        ctx.count({"seed": h["seed"], "commands": cmds[:10] + ["..."], "n": len(cmds)},
                  nontrivial=m["placeholders"] > 0 or m["renamed_subtrees"] > 0 or m["refused"] > 0)
        ctx.coverage["evaluations"] += len(h["items"]) - 1
    shown = 0
    for h in hs:
        if h["error"] and shown < 2:
            shown += 1
            ctx.violation("the check could not run a history on the implementation",
                          {"seed": h["seed"], "log": h["log"][-12:], "error": h["error"]})
        if h["violation"] and shown < 3:
            shown += 1
            what, rep = h["violation"]
            rep = dict(rep)
            rep["seed"] = h["seed"]
            rep["commands_and_replies"] = h["log"][-25:]
            ctx.violation(what, rep)
    bad = coq_compare(ctx, "c17h", hs)
    for (i, idx) in bad[:3]:
        h = hs[i]
        k = idx[0]
        it = h["items"][k]
        # the commands sent before the item that differs
        ctx.violation("model (proved) and implementation disagree on " +
                      {"op": "the result of a command", "list": "a LIST/LSUB answer", "rows": "the mailboxes table",
                       "dirs": "the directories on disk", "msgs": "the messages of a mailbox"}[it[0]],
                      {"seed": h["seed"], "first_difference_at_item": k, "all_differences": idx[:20],
                       "item_kind": it[0], "implementation": repr(it[1:])[:3000], "model": model_at(ctx, h, k),
                       "commands_and_replies": [[c, r if j >= h["pos"][k] - 15 else "..."]
                                                for j, (c, r) in enumerate(h["log"][:h["pos"][k]])]})
    ctx.coverage["traces_validated_against_impl"] = len(hs) - len(bad)
    ctx.extra["histories"] = len(hs)
    ctx.extra["history_input_distribution"] = tot


# ----------------------------------------------------------------------------- glob level
GLOB_CHARS = list("ab/.*%[]()|+?^$ {}-~#&AIx") + ["\\"]


def gen_glob_case(rng):
    r = rng.random()
    if r < 0.3:
        pat = rng.choice(PATTERNS)
        ref = rng.choice(REFS)
    else:
        pat = "".join(rng.choice(GLOB_CHARS) for _ in range(rng.randint(0, 6)))
        ref = "" if rng.random() < 0.6 else "".join(rng.choice(GLOB_CHARS) for _ in range(rng.randint(0, 3)))
    r = rng.random()
    if r < 0.35:
        # a name derived from the pattern so that matches are frequent
        name = ""
        for c in ref + pat:
            if c == "*":
                name += "".join(rng.choice("ab/.x") for _ in range(rng.randint(0, 3)))
            elif c == "%":
                name += "".join(rng.choice("ab.x/" if rng.random() < 0.15 else "ab.x") for _ in range(rng.randint(0, 3)))
            else:
                name += c if rng.random() < 0.93 else rng.choice(GLOB_CHARS)
    elif r < 0.5:
        name = gen_name(rng)
    else:
        name = "".join(rng.choice(GLOB_CHARS) for _ in range(rng.randint(0, 7)))
    return ref, pat, name


def glob_level(ctx):
    from asimap.mbox import InvalidMailbox, Mailbox

    refused = 0
    src = inspect.getsource(Mailbox._mbox_pattern_to_re)
    pin = 'mbox_match.replace(r"\\*", r".*").replace(r"%", r"[^\\/]*")'
    if pin not in src or 're.escape(mbox_match)' not in src:
        ctx.proof_broken.append({"what": "pin: the wildcard rewrites of Mailbox._mbox_pattern_to_re changed",
                                 "expected": pin})
    n = 12000 if ctx.thorough else 2500
    cases = []
    skipped = 0
    while len(cases) < n:
        ref, pat, name = gen_glob_case(ctx.rng)
        if not canonical_pattern(pat):
            skipped += 1
            continue
        try:
            rx = Mailbox._mbox_pattern_to_re(ref, pat)
        except InvalidMailbox:
            refused += 1    # a reference/pattern that names something outside the mail directory (C09)
            continue
        try:
            obs = re.search(rx, name) is not None
            obs_inbox = re.search("(?i)" + rx, "inbox") is not None
        except re.error as e:
            ctx.violation("the regular expression built for a LIST pattern does not compile",
                          {"reference": ref, "pattern": pat, "regex": rx, "error": str(e)})
            continue
        cases.append((ref, pat, name, obs, obs_inbox))
        ctx.count({"reference": ref, "pattern": pat, "name": name}, nontrivial=obs or obs_inbox)
    texts = []
    per = 500
    for i in range(0, len(cases), per):
        t = HEADER
        t += ("Definition gcheck (c : string * string * bool * bool) : bool :=\n"
              "  let '(ip, n, o, oi) := c in Bool.eqb (glob (la ip) (la n)) o && "
              "Bool.eqb (glob (lower (la ip)) (la \"inbox\")) oi.\n"
              "Fixpoint gbad (i : nat) (l : list (string * string * bool * bool)) : list nat :=\n"
              "  match l with [] => [] | c :: r => if gcheck c then gbad (S i) r else i :: gbad (S i) r end.\n")
        t += "Definition cases := " + clist(
            [f"({cstr(ref + pat)}, {cstr(name)}, {cbool(o)}, {cbool(oi)})" for (ref, pat, name, o, oi) in cases[i:i + per]]
        ) + ".\nEval vm_compute in (gbad 0 cases).\n"
        texts.append(t)
    outs = ctx.coq.eval_many("c17g", texts)
    bad = []
    for k, out in enumerate(outs):
        v = core.parse_coq_values(out)
        bad += [k * per + int(x) for x in re.findall(r"\d+", v[0])]
    for i in bad[:3]:
        ref, pat, name, o, oi = cases[i]
        ctx.violation("LIST wildcard matching differs from RFC 3501 `*` / `%` semantics (Glob.glob, proved equal to it)",
                      {"reference": ref, "pattern": pat, "name": name, "regex": Mailbox._mbox_pattern_to_re(ref, pat),
                       "implementation_matches_name": o, "implementation_matches_INBOX": oi})
    ctx.extra["glob_level"] = {"cases": len(cases), "matching": sum(1 for c in cases if c[3]),
                               "matching_inbox": sum(1 for c in cases if c[4]),
                               "skipped_non_canonical_patterns": skipped,
                               "refused_as_outside_the_mail_directory": refused}


def source_pins(ctx):
    import asimap.mbox as mb

    src = inspect.getsource(mb._helper_rename_folder)
    if "substr(name,1,?)=?" not in src or "LIKE" in src.replace("NOTE", "").split("to_change = {}")[1][:400]:
        ctx.proof_broken.append({"what": "pin: the child query of _helper_rename_folder is not the exact-prefix query "
                                         "the model assumes (SELECT ... WHERE name=? OR substr(name,1,?)=?)"})


def known_findings(ctx):
    """replay the witness of every listed finding of this property; report it when it still fails"""
    for f in ctx.findings():
        fid = f.get("id", "")
        d = Driver(1)
        try:
            if fid == "C17-digit-level":
                d.send("A", 'CREATE "a"')
                body = "Subject: cid-1\r\n\r\nmessage 1\r\n"
                d.send("A", f'APPEND "a" () {{{len(body)}}}\r\n{body}')
                d.send("A", 'CREATE "a/12"')
                d.w.restart()
                d.w.run(d.w.server.find_all_folders())
                d.w.session("B")
                out = d.send("B", 'EXAMINE "a"')
                if out is None or tagged_of(out) != "OK":
                    ctx.known_finding(fid, f["what"])
            elif fid == "C17-inbox-spelling-level":
                d.send("A", 'CREATE "INBOX/z"')
                rows = [r[0] for r in d.table()]
                if "INBOX" in d.dirs() and "INBOX" not in rows and "INBOX/z" in rows:
                    ctx.known_finding(fid, f["what"])
        except Exception:  # noqa: BLE001
            ctx.known_finding(fid, f["what"])
        finally:
            d.close()


def run(ctx):
    ctx.coverage["rule"] = (
        "glob level: reference/pattern/name triples over the characters ab/.*%[]()|+?^$ {}-~#&AIx\\ (30% from the "
        "pattern grammar, names derived from the pattern in 35% of the cases) through Mailbox._mbox_pattern_to_re + re; "
        "history level: 9 witness histories plus 14 (quick) / 300 (thorough) random histories of 30 / 40 commands "
        "CREATE 27% DELETE 20% RENAME 16% SUBSCRIBE 11% UNSUBSCRIBE 5% APPEND 11% EXAMINE 5% restart 5% over names of "
        "depth <= 3 built from the levels a, b, 'a b', a.b, a[b, A, a_b, c, inbox, Junk, 'Sent Messages', INBOX in "
        "three spellings and the odd names 123, ' ' (70% re-use of a name in the table or seen earlier, its parent or "
        "a child); after every command the mailboxes table and the directory tree, after every RENAME and at the end "
        "the messages of every mailbox; LIST/LSUB probes: 25% of the commands are followed by a random one, at the end "
        f"{len(PATTERNS)} patterns x LIST/LSUB, {len(set(REFS)) - 1} references x 4 patterns, 6 patterns x 7 "
        "LIST-EXTENDED option sets and random selection/return options and multi-pattern forms; distinct by command "
        "list; non-trivial = the history had a placeholder, a renamed subtree or a refused command")
    import time

    t0 = time.time()
    ctx.prove("Properties/C17.v", extra_targets=["Model/NamespaceCmp.vo"])
    t1 = time.time()
    source_pins(ctx)
    glob_level(ctx)
    t2 = time.time()
    history_level(ctx)
    known_findings(ctx)
    ctx.extra["phase_seconds"] = {"proof": round(t1 - t0, 1), "glob_level": round(t2 - t1, 1),
                                  "history_level": round(time.time() - t2, 1)}
    ctx.assume += [
        "commands are atomic with respect to one another (interleavings are C10's)",
        "mailbox names reach the namespace code as the parser delivers them: the check sends quoted names without "
        "empty levels, '.' or '..' levels (path normalisation is C09's, the INBOX prefix bug of the atom parser C08's)",
        "guard: names of more than one level whose first level is a spelling of INBOX other than 'inbox' are not sent",
        "\\Marked / \\Unmarked are not part of the property and are projected away",
        "references and patterns are canonical (no leading '/', no '//', '.' or '..'): Mailbox._mbox_pattern_to_re "
        "normalises the pattern with os.path.normpath, which is not modelled",
        "the user server's periodic find_all_folders / check_all_folders is run at start-up and at every restart only",
    ]
    ctx.trusted += ["Python's re module for the three constructs the translation produces (literal, .*, [^/]*): modelled "
                    "by Glob.re_match and measured by the glob-level comparison",
                    "SQLite (name = ?, substr, REGEXP callback) and the POSIX directory operations, each taken atomic"]


def replay(ctx, path):
    r = json.load(open(path))
    print(json.dumps(r, indent=1)[:6000])
    cmds = [c for c, _ in r.get("commands_and_replies", [])]
    if cmds:
        print("re-running the commands on the implementation:")
        d = Driver(r.get("seed", 0))
        try:
            for c in cmds:
                if c.startswith("(orderly restart"):
                    d.w.restart()
                    d.w.run(d.w.server.find_all_folders())
                    d.w.session("A")
                    d.w.session("B")
                    print(">> (restart)")
                    continue
                sess = "B" if c.split()[0] in ("EXAMINE", "UNSELECT", "UID") else "A"
                out = d.send(sess, c)
                print(">>", c.split("\r\n")[0], "\n   ", d.log[-1][1])
        finally:
            d.close()
    return 0
