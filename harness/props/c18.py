"""C18 — no access without the right password; brute-force throttling holds.

Proof:  coq/Properties/C18.v (refinement of the reference throttle by Gen/Throttle.v for every
        timed sequence, lockout / no-false-lockout / expiry corollaries)
Tie:    G  throttle.py's two functions and three constants are translated on every run
        X  (a) the Python functions composed as do_login composes them, (b) the real
           PreAuthenticated.do_login and POP3 PASS handler with a real password file and the
           virtual clock, (c) every IMAP command sent to PreAuthenticated: only LOGIN with the
           right password changes the state, nothing else is accepted
"""
from __future__ import annotations

import asyncio
import os
import re
import sys
import tempfile
from pathlib import Path

import core
from core import clist, cstr, cz, cbool
import world as W

V = {"T": 0, "D": 1, "G": 2}

DEFS = """
From Asimap Require Import Base.Res Spec.RefThrottle.
Open Scope Z_scope.
Definition mk (t : Z) (u a : string) (ok : bool) := {| a_time := t; a_user := u; a_addr := a; a_pwok := ok |}.
Definition venc (v : verdict) : Z := match v with Throttled => 0 | Denied => 1 | Granted => 2 end.
Fixpoint zlist_eqb (a b : list Z) : bool :=
  match a, b with [] , [] => true | x :: a', y :: b' => (x =? y) && zlist_eqb a' b' | _, _ => false end.
Definition rcheck (c : list attempt * list Z) : bool := zlist_eqb (map venc (ref_run ref_init (fst c))) (snd c).
Fixpoint bad_from {A} (f : A -> bool) (i : nat) (cs : list A) : list nat :=
  match cs with [] => [] | c :: r => if f c then bad_from f (S i) r else i :: bad_from f (S i) r end.
"""
GDEFS = """
From Asimap Require Import Model.ThrottleM.
Definition gcheck (c : list attempt * list Z) : bool :=
  match model_run model_init (fst c) with Ok vs => zlist_eqb (map venc vs) (snd c) | Err _ => false end.
"""


def gen_sequence(rng, n):
    users = ["alice", "bob"]
    addrs = ["10.0.0.1", "10.0.0.2"]
    t = 0
    seq = []
    u0, a0 = rng.choice(users), rng.choice(addrs)
    for _ in range(n):
        t += rng.choice([0, 1, 1, 2, 5, 10, 30, 59, 60, 61, 61, 120])
        u = u0 if rng.random() < 0.75 else rng.choice(users)
        a = a0 if rng.random() < 0.75 else rng.choice(addrs)
        ok = rng.random() < 0.2
        seq.append((t, u, a, ok))
    return seq


def py_functions(seq):
    """the real throttle functions, composed as do_login composes them"""
    import asimap.throttle as th

    th.BAD_USER_AUTHS.clear()
    th.BAD_IP_AUTHS.clear()
    clock = [0.0]

    class T:
        @staticmethod
        def time():
            return clock[0]

    saved = th.time
    th.time = T
    out = []
    try:
        for (t, u, a, ok) in seq:
            clock[0] = float(t)
            if not th.check_allow(u, a):
                out.append(V["T"])
            elif ok:
                out.append(V["G"])
            else:
                th.login_failed(u, a)
                out.append(V["D"])
    finally:
        th.time = saved
        th.BAD_USER_AUTHS.clear()
        th.BAD_IP_AUTHS.clear()
    return out


def coq_compare(ctx, name, cases, with_gen):
    chunks = [cases[i:i + 300] for i in range(0, len(cases), 300)]
    texts = []
    for ch in chunks:
        t = DEFS + (GDEFS if with_gen else "")
        items = []
        for seq, obs in ch:
            atts = clist([f"(mk {cz(t_)} {cstr(u)} {cstr(a)} {cbool(ok)})" for (t_, u, a, ok) in seq])
            items.append(f"({atts}, {clist([cz(x) for x in obs])})")
        t += "Definition cases := " + clist(items) + ".\n"
        t += "Eval vm_compute in (bad_from rcheck 0 cases).\n"
        if with_gen:
            t += "Eval vm_compute in (bad_from gcheck 0 cases).\n"
        texts.append(t)
    outs = ctx.coq.eval_many(name, texts)
    rb, gb = [], []
    for k, out in enumerate(outs):
        vals = core.parse_coq_values(out)
        ls = [[int(x) for x in re.findall(r"\d+", v)] for v in vals]
        rb += [k * 300 + i for i in ls[0]]
        if with_gen:
            gb += [k * 300 + i for i in ls[1]]
    return rb, gb


def function_level(ctx, proof_ok):
    n = 3000 if ctx.thorough else 400
    cases = []
    # the boundary witnesses first
    fixed = [
        [(0, "u", "a", False), (10, "u", "a", False), (20, "u", "a", False), (30, "u", "a", False),
         (40, "u", "a", False), (50, "u", "a", True), (100, "u", "a", True), (101, "u", "a", True)],
        [(0, "u", "a", False)] * 4 + [(1, "u", "a", True)],
        [(i, f"u{i}", "a", False) for i in range(6)] + [(7, "fresh", "a", True), (67, "fresh", "a", True)],
        [(0, "u", "a", False), (60, "u", "a", False), (120, "u", "a", False), (180, "u", "a", False),
         (240, "u", "a", False), (300, "u", "a", True), (301, "u", "b", True)],
        [(0, "u", "a", False), (61, "u", "a", False), (62, "u", "a", False), (63, "u", "a", False),
         (64, "u", "a", False), (65, "u", "b", True)],
    ]
    seqs = fixed + [gen_sequence(ctx.rng, ctx.rng.randint(5, 16)) for _ in range(n)]
    lock = 0
    for s in seqs:
        obs = py_functions(s)
        cases.append((s, obs))
        nt = V["T"] in obs
        lock += nt
        ctx.count({"attempts": s, "verdicts": obs}, nontrivial=nt)
    gen_ok = ctx.extra.get("generated", {}).get("Throttle", {}).get("status") == "ok"
    try:
        rb, gb = coq_compare(ctx, "c18f", cases, with_gen=gen_ok and proof_ok)
    except core.CoqError:
        rb, gb = coq_compare(ctx, "c18f", cases, with_gen=False)
    for i in rb[:3]:
        s, obs = cases[i]
        ctx.violation("throttle verdicts differ from the reference of the property",
                      {"attempts (time,user,addr,password_ok)": s, "observed (0 refused,1 denied,2 granted)": obs,
                       "how": "asimap.throttle.check_allow/login_failed composed as do_login does, patched clock"})
    if gb:
        ctx.proof_broken.append({"what": "translator validation: Gen/Throttle.v and throttle.py differ",
                                 "attempts": cases[gb[0]][0]})
    ctx.extra["function_level"] = {"sequences": len(cases), "with_a_lockout": lock}


# ------------------------------------------------------------------ real login paths
class FakeClient:
    def __init__(self, addr):
        self.name = f"{addr}:1234"
        self.rem_addr = addr
        self.out = []
        self.debug = False

        class Wr:
            def get_extra_info(self, _):
                return (addr, 1234)

        self.writer = Wr()

    async def push(self, *data):
        for d in data:
            self.out.append(d.encode("latin-1") if isinstance(d, str) else bytes(d))


def login_level(ctx):
    """the real PreAuthenticated.do_login and POP3 PASS with a real password file"""
    import asimap.auth as auth
    import asimap.throttle as th
    from asimap.client import PreAuthenticated
    from asimap.hashers import make_password
    from asimap.parse import IMAPClientCommand
    import asimap.pop3_server as p3

    tmp = Path(tempfile.mkdtemp(prefix="asimap-verif-pw-"))
    loop = W.VLoop()
    asyncio.set_event_loop(loop)
    shim = W._TimeShim(loop)
    saved_time = th.time
    th.time = shim
    saved_pw = (auth.PW_FILE_LOCATION, auth.PW_FILE_LAST_TIMESTAMP, dict(auth.USERS))
    try:
        (tmp / "alice").mkdir()
        (tmp / "bob").mkdir()
        pw = tmp / "pw.txt"
        pw.write_text(f"alice:{make_password('secret')}:{tmp / 'alice'}\n"
                      f"bob:{make_password(None)}:{tmp / 'bob'}\n")
        auth.PW_FILE_LOCATION = str(pw)
        auth.PW_FILE_LAST_TIMESTAMP = 0.0
        auth.USERS.clear()
        cases = []
        nseq = 40 if ctx.thorough else 8
        for k in range(nseq):
            th.BAD_USER_AUTHS.clear()
            th.BAD_IP_AUTHS.clear()
            pop3 = (k % 3 == 2)
            seq, obs = [], []
            for _ in range(ctx.rng.randint(6, 12)):
                dt = ctx.rng.choice([0, 1, 2, 5, 30, 59, 60, 61, 70])
                loop.run_until_complete(asyncio.sleep(dt))
                user = ctx.rng.choice(["alice", "alice", "alice", "bob", "nobody"])
                addr = ctx.rng.choice(["10.0.0.1", "10.0.0.1", "10.0.0.2"])
                pwd = ctx.rng.choice(["secret", "wrong", "wrong", "wrong", "", "x y"])
                ok = (user == "alice" and pwd == "secret")
                now = round(shim.time())
                fc = FakeClient(addr)
                if not pop3:
                    h = PreAuthenticated(fc)
                    q = '"%s"' % pwd
                    cmd = IMAPClientCommand(f'a1 LOGIN {user} {q}')
                    cmd.parse()
                    loop.run_until_complete(h.command(cmd))
                    line = fc.out[-1]
                    if h.state == "authenticated":
                        v = V["G"]
                    elif b"Too many authentication failures" in line:
                        v = V["T"]
                    elif line.startswith(b"a1 NO"):
                        v = V["D"]
                    else:
                        ctx.violation("LOGIN: unexpected reply", {"reply": repr(fc.out), "user": user, "password": pwd})
                        continue
                    if v == V["G"] and not ok:
                        ctx.violation("LOGIN authenticated without the account's password",
                                      {"user": user, "password": pwd, "reply": repr(fc.out)})
                else:
                    if pwd == "":
                        continue  # POP3 'PASS' with no argument is a syntax error, not an attempt
                    iface = p3.POP3SubprocessInterface(fc)
                    granted = []

                    async def fake_connect(u, granted=granted):
                        granted.append(u.username)

                    iface.get_and_connect_subprocess = fake_connect
                    loop.run_until_complete(iface.message(f"USER {user}".encode()))
                    loop.run_until_complete(iface.message(f"PASS {pwd}".encode()))
                    line = fc.out[-1]
                    if granted:
                        v = V["G"]
                    elif b"too many failed attempts" in line:
                        v = V["T"]
                    elif line.startswith(b"-ERR invalid username or password"):
                        v = V["D"]
                    else:
                        ctx.violation("POP3 PASS: unexpected reply", {"reply": repr(fc.out), "user": user})
                        continue
                    if (v == V["G"]) != (ok and v != V["T"]) and v != V["T"]:
                        ctx.violation("POP3 PASS outcome does not match the password",
                                      {"user": user, "password": pwd, "reply": repr(fc.out)})
                seq.append((now, user, addr, ok))
                obs.append(v)
            cases.append((seq, obs))
            ctx.count({"path": "POP3 USER/PASS" if pop3 else "IMAP LOGIN", "attempts": seq, "verdicts": obs},
                      nontrivial=V["T"] in obs)
        rb, _ = coq_compare(ctx, "c18l", cases, with_gen=False)
        for i in rb[:3]:
            ctx.violation("login path verdicts differ from the reference throttle",
                          {"attempts (time,user,addr,password_ok)": cases[i][0], "observed": cases[i][1]})
        ctx.extra["login_level_sequences"] = len(cases)
        password_changes(ctx, loop, pw, tmp)
        gate_level(ctx, loop)
    finally:
        th.time = saved_time
        th.BAD_USER_AUTHS.clear()
        th.BAD_IP_AUTHS.clear()
        auth.PW_FILE_LOCATION, auth.PW_FILE_LAST_TIMESTAMP = saved_pw[0], saved_pw[1]
        auth.USERS.clear()
        auth.USERS.update(saved_pw[2])
        try:
            loop.run_until_complete(loop.shutdown_default_executor())
        finally:
            loop.close()
        import shutil

        shutil.rmtree(tmp, ignore_errors=True)


def password_changes(ctx, loop, pw, tmp):
    """the password file is rewritten by the external tool while the server runs: only the CURRENT password of an
    account that is not disabled authenticates (IMAP LOGIN and POP3 PASS), for accounts the server has already loaded
    as for new ones"""
    import asimap.throttle as th
    from asimap.client import PreAuthenticated
    from asimap.hashers import make_password
    from asimap.parse import IMAPClientCommand
    import asimap.pop3_server as p3

    def attempt(user, pwd, pop3):
        th.BAD_USER_AUTHS.clear()
        th.BAD_IP_AUTHS.clear()
        fc = FakeClient("10.9.9.9")
        if not pop3:
            h = PreAuthenticated(fc)
            cmd = IMAPClientCommand(f'a1 LOGIN {user} "{pwd}"')
            cmd.parse()
            loop.run_until_complete(h.command(cmd))
            return h.state == "authenticated", fc.out
        iface = p3.POP3SubprocessInterface(fc)
        granted = []

        async def fake_connect(u, granted=granted):
            granted.append(u.username)

        iface.get_and_connect_subprocess = fake_connect
        loop.run_until_complete(iface.message(f"USER {user}".encode()))
        loop.run_until_complete(iface.message(f"PASS {pwd}".encode()))
        return bool(granted), fc.out

    stamp = [int(os.path.getmtime(pw)) + 10]

    def rewrite(entries):
        pw.write_text("".join(f"{u}:{make_password(p)}:{tmp / u}\n" for u, p in entries))
        stamp[0] += 10
        os.utime(pw, (stamp[0], stamp[0]))

    (tmp / "carol").mkdir(exist_ok=True)
    steps = [
        # (file contents or None to keep, [(user, password, must_authenticate)])
        (None, [("alice", "secret", True), ("alice", "newsecret", False)]),
        ([("alice", "newsecret"), ("bob", None)], [("alice", "secret", False), ("alice", "newsecret", True)]),
        ([("alice", None), ("bob", "bobpw"), ("carol", "cpw")],
         [("alice", "newsecret", False), ("alice", "secret", False), ("bob", "bobpw", True), ("carol", "cpw", True)]),
        ([("bob", "bobpw2")], [("carol", "cpw", False), ("bob", "bobpw", False), ("bob", "bobpw2", True), ("alice", "newsecret", False)]),
    ]
    n = 0
    for entries, probes in steps:
        if entries is not None:
            rewrite(entries)
        for user, pwd, want in probes:
            for pop3 in (False, True):
                got, out = attempt(user, pwd, pop3)
                n += 1
                ctx.count({"password_file": entries, "user": user, "password": pwd, "pop3": pop3}, nontrivial=True)
                if got != want:
                    ctx.violation("after the password file was rewritten a login is decided by something other than the "
                                  "account's current password",
                                  {"password_file_now": [(u, "disabled" if p_ is None else p_) for u, p_ in (entries or [("alice", "secret"), ("bob", None)])],
                                   "user": user, "password": pwd, "path": "POP3 USER/PASS" if pop3 else "IMAP LOGIN",
                                   "authenticated": got, "must_authenticate": want, "reply": repr(out)[-300:]})
    ctx.extra["password_change_probes"] = n


EXAMPLES = {
    "append": 'APPEND inbox {5}\r\nhello', "authenticate": "AUTHENTICATE PLAIN", "capability": "CAPABILITY",
    "check": "CHECK", "close": "CLOSE", "copy": "COPY 1 foo", "create": "CREATE foo", "delete": "DELETE foo",
    "examine": "EXAMINE inbox", "expunge": "EXPUNGE", "fetch": "FETCH 1 FLAGS", "id": "ID NIL", "idle": "IDLE",
    "list": 'LIST "" "*"', "login": "LOGIN nobody wrong", "logout": "LOGOUT", "lsub": 'LSUB "" "*"',
    "move": "MOVE 1 foo", "namespace": "NAMESPACE", "noop": "NOOP", "rename": "RENAME a b",
    "search": "SEARCH ALL", "select": "SELECT inbox", "status": "STATUS inbox (MESSAGES)",
    "store": "STORE 1 +FLAGS (\\Seen)", "subscribe": "SUBSCRIBE foo", "unselect": "UNSELECT",
    "unsubscribe": "UNSUBSCRIBE foo", "uid": "UID FETCH 1 FLAGS",
}
MAILBOX_COMMANDS = {"append", "check", "close", "copy", "create", "delete", "examine", "expunge", "fetch", "list",
                    "lsub", "move", "rename", "search", "select", "status", "store", "subscribe", "unselect",
                    "unsubscribe"}


def gate_level(ctx, loop):
    """every IMAP command, UID forms included, sent to PreAuthenticated / the front-end's routing gate"""
    from asimap.client import PreAuthenticated
    from asimap.parse import IMAPClientCommand, IMAPCommand
    from asimap.server import IMAPSubprocessInterface
    import asimap.throttle as th

    names = sorted(str(c.value) for c in IMAPCommand)
    missing = [n for n in names if n not in EXAMPLES]
    if missing:
        ctx.proof_broken.append({"what": "gate check: no example for commands", "commands": missing})
    handlers = sorted(n[3:] for n in dir(PreAuthenticated) if n.startswith("do_"))
    ctx.extra["preauth_handlers"] = handlers
    bad = [h for h in handlers if h in MAILBOX_COMMANDS]
    if bad:
        ctx.violation("PreAuthenticated handles a mailbox command", {"handlers": bad})
    for n in names:
        if n not in EXAMPLES:
            continue
        forms = [EXAMPLES[n]] + ([f"UID {EXAMPLES[n]}"] if n in ("copy", "fetch", "store", "search", "move", "expunge") else [])
        for form in forms:
            th.BAD_USER_AUTHS.clear()
            th.BAD_IP_AUTHS.clear()
            fc = FakeClient("10.9.9.9")
            iface = IMAPSubprocessInterface(fc)
            sent = []

            async def fake_push(*data, sent=sent):
                sent.append(data)

            async def fake_connect(u, sent=sent):
                sent.append(("CONNECT", u.username))

            iface.push = fake_push
            iface.get_and_connect_subprocess = fake_connect
            if "UID EXPUNGE" in form:
                form = "UID EXPUNGE 1"
            keep = loop.run_until_complete(iface.message(f"t1 {form}".encode("latin-1")))
            st = str(iface.client_handler.state)
            ctx.count({"preauth_command": form, "state_after": st}, nontrivial=True)
            if sent:
                ctx.violation("an unauthenticated command reached the user process",
                              {"command": form, "forwarded": repr(sent)})
            if st == "authenticated":
                ctx.violation("an unauthenticated session became authenticated without the password",
                              {"command": form, "reply": repr(fc.out)})
            if n in MAILBOX_COMMANDS:
                tagged = [o for o in fc.out if o.startswith(b"t1 ")]
                if len(tagged) != 1 or not (tagged[0].startswith(b"t1 BAD") or tagged[0].startswith(b"t1 NO")):
                    ctx.violation("a mailbox command was not refused before authentication",
                                  {"command": form, "reply": repr(fc.out)})


def run(ctx):
    ctx.coverage["rule"] = ("timed attempt sequences (5-16 attempts, 2 users x 2 addresses, clock steps drawn from "
                            "{0,1,2,5,10,30,59,60,61,120}, 20% correct passwords, biased to repeat one user/address) "
                            "through the real throttle functions, through PreAuthenticated.do_login and the POP3 PASS "
                            "handler with a real password file; every IMAP command through the pre-authentication "
                            "gate. non-trivial = the sequence contains at least one throttled attempt (or is a gate case)")
    ok = ctx.prove("Properties/C18.v")
    function_level(ctx, ok)
    login_level(ctx)
    ctx.assume += ["password hashing (hashers.py) is exercised, not modelled: pw_ok is an oracle of the model",
                   "time.time() is non-decreasing", "clock values are integers in the correspondence runs"]


def replay(ctx, path):
    import json

    r = json.load(open(path))
    print(json.dumps(r, indent=1)[:3000])
    key = "attempts (time,user,addr,password_ok)"
    if key in r:
        print("re-run on the implementation:", py_functions([tuple(x) for x in r[key]]))
    return 0
