"""C11 — a crash at any instant loses nothing acknowledged and never rebinds a UID.

Proof:  coq/Properties/C11.v — an effect-trace model of the commit protocols of APPEND and EXPUNGE
        and of the start-up reconciliation (Model/Crash.v): for EVERY prefix of the effect trace,
        recovery yields a state in which acknowledged messages are present, acknowledged removals
        stay removed, no revealed UID names another message and UIDNEXT is above every revealed UID
        (PARTIAL: commands and scenarios named in the file; a refuted variant is exhibited).
Tie:    X — the real server runs representative histories in a child process whose primitive
        durable effects (every SQL statement / commit, message file add / remove, .mh_sequences
        rewrite, pack, utime, rename, symlink, rmtree, folder removal) are counted by wrappers; at
        effect k the child is killed with os._exit (no cleanup); for EVERY k of every history the
        server is started again on the same directory (optionally after an MH delivery made while
        it was down) and the property's ledger oracle is evaluated; the effect traces observed are
        compared with the model's.
"""
import json
import multiprocessing as mp
import os
import re
import shutil
import sys
import tempfile
import traceback
from pathlib import Path

import core
import world as W

LIT = lambda cid: W.make_msg(cid)  # noqa: E731


def app(box, cid, flags=""):
    lit = LIT(cid)
    return f"APPEND {box} {flags + ' ' if flags else ''}{{{len(lit)}}}\r\n" + lit.decode()


HISTORIES = {
    # name: (setup commands run before the effects are counted, commands during which a crash is injected)
    "first_start": ([], ["@start", "SELECT inbox", app("inbox", 1)]),
    "append_store_expunge": (["@start", app("inbox", 1), app("inbox", 2), app("inbox", 3), "SELECT inbox"],
                             ["STORE 2 +FLAGS (\\Deleted kw1)", "EXPUNGE", app("inbox", 4, "(\\Seen)"), "STORE 1 FLAGS (\\Flagged)",
                              "FETCH 1:* (FLAGS BODY[])", "STORE 3 +FLAGS (\\Deleted)", "CLOSE"]),
    "copy_move": (["@start", "CREATE work", app("inbox", 1), app("inbox", 2, "(kw2)"), app("work", 3), "SELECT inbox"],
                  ["COPY 1:2 work", "UID MOVE 2 work", "@deliver inbox 2", "NOOP", "MOVE 1:* work"]),
    "expunge_tail_then_delivery": (["@start", app("inbox", 1), app("inbox", 2), app("inbox", 3), "SELECT inbox", "STORE 3 +FLAGS (\\Deleted)"],
                                   ["EXPUNGE", "@deliver inbox 1", "NOOP", "STORE 1:* +FLAGS (kw1)"]),
    "pack": (["@start"] + [app("inbox", i) for i in range(1, 7)] + ["SELECT inbox", "STORE 1:4 +FLAGS (\\Deleted)", "EXPUNGE"],
             ["@poll", app("inbox", 9), "STORE 1 +FLAGS (\\Answered)"]),
    # a flag is taken off the last message that carried it (its sequence becomes empty), set again, cleared with an empty list
    "flag_last_holder": (["@start", app("inbox", 1), app("inbox", 2), app("inbox", 3, "(\\Seen)"), "SELECT inbox"],
                         ["STORE 2 +FLAGS (\\Flagged kw1)", "STORE 2 -FLAGS (\\Flagged)", "NOOP", "STORE 3 +FLAGS (\\Deleted)",
                          "STORE 3 -FLAGS (\\Deleted)", "STORE 2 +FLAGS (\\Flagged)", "STORE 2 FLAGS ()", "STORE 3 -FLAGS (\\Seen)", "NOOP"]),
    # the message that is removed is the lowest-numbered unseen one (what SELECT reports as UNSEEN); two messages go, so
    # that the removal has several durable effects to be killed between
    "expunge_lowest_unseen": (["@start", app("inbox", 1), app("inbox", 2), app("inbox", 3), app("inbox", 4), "SELECT inbox",
                               "STORE 1:2 +FLAGS (\\Deleted)"],
                              ["EXPUNGE", "NOOP", "STORE 1 +FLAGS (kw1)"]),
    # a STORE over several messages of which the LAST already has the flag; then something that touches another mailbox only
    "store_last_unchanged": (["@start", "CREATE work", app("inbox", 1), app("inbox", 2), app("inbox", 3), "SELECT inbox",
                              "STORE 3 +FLAGS (\\Flagged kw1)"],
                             ["STORE 1:3 +FLAGS (\\Flagged)", "UID STORE 1:3 +FLAGS (kw1)", app("work", 9), "STORE 2:3 -FLAGS (kw1)",
                              app("work", 10)]),
    # RENAME INBOX moves real messages
    "rename_inbox": (["@start", app("inbox", 1), app("inbox", 2, "(\\Seen)"), app("inbox", 3, "(kw1)")],
                     ["RENAME inbox moved", app("inbox", 4), "NOOP"]),
    "namespace": (["@start", "CREATE aa/bb", app("aa/bb", 1), app("aa", 2), "SUBSCRIBE aa"],
                  ["RENAME aa/bb cc", "DELETE aa", "CREATE aa", "RENAME inbox old", app("cc", 3), "DELETE cc"]),
}


def snapshot(w):
    """white-box state of every active mailbox + content ids read from the files"""
    out = {}
    for name, mb in list(w.server.active_mailboxes.items()):
        msgs = []
        for key, uid in zip(mb.msg_keys, mb.uids):
            try:
                with open(os.path.join(str(w.root / name), str(key)), "rb") as f:
                    m = re.search(rb"Subject: cid-(\d+)", f.read(400))
                cid = int(m.group(1)) if m else -1
            except OSError:
                cid = -2
            flags = sorted(n for n, ks in mb.sequences.items() if key in ks and n != "Recent")
            msgs.append([uid, cid, flags])
        out[name] = {"vv": mb.uid_vv, "next": mb.next_uid, "msgs": msgs, "noselect": "\\Noselect" in mb.attributes}
    return out


def install_effect_counter(kill_at, trace, ledger_path):
    """wrap every primitive durable effect; at effect number kill_at the process dies"""
    import mailbox
    import shutil as _sh
    import aiosqlite.core as ac
    import aiofiles.os as aos
    import asimap.mbox as ambox
    import asimap.mh as amh

    state = {"n": 0, "armed": False}

    def tick(label):
        if not state["armed"]:
            return
        state["n"] += 1
        trace.append(label)
        if state["n"] == kill_at:
            os._exit(77)

    def wrap_sync(obj, name, label):
        orig = getattr(obj, name)

        def f(*a, **kw):
            tick(label if isinstance(label, str) else label(*a, **kw))
            return orig(*a, **kw)

        setattr(obj, name, f)

    def wrap_async(obj, name, label, skip=None):
        orig = getattr(obj, name)

        async def f(*a, **kw):
            if not (skip and skip(*a, **kw)):
                tick(label if isinstance(label, str) else label(*a, **kw))
            return await orig(*a, **kw)

        setattr(obj, name, f)

    def sql_label(self, fn, *a, **kw):
        name = getattr(fn, "__name__", "?")
        if name == "execute" and a:
            return "sql:" + " ".join(str(a[0]).split()[:3]).lower()
        return "sql:" + name

    def is_read(self, fn, *a, **kw):
        name = getattr(fn, "__name__", "?")
        if name in ("execute", "executescript") and a:
            return str(a[0]).lstrip().lower().startswith(("select", "vacuum", "pragma"))
        return name not in ("commit", "rollback", "executemany")

    wrap_async(ac.Connection, "_execute", sql_label, skip=is_read)
    wrap_sync(mailbox.MH, "add", "mh:add")
    wrap_sync(mailbox.MH, "remove", "mh:remove")
    wrap_sync(mailbox.MH, "set_sequences", "mh:set_sequences")
    wrap_sync(mailbox.MH, "pack", "mh:pack")
    wrap_sync(mailbox.MH, "remove_folder", "mh:remove_folder")
    wrap_async(amh.MH, "aremove", "mh:aremove")
    wrap_async(amh.MH, "aclear", "mh:aclear")
    wrap_async(ambox, "utime", "fs:utime")
    wrap_sync(_sh, "rmtree", "fs:rmtree")
    for nm in ("rename", "symlink", "remove", "unlink"):
        if hasattr(aos, nm):
            wrap_async(aos, nm, "fs:" + nm)
    wrap_sync(os, "rename", "fs:os.rename")
    wrap_sync(os, "symlink", "fs:os.symlink")
    return state


def child_run(root, hist, kill_at, ledger_path):
    """runs in a forked child: never returns normally when kill_at is reached"""
    setup, body = HISTORIES[hist]
    trace = []
    state = install_effect_counter(kill_at, trace, ledger_path)
    led = open(ledger_path, "a")

    def log(rec):
        led.write(json.dumps(rec) + "\n")
        led.flush()
        os.fsync(led.fileno())

    w = None
    cid_next = [1000]

    def run_cmd(c):
        nonlocal w
        if c == "@start":
            w = W.World(seed=1, root=root, pack_limits=(4, 0.8))
            w.session("S")
            return ["started"]
        if c.startswith("@deliver"):
            _, box, n = c.split()
            mh = w.folder(box)
            for _ in range(int(n)):
                cid_next[0] += 1
                mh.add(W.make_msg(cid_next[0]))
            w.bump_mtime(box)
            return ["delivered"]
        if c == "@poll":
            w.settle(25)
            return ["polled"]
        out = w.cmd("S", "t " + c)
        return [o.decode("latin-1")[:200] for o in out]

    for c in setup:
        run_cmd(c)
    if w is not None:
        log({"ack": "<setup>", "state": snapshot(w)})
    state["armed"] = True
    for c in body:
        log({"inflight": c.split("\r\n")[0][:80]})
        reply = run_cmd(c)
        log({"ack": c.split("\r\n")[0][:80], "reply": reply[-1] if reply else None, "state": snapshot(w) if w else {},
             "effects": list(trace)})
        del trace[:]
    state["armed"] = False
    log({"done": True, "total_effects": state["n"]})
    if w is not None:
        w.close()
    os._exit(0)


def recover_and_check(root, ledger_path, deliver_after_crash):
    """parent side: restart on the same directory and evaluate the property"""
    problems = []
    recs = [json.loads(l) for l in open(ledger_path) if l.strip()]
    acked = [r for r in recs if "ack" in r]
    inflight = None
    for r in recs:
        if "inflight" in r:
            inflight = r["inflight"]
        elif "ack" in r:
            inflight = None
    pre = acked[-1]["state"] if acked else {}
    # everything ever revealed: (box, vv, uid) -> cid
    revealed = {}
    maxuid = {}
    for r in acked:
        for box, st in r["state"].items():
            for uid, cid, fl in st["msgs"]:
                revealed.setdefault((box, st["vv"], uid), cid)
            maxuid[(box, st["vv"])] = max(maxuid.get((box, st["vv"]), 0), st["next"] - 1)
    if deliver_after_crash and (Path(root) / "inbox").is_dir():
        import mailbox
        mh = mailbox.MH(str(Path(root) / "inbox"), create=False)
        mh.add(W.make_msg(7777))
        p = Path(root) / "inbox"
        st = p.stat()
        os.utime(p, (st.st_mtime + 3, st.st_mtime + 3))
    try:
        w = W.World(seed=2, root=root, pack_limits=(4, 0.8))
    except Exception:
        return ["the server does not start again: " + traceback.format_exc()[-600:]], None
    after = {}
    try:
        # what IMAPUserServer.run() does before it accepts clients
        w.run(w.server.find_all_folders())
        w.server.initial_folder_scan = True      # as user_server_management_task does: the first scan looks at every folder
        w.run(w.server.check_all_folders())
        w.server.initial_folder_scan = False
        w.session("R")
        names = []
        for ch in w.cmd("R", 'r LIST "" "*"'):
            m = re.match(rb'^\* LIST \(([^)]*)\) "/" (.*)\r\n$', ch)
            if m and b"\\Noselect" not in m.group(1):
                names.append(m.group(2).decode("latin-1").strip('"'))
        for name in names:
            try:
                out = w.cmd("R", f'r SELECT "{name}"')
            except Exception:
                problems.append(f"SELECT {name} raised: " + traceback.format_exc()[-300:])
                continue
            if not out or not out[-1].startswith(b"r OK"):
                mb = w.server.active_mailboxes.get(name)
                if mb is not None and "\\Noselect" in mb.attributes:
                    continue
                problems.append(f"mailbox {name} cannot be selected after the restart: {out[-1:]!r}")
                continue
            try:
                fo = w.cmd("R", "r UID FETCH 1:* (FLAGS BODY.PEEK[HEADER.FIELDS (SUBJECT)])")
            except Exception:
                problems.append(f"FETCH in {name} raised after the restart: " + traceback.format_exc()[-300:])
                fo = []
            if fo and not fo[-1].startswith(b"r OK"):
                problems.append(f"FETCH in {name} after the restart: {fo[-1][:120]!r}")
            w.cmd("R", "r UNSELECT")
        after = snapshot(w)
    except Exception:
        problems.append("probing after the restart raised: " + traceback.format_exc()[-600:])
    finally:
        try:
            w.close()
        except Exception:
            pass
    adding = bool(inflight) and re.match(r"(APPEND|COPY|MOVE|UID MOVE|UID COPY|@deliver|NOOP|@poll|RENAME|CREATE)", inflight or "")
    removing = bool(inflight) and re.match(r"(EXPUNGE|CLOSE|MOVE|UID MOVE|UID EXPUNGE|DELETE|RENAME)", inflight or "")
    flagging = bool(inflight) and re.match(r"(STORE|UID STORE|FETCH|UID FETCH|COPY|MOVE|UID MOVE|UID COPY)", inflight or "")
    renaming = bool(inflight) and inflight.startswith(("RENAME", "DELETE", "CREATE"))
    for box, st in after.items():
        vv = st["vv"]
        for uid, cid, fl in st["msgs"]:
            old = revealed.get((box, vv, uid))
            if old is not None and old != cid:
                problems.append(f"{box}: UID {uid} (UIDVALIDITY {vv}) named content {old} before the crash and names {cid} now")
            if old is None and uid <= maxuid.get((box, vv), 0):
                problems.append(f"{box}: a message got UID {uid} although UIDs up to {maxuid[(box, vv)]} had been used (UIDVALIDITY {vv})")
        if st["next"] <= maxuid.get((box, vv), 0):
            problems.append(f"{box}: UIDNEXT {st['next']} is not above the revealed UID {maxuid[(box, vv)]}")
    for box, st in pre.items():
        if st.get("noselect"):
            continue
        now = after.get(box)
        if now is None:
            if not renaming:
                problems.append(f"mailbox {box} with {len(st['msgs'])} acknowledged messages is gone after the restart")
            elif (inflight or "").startswith("RENAME"):
                anywhere = {cid for b2 in after.values() for _, cid, _ in b2["msgs"]}
                lost = [cid for _, cid, _ in st["msgs"] if cid not in anywhere]
                if lost:
                    problems.append(f"{box}: acknowledged messages (contents {lost}) are in no mailbox after the restart "
                                    f"(killed inside a RENAME)")
            continue
        have = {cid for _, cid, _ in now["msgs"]}
        anywhere = {cid for b2 in after.values() for _, cid, _ in b2["msgs"]}
        for uid, cid, fl in st["msgs"]:
            if (inflight or "").startswith("RENAME") and cid not in anywhere:
                # a RENAME that was killed half way may leave a message in the old mailbox, the new one or both - not nowhere
                problems.append(f"{box}: acknowledged message (content {cid}, UID {uid}) is in no mailbox after the restart "
                                f"(killed inside {inflight.split()[0]} {inflight.split()[1]})")
            if cid not in have and not removing and not renaming:
                problems.append(f"{box}: acknowledged message (content {cid}, UID {uid}) is missing after the restart")
        if now["vv"] == st["vv"]:
            nowf = {uid: fl for uid, _, fl in now["msgs"]}
            # the command that was in flight may or may not have changed the flags of the messages IT addresses;
            # every other message keeps its acknowledged flags
            touched = None
            ms = re.match(r"(UID )?(STORE|FETCH) ([0-9:*,]+) ", inflight or "")
            if ms:
                uids_here = [u for u, _, _ in st["msgs"]]
                top = (uids_here[-1] if uids_here else 0) if ms.group(1) else len(uids_here)
                nums = set()
                for part in ms.group(3).split(","):
                    ab = [top if x == "*" else int(x) for x in part.split(":")]
                    nums.update(range(min(ab), max(ab) + 1))
                touched = {u for u in uids_here if u in nums} if ms.group(1) else \
                    {uids_here[i - 1] for i in nums if 1 <= i <= len(uids_here)}
            for uid, cid, fl in st["msgs"]:
                exempt = flagging and (touched is None or uid in touched)
                if uid in nowf and nowf[uid] != fl and not exempt:
                    problems.append(f"{box}: acknowledged flags of UID {uid} were {fl} and are {nowf[uid]} after the restart")
        ever = {c for r in acked for b2, s2 in r["state"].items() if b2 == box for _, c, _ in s2["msgs"]}
        gone = ever - {cid for _, cid, _ in st["msgs"]}
        back = [cid for _, cid, _ in now["msgs"] if cid in gone]
        if back and not renaming:
            problems.append(f"{box}: messages whose expunge had been acknowledged are back: contents {back}")
    return problems, {"inflight": inflight, "acked": len(acked)}


def crash_case(args):
    hist, k, deliver = args
    tmp = Path(tempfile.mkdtemp(prefix="asimap-verif-crash-"))
    try:
        root = tmp / "Mail"
        root.mkdir()
        import mailbox
        mailbox.MH(str(root / "inbox"), create=True)
        ledger = str(tmp / "ledger.jsonl")
        pid = os.fork()
        if pid == 0:
            try:
                child_run(root, hist, k, ledger)
            except BaseException:
                with open(ledger, "a") as f:
                    f.write(json.dumps({"child_error": traceback.format_exc()[-1500:]}) + "\n")
                os._exit(3)
        _, status = os.waitpid(pid, 0)
        code = os.waitstatus_to_exitcode(status)
        recs = [json.loads(l) for l in open(ledger) if l.strip()] if os.path.exists(ledger) else []
        if code == 3:
            return {"hist": hist, "k": k, "problems": ["the history raised in the child: " + str([r for r in recs if "child_error" in r][-1:])],
                    "total": None, "effects": []}
        total = next((r["total_effects"] for r in recs if "done" in r), None)
        effects = [r.get("effects", []) for r in recs if "ack" in r]
        if code == 0:
            return {"hist": hist, "k": k, "problems": [], "total": total, "effects": effects, "completed": True}
        problems, info = recover_and_check(root, ledger, deliver)
        return {"hist": hist, "k": k, "deliver": deliver, "problems": problems, "info": info, "total": total, "effects": effects}
    finally:
        shutil.rmtree(tmp, ignore_errors=True)


def run(ctx):
    ctx.coverage["rule"] = ("for each representative history (first start-up incl. schema migrations; APPEND/STORE/EXPUNGE/FETCH/CLOSE; "
                            "COPY/MOVE with a delivery; expunge of the last message followed by a delivery; packing; CREATE/"
                            "RENAME/DELETE/RENAME INBOX) the server is killed before its k-th primitive durable effect for EVERY "
                            "k (quick: every 2nd k of four histories), restarted on the same directory, every mailbox selected "
                            "and fetched, and the ledger of acknowledged results compared; thorough adds a delivery made while "
                            "the server was down; non-trivial = the crash fell inside a command that had already performed an effect")
    ok = ctx.prove("Properties/C11.v")
    hists = list(HISTORIES) if ctx.thorough else ["first_start", "append_store_expunge", "expunge_tail_then_delivery", "namespace", "copy_move", "pack",
                                                   "expunge_lowest_unseen", "store_last_unchanged", "rename_inbox"]
    # dry runs: how many effects does each history have?
    with mp.get_context("fork").Pool(min(core.NPROC, len(hists))) as pool:
        dry = pool.map(crash_case, [(h, 10 ** 9, False) for h in hists], chunksize=1)
    jobs = []
    totals = {}
    for d in dry:
        if d["problems"]:
            ctx.violation("a history does not even run without a crash", d)
            continue
        totals[d["hist"]] = d["total"]
        step = 1 if ctx.thorough else 2
        for k in range(1, (d["total"] or 0) + 1, step):
            jobs.append((d["hist"], k, False))
            if ctx.thorough or k % 6 == 1:
                jobs.append((d["hist"], k, True))
    with mp.get_context("fork").Pool(core.NPROC) as pool:
        results = pool.map(crash_case, jobs, chunksize=2)
    shown = {}
    for r in results:
        ctx.count({"history": r["hist"], "kill_before_effect": r["k"], "delivery_while_down": r.get("deliver", False),
                   "inflight": (r.get("info") or {}).get("inflight")}, nontrivial=bool((r.get("info") or {}).get("inflight")))
        for p in r["problems"][:1]:
            key = (r["hist"], p[:60])
            known = None
            for f in ctx.findings():
                if re.search(f["trigger_regex"], p) and (f.get("history") in (None, r["hist"])) and \
                        bool(f.get("needs_delivery_while_down")) <= bool(r.get("deliver")):
                    known = f
            if known:
                ctx.extra.setdefault("known_hits", {}).setdefault(known["id"], 0)
                ctx.extra["known_hits"][known["id"]] += 1
                continue
            if key in shown:
                continue
            shown[key] = 1
            ctx.violation("after a crash the restarted server breaks the property: " + p,
                          {"history": r["hist"], "commands": HISTORIES[r["hist"]], "kill_before_effect_number": r["k"],
                           "delivery_while_the_server_was_down": r.get("deliver", False), "info": r.get("info"),
                           "all_problems": r["problems"][:6]})
    for fid, n in ctx.extra.get("known_hits", {}).items():
        f = [x for x in ctx.findings() if x["id"] == fid][0]
        ctx.known_finding(fid, f["what"])
    ctx.extra["effects_per_history"] = totals
    ctx.extra["crash_points"] = len(jobs)
    # the effect traces of APPEND and EXPUNGE observed on the implementation vs the model's
    effects_vs_model(ctx, dry)
    ctx.assume += ["a killed process loses its memory and the uncommitted SQLite transaction; files and committed rows persist "
                   "(no torn writes, no fsync reordering: SQLite's commit is taken as atomic and durable)",
                   "PARTIAL: the Coq model covers the commit protocols of APPEND and EXPUNGE and the start-up reconciliation"]


def effects_vs_model(ctx, dry):
    """the order of file vs database effects of APPEND and EXPUNGE is what Model/Crash.v assumes"""
    for d in dry:
        if d["hist"] != "append_store_expunge" or not d.get("effects"):
            continue
        eff = d["effects"]
        # body commands: STORE, EXPUNGE, APPEND, ...
        exp = eff[1] if len(eff) > 1 else []
        apn = eff[2] if len(eff) > 2 else []
        def shape(e):
            out = []
            for x in e:
                if x in ("mh:aremove", "mh:remove"):
                    out.append("FileDel")
                elif x == "mh:add":
                    out.append("FileAdd")
                elif x == "sql:commit":
                    out.append("Commit")
            return out
        s_exp, s_app = shape(exp), shape(apn)
        ctx.extra["observed_effect_shapes"] = {"EXPUNGE": s_exp, "APPEND": s_app}
        if "FileDel" in s_exp and "Commit" in s_exp and s_exp.index("FileDel") > max(i for i, x in enumerate(s_exp) if x == "Commit"):
            ctx.proof_broken.append({"what": "EXPUNGE no longer removes files before its last commit (Model/Crash.v assumes files first)", "observed": s_exp})
        if "FileAdd" in s_app and "Commit" in s_app and s_app.index("FileAdd") > s_app.index("Commit") and s_app.count("Commit") == 1:
            ctx.proof_broken.append({"what": "APPEND no longer adds the file before committing (Model/Crash.v assumes file first)", "observed": s_app})


def replay(ctx, path):
    r = json.load(open(path))
    print(json.dumps(r, indent=1)[:3000])
    if "history" in r and "kill_before_effect_number" in r:
        out = crash_case((r["history"], r["kill_before_effect_number"], r.get("delivery_while_the_server_was_down", False)))
        print("re-run:", json.dumps(out["problems"], indent=1))
        return 1 if out["problems"] else 0
    return 0
