"""C13 — mail delivered by MH tools appears correctly; MH tools see IMAP flag changes.

Proof:  coq/Properties/C13.v (deliveries appended with fresh larger UIDs and \\Recent, existing messages
        untouched, every session told in order; \\Seen iff not unseen; removal exact)
Tie:    X on Model/Mbox.v with an external MH agent (stdlib mailbox.MH) delivering single messages
        and batches, seen or unseen, to selected / idling / unselected / inactive mailboxes, followed
        by polls or commands; after EVERY command the folder's .mh_sequences is read "as an MH tool
        would" and compared with what the IMAP sessions see (no removed message mentioned).
"""
import json

import core
import mboxx
from props.c01 import report_diffs, _mix

MIX = {"deliver": 14, "poll": 9, "idle": 6, "noop": 6, "store": 12, "expunge": 9, "fetch": 8, "append": 5, "select": 7,
       "move": 3, "copy": 3, "close": 2, "check": 2, "search": 2, "unselect": 2, "restart": 1}


def run(ctx):
    ctx.coverage["rule"] = ("histories of 45/70 commands with an external MH agent delivering 1-3 messages (70% listed in "
                            "`unseen`) between IMAP commands from selected, idling and unselected sessions, management-task "
                            "polls, flag changes and expunges (freed message numbers get reused by later deliveries); "
                            "non-trivial = a delivery happened after an expunge in the same mailbox (number reuse) or while a "
                            "session was idling")
    ok = ctx.prove("Properties/C13.v")
    n = 400 if ctx.thorough else 64
    hs = mboxx.generate(ctx, n, 70 if ctx.thorough else 45, mix=MIX)
    for h in [h for h in hs if h.error][:3]:
        ctx.violation("the implementation raised while running a history",
                      {"seed": h.seed, "ops": [repr(o) for o in h.ops], "error": h.error})
    hs = [h for h in hs if not h.error]
    reuse = 0
    for h in hs:
        kinds = [o[0] for o in h.ops]
        first = min([i for i, x in enumerate(kinds) if x == "expunge"] or [10 ** 6])
        nt = "deliver" in kinds[first:] or any(o[0] == "deliver" and h.snaps[i][0] and any(s["idle"] for s in h.snaps[i][0]["sess"].values())
                                               for i, o in enumerate(h.ops))
        reuse += nt
        ctx.count({"sessions": h.nsess, "ops": [repr(o) for o in h.ops[:12]] + ["..."], "n_ops": len(h.ops), "seed": h.seed},
                  nontrivial=nt)
        for (k, d) in (mboxx.mh_oracle(h) + mboxx.uid_oracle(h) + mboxx.flag_oracle(h))[:1]:
            ctx.violation("MH folder and IMAP view disagree: " + d,
                          {"seed": h.seed, "step": k, "ops_up_to_step": [repr(o) for o in h.ops[:k + 1]],
                           "after": h.snaps[k][1]["boxes"] if h.snaps[k][1] else None})
    ctx.coq.build(["Model/MboxCmp.vo"])
    bad, _ = mboxx.compare(ctx, "c13", hs)
    report_diffs(ctx, "C13", hs, bad, "model (proved) and implementation disagree on what sessions are told about deliveries")
    ctx.coverage["traces_validated_against_impl"] = len(hs) - len({i for i, _ in bad})
    ctx.extra.update({"histories": len(hs), "op_mix": _mix(hs), "histories_with_reuse_or_idle_delivery": reuse})
    ctx.assume += ["'once the folder's modification time has advanced' = the agent's write moves the directory mtime to a "
                   "later whole second than the mailbox's stored mtime (the harness does that with utime)",
                   "the content of .mh_sequences is not part of Model/Mbox.v: that clause is decided by the oracle on the real file"]


def replay(ctx, path):
    print(json.dumps(json.load(open(path)), indent=1)[:4000])
    return 0
