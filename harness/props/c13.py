"""C13 — mail delivered by MH tools appears correctly; MH tools see IMAP flag changes.

Proof:  coq/Properties/C13.v (deliveries appended with fresh larger UIDs and \\Recent, existing messages
        untouched, every session told in order; \\Seen iff not unseen; removal exact)
Tie:    X on Model/Mbox.v with an external MH agent (stdlib mailbox.MH) delivering single messages
        and batches, seen or unseen, to selected / idling / unselected / inactive mailboxes, followed
        by polls or commands; after EVERY command the folder's .mh_sequences is read "as an MH tool
        would" and compared with what the IMAP sessions see (no removed message mentioned);
        X on Model/MhSeq.v: Mailbox.set_sequences_in_folder / _get_sequences_update_seen (real methods) on generated
        (msg_keys, sequences, folder file, forget, recent) inputs.
"""
import json

import core
import mboxx
import world as W
from props.c01 import report_diffs, _mix

MIX = {"deliver": 14, "poll": 9, "idle": 6, "noop": 6, "store": 12, "expunge": 9, "fetch": 8, "append": 5, "select": 7,
       "move": 3, "copy": 3, "close": 2, "check": 2, "search": 2, "unselect": 2, "restart": 1}


def midcommand_deliveries(ctx):
    """An MH tool is another process: it can deliver at any instant, also after a command has been let through (the folder
    was resynced for it) and before the command writes .mh_sequences.  The delivery is injected at the entry of the
    Mailbox method that does the command's work; afterwards the new message must be what the agent delivered: listed in
    `unseen` (or not) in the file, and shown so to the sessions."""
    import re
    from asimap.mbox import Mailbox
    cases = [("STORE 1:2 +FLAGS (\\Flagged)", "store"), ("STORE 2 FLAGS (kw1)", "store"), ("UID STORE 1 -FLAGS (\\Seen)", "store"),
             ("FETCH 1:2 BODY[]", "fetch"), ("FETCH 1:3 (FLAGS)", "fetch"), ("COPY 1:2 inbox", "copy"), ("COPY 1 work", "copy"),
             ("EXPUNGE", "expunge"), ("MOVE 2 work", "copy"), ("MOVE 2 work", "expunge"), ("APPEND", "append")]
    n = 0
    for text, meth in cases:
        for unseen in (True, False):
            for ndel in (1, 2):
                w = W.World(seed=ctx.rng.randrange(1 << 30))
                try:
                    w.session("S0"); w.session("A"); w.session("B")
                    w.cmd("S0", "x STATUS inbox (MESSAGES)")
                    w.cmd("S0", "x CREATE work")
                    w.deliver("inbox", 3, unseen=True)
                    w.cmd("A", "a SELECT inbox"); w.cmd("B", "b SELECT inbox")
                    w.cmd("A", "a STORE 3 +FLAGS (\\Deleted)")
                    w.drain("A"); w.drain("B")
                    orig = getattr(Mailbox, meth)
                    newkeys = []

                    def wrapped(self, *a, _orig=orig, **kw):
                        if not newkeys and self.name == "inbox":
                            newkeys.extend(w.deliver("inbox", ndel, unseen=unseen))
                        return _orig(self, *a, **kw)
                    setattr(Mailbox, meth, wrapped)
                    try:
                        if text == "APPEND":
                            lit = W.make_msg(900)
                            w.cmd("A", f"t APPEND inbox {{{len(lit)}}}\r\n" + lit.decode())
                        else:
                            w.cmd("A", "t " + text)
                    finally:
                        setattr(Mailbox, meth, orig)
                    if not newkeys:
                        continue
                    w.settle(25)
                    w.cmd("A", "n NOOP"); w.cmd("B", "n NOOP")
                    raw = mboxx.read_mh_sequences(str(w.root / "inbox" / ".mh_sequences"))
                    n += 1
                    ctx.count({"midcommand_delivery": text, "at": meth, "unseen": unseen, "messages": ndel}, nontrivial=True)
                    for key in newkeys:
                        in_unseen, in_seen = key in raw.get("unseen", []), key in raw.get("Seen", [])
                        mb = w.server.active_mailboxes["inbox"]
                        shown = None
                        if key in mb.msg_keys:
                            pos = mb.msg_keys.index(key) + 1
                            out = b"".join(w.cmd("B", f"f FETCH {pos} (FLAGS)"))
                            m = re.search(rb"FLAGS \(([^)]*)\)", out)
                            shown = m.group(1).decode() if m else None
                        ok = (in_unseen == unseen) and (in_seen != unseen or not in_seen and not unseen) and \
                            shown is not None and (("\\Seen" in shown.split()) != unseen)
                        if not ok:
                            ctx.violation("a message delivered while a command was in progress does not appear with the flags the "
                                          "agent gave it",
                                          {"command": text, "delivered_at_entry_of": "Mailbox." + meth, "delivered_unseen": unseen,
                                           "message_key": key, ".mh_sequences": raw, "flags_shown_to_a_session": shown})
                            break
                finally:
                    w.close()
    ctx.extra["midcommand_delivery_cases"] = n


def mhseq_level(ctx):
    """Mailbox.set_sequences_in_folder and Mailbox._get_sequences_update_seen (the real methods, on a Mailbox object whose
    MH folder is a recording stand-in for mailbox.MH.get_sequences/set_sequences) against Model/MhSeq.v: the dict handed to
    MH.set_sequences and the dict returned are compared with the model inside Coq, as sets per sequence name."""
    import asyncio
    import re
    from asimap.mbox import Mailbox
    from core import clist, cz, cstr

    NAMES = ["unseen", "Seen", "flagged", "replied", "Recent", "kw1", "Deleted"]
    rng = ctx.rng

    class Folder:
        def __init__(self, seqs):
            self.seqs, self.written, self._path = seqs, None, "/nonexistent"

        def get_sequences(self):
            return {k: list(v) for k, v in self.seqs.items()}

        def set_sequences(self, d):
            self.written = {k: list(v) for k, v in d.items()}

    class Locked:
        def locked(self):
            return True

    def some(pool, p):
        return sorted(k for k in pool if rng.random() < p)

    def mk(msg_keys, folder):
        mb = Mailbox.__new__(Mailbox)
        mb.mailbox, mb.msg_keys, mb.mh_sequences_lock = Folder(folder), list(msg_keys), Locked()
        mb.marked = lambda m: False
        mb.name, mb.server = "x", type("S", (), {"active_mailboxes": {}})()   # for __del__
        return mb

    def canon(d):
        return [sorted(set(int(x) for x in d.get(n, ()))) for n in NAMES] if d is not None else None

    wcases, ucases = [], []
    loop = asyncio.new_event_loop()
    try:
        for k in range(600 if ctx.thorough else 160):
            msg_keys = some(range(1, 13), rng.choice([0.0, 0.3, 0.6, 0.9]))
            hi = msg_keys[-1] if msg_keys else 0
            newer = list(range(hi + 1, hi + 1 + rng.randint(0, 3)))
            seqs = {n: some(msg_keys + (newer if rng.random() < 0.1 else []), rng.choice([0.2, 0.5])) for n in NAMES if rng.random() < 0.6}
            folder = {n: some(list(range(1, hi + 1)) + newer * 2, 0.45) for n in NAMES if rng.random() < 0.6}
            folder = {n: v for n, v in folder.items() if v}
            forget = some(newer + msg_keys[-2:], 0.3) if rng.random() < 0.5 else []
            mb = mk(msg_keys, folder)
            mb.set_sequences_in_folder({n: set(v) for n, v in seqs.items()}, forget=tuple(forget))
            wcases.append((msg_keys, seqs, forget, folder, canon(mb.mailbox.written)))
            ctx.count({"set_sequences_in_folder": {"msg_keys": msg_keys, "seqs": seqs, "forget": forget, "folder": folder}},
                      nontrivial=bool(newer) and any(set(v) & set(newer) for v in folder.values()))
            # reading side
            recent = some(msg_keys[-3:], 0.5) if rng.random() < 0.5 else []
            mb = mk(msg_keys, folder)
            ret = loop.run_until_complete(mb._get_sequences_update_seen(list(recent) if rng.random() < 0.8 else None if not recent else list(recent)))
            ucases.append((msg_keys, folder, recent, canon({n: v for n, v in ret.items()}), canon(mb.mailbox.written)))
            ctx.count({"_get_sequences_update_seen": {"msg_keys": msg_keys, "folder": folder, "recent": recent}},
                      nontrivial=bool(folder.get("unseen")) and bool(msg_keys))
    finally:
        loop.close()

    def cseqs(d):
        return clist([f"({cstr(n)}, {clist([cz(x) for x in v])})" for n, v in d.items()])

    def cl(l):
        return clist([cz(x) for x in l])

    def cll(ll):
        return clist([cl(l) for l in ll])

    t = "From Asimap Require Import Base.Res Model.MhSeq.\nOpen Scope Z_scope.\n"
    t += "Definition NAMES : list string := " + clist([cstr(n) for n in NAMES]) + ".\n"
    t += ("Fixpoint zl_eqb (a b : list Z) := match a, b with [], [] => true | x :: a', y :: b' => (x =? y) && zl_eqb a' b' "
          "| _, _ => false end.\n"
          "Fixpoint zll_eqb (a b : list (list Z)) := match a, b with [], [] => true | x :: a', y :: b' => zl_eqb x y && zll_eqb a' b' "
          "| _, _ => false end.\n"
          "Definition canon (s : seqs) : list (list Z) := map (fun n => sorted_set (seq_of s n)) NAMES.\n"
          "Definition chkw (c : list Z * seqs * list Z * seqs * list (list Z)) : bool := "
          "let '(mk, s, forget, folder, want) := c in zll_eqb (canon (written mk s forget folder)) want.\n"
          "Definition chku (c : list Z * seqs * list Z * list (list Z) * option (list (list Z))) : bool := "
          "let '(mk, folder, recent, ret, wr) := c in let s' := update_seen mk folder recent in "
          "zll_eqb (canon s') ret && match wr with Some w => zll_eqb (canon (written mk s' [] folder)) w "
          "| None => zll_eqb (canon s') (canon folder) end.\n"
          "Fixpoint bad {A} (chk : A -> bool) (i : nat) (cs : list A) := match cs with [] => [] | c :: r => "
          "if chk c then bad chk (S i) r else i :: bad chk (S i) r end.\n")
    t += ("Definition wcases : list (list Z * seqs * list Z * seqs * list (list Z)) := "
          + clist([f"({cl(mk_)}, {cseqs(s_)}, {cl(fg)}, {cseqs(fo)}, {cll(w)})" for mk_, s_, fg, fo, w in wcases]) + ".\n")
    t += ("Definition ucases : list (list Z * seqs * list Z * list (list Z) * option (list (list Z))) := "
          + clist([f"({cl(mk_)}, {cseqs(fo)}, {cl(rc)}, {cll(ret)}, {core.copt(wr, cll)})" for mk_, fo, rc, ret, wr in ucases]) + ".\n")
    t += "Eval vm_compute in (bad chkw 0 wcases).\nEval vm_compute in (bad chku 0 ucases).\n"
    out = ctx.coq.eval_cases("c13mhseq", t)
    vals = core.parse_coq_values(out)
    for i in [int(x) for x in re.findall(r"\d+", vals[0])][:3]:
        mk_, s_, fg, fo, w = wcases[i]
        # is the property itself broken on this input?  a key the server knows must be listed exactly as the server has it;
        # a newer key of the folder that was not removed must be kept
        hi = mk_[-1] if mk_ else 0
        wrong = [(n, k) for j, n in enumerate(NAMES) for k in range(1, hi + 4)
                 if (k in w[j]) != ((k in s_.get(n, ())) or (k > hi and k not in fg and k in fo.get(n, ())))]
        ctx.violation("set_sequences_in_folder does not write what the proved model writes"
                      + (f": sequence/key {wrong[0]} is wrong in the file" if wrong else ""),
                      {"msg_keys": mk_, "seqs": s_, "forget": fg, "folder_file": fo, "written": dict(zip(NAMES, w)),
                       "correspondence": "Model/MhSeq.v written"}, found_input=bool(wrong))
    for i in [int(x) for x in re.findall(r"\d+", vals[1])][:3]:
        mk_, fo, rc, ret, wr = ucases[i]
        seen = ret[NAMES.index("Seen")]
        want = sorted(k for k in mk_ if k not in fo.get("unseen", ()))
        ctx.violation("_get_sequences_update_seen does not return/write what the proved model does"
                      + (f": Seen={seen}, complement of unseen among the messages={want}" if seen != want else ""),
                      {"msg_keys": mk_, "folder_file": fo, "recent": rc, "returned": dict(zip(NAMES, ret)),
                       "written": dict(zip(NAMES, wr)) if wr else None, "correspondence": "Model/MhSeq.v update_seen"},
                      found_input=seen != want)
    ctx.extra["mhseq_cases"] = {"set_sequences_in_folder": len(wcases), "_get_sequences_update_seen": len(ucases)}


def emptied_restart(ctx):
    """A mailbox is emptied completely (every sequence becomes empty at once), the server restarts, mail arrives again under
    the freed numbers - one through an MH tool that lists it in `unseen`, one procmail-style (the file only): the new
    messages must show, to sessions and in .mh_sequences, nothing of the messages that had their numbers before."""
    import re
    n = 0
    for box in (("inbox", "work") if ctx.thorough else ("inbox",)):
        for restart in (True, False):
            w = W.World(seed=ctx.rng.randrange(1 << 30))
            try:
                w.session("A")
                w.cmd("A", "a CREATE work")
                w.deliver(box, 4, unseen=True)
                w.cmd("A", f"a SELECT {box}")
                w.cmd("A", "a STORE 1:2 +FLAGS (\\Flagged \\Answered kw1)")
                w.cmd("A", "a STORE 2:4 +FLAGS (\\Seen)")
                w.cmd("A", "a STORE 1:4 +FLAGS (\\Deleted)")
                w.cmd("A", "a EXPUNGE")
                w.cmd("A", "a UNSELECT")
                if restart:
                    w.restart()
                    w.session("A")
                k1 = w.deliver(box, 1, unseen=True)[0]
                w.cmd("A", f"a SELECT {box}")
                w.cmd("A", "a STORE 1 +FLAGS (\\Seen)")
                k2 = k1 + 1
                (w.root / box / str(k2)).write_bytes(W.make_msg(5000 + n))          # the file only
                w.bump_mtime(box)
                w.settle(25)
                w.cmd("A", "a NOOP")
                out = b"".join(w.cmd("A", "a FETCH 1:* (FLAGS)"))
                shown = {int(a): b.decode().split() for a, b in re.findall(rb"\* (\d+) FETCH \(FLAGS \(([^)]*)\)", out)}
                raw = mboxx.read_mh_sequences(str(w.root / box / ".mh_sequences"))
                n += 1
                ctx.count({"emptied_then_mail_again": box, "restart": restart}, nontrivial=True)
                stale = {nm: ks for nm, ks in raw.items() if nm in ("flagged", "replied", "Deleted", "kw1") and set(ks) & {k1, k2}}
                leaked = {p: [f for f in fl if f in ("\\Flagged", "\\Answered", "\\Deleted", "kw1")] for p, fl in shown.items()}
                if stale or any(leaked.values()) or len(shown) != 2:
                    ctx.violation("mail that arrives in an emptied mailbox inherits flags of the messages that had its numbers "
                                  f"(restart in between: {restart}): sessions are shown {shown}, .mh_sequences says {raw}",
                                  {"mailbox": box, "restart": restart, "new_message_numbers": [k1, k2], "flags_shown": shown,
                                   ".mh_sequences": raw})
            finally:
                w.close()
    ctx.extra["emptied_restart_cases"] = n


def run(ctx):
    ctx.coverage["rule"] = ("histories of 45/70 commands with an external MH agent delivering 1-3 messages (70% listed in "
                            "`unseen`) between IMAP commands from selected, idling and unselected sessions, management-task "
                            "polls, flag changes and expunges (freed message numbers get reused by later deliveries); "
                            "non-trivial = a delivery happened after an expunge in the same mailbox (number reuse) or while a "
                            "session was idling. Plus: histories with deliveries the server cannot see yet (mtime unchanged), and deliveries "
                            "injected at the entry of the Mailbox method that carries out a command (STORE/FETCH/COPY/EXPUNGE/MOVE/APPEND); a mailbox "
                            "emptied completely, (restart,) then mail again under the freed numbers, one of them as a bare file")
    ok = ctx.prove("Properties/C13.v")
    n = 400 if ctx.thorough else 64
    hs = mboxx.generate(ctx, n, 70 if ctx.thorough else 45, mix=MIX)
    for h in [h for h in hs if h.error][:3]:
        ctx.violation("the implementation raised while running a history",
                      {"seed": h.seed, "ops": [repr(o) for o in h.ops], "error": h.error})
    hs = [h for h in hs if not h.error]
    reuse = 0
    for h in hs:
        kinds = [o[0] for o in h.ops]
        first = min([i for i, x in enumerate(kinds) if x == "expunge"] or [10 ** 6])
        nt = "deliver" in kinds[first:] or any(o[0] == "deliver" and h.snaps[i][0] and any(s["idle"] for s in h.snaps[i][0]["sess"].values())
                                               for i, o in enumerate(h.ops))
        reuse += nt
        ctx.count({"sessions": h.nsess, "ops": [repr(o) for o in h.ops[:12]] + ["..."], "n_ops": len(h.ops), "seed": h.seed},
                  nontrivial=nt)
        for (k, d) in (mboxx.mh_oracle(h) + mboxx.uid_oracle(h) + mboxx.flag_oracle(h))[:1]:
            ctx.violation("MH folder and IMAP view disagree: " + d,
                          {"seed": h.seed, "step": k, "ops_up_to_step": [repr(o) for o in h.ops[:k + 1]],
                           "after": h.snaps[k][1]["boxes"] if h.snaps[k][1] else None})
    # deliveries in the same second as the server's last look at the folder (it cannot see them until something else
    # touches the folder): outside the model; the oracles on the real folder and on what sessions are told apply
    sh = mboxx.generate(ctx, 120 if ctx.thorough else 24, 40, mix=dict(MIX, sdeliver=9, poll=6, restart=0), pack=(4, 4, 5))
    for h in sh:
        if h.error:
            ctx.violation("the implementation raised while running a history", {"seed": h.seed, "ops": [repr(o) for o in h.ops], "error": h.error})
            continue
        ctx.count({"unseen_deliveries": True, "sessions": h.nsess, "ops": [repr(o) for o in h.ops[:12]] + ["..."], "seed": h.seed},
                  nontrivial=any(o[0] == "sdeliver" for o in h.ops))
        for (k, d) in (mboxx.mh_oracle(h) + mboxx.uid_oracle(h) + mboxx.flag_oracle(h) + mboxx.binding_oracle(h))[:1]:
            ctx.violation("with deliveries the server has not seen yet, MH folder and IMAP view disagree: " + d,
                          {"seed": h.seed, "step": k, "ops_up_to_step": [repr(o) for o in h.ops[:k + 1]],
                           "after": h.snaps[k][1]["boxes"] if h.snaps[k][1] else None})
    ctx.extra["histories_with_unseen_deliveries"] = len(sh)
    midcommand_deliveries(ctx)
    mhseq_level(ctx)
    emptied_restart(ctx)
    ctx.coq.build(["Model/MboxCmp.vo"])
    bad, _ = mboxx.compare(ctx, "c13", hs)
    report_diffs(ctx, "C13", hs, bad, "model (proved) and implementation disagree on what sessions are told about deliveries")
    ctx.coverage["traces_validated_against_impl"] = len(hs) - len({i for i, _ in bad})
    ctx.extra.update({"histories": len(hs), "op_mix": _mix(hs), "histories_with_reuse_or_idle_delivery": reuse})
    ctx.assume += ["'once the folder's modification time has advanced' = the agent's write moves the directory mtime to a "
                   "later time than the mailbox's stored mtime (the harness moves it 2 s ahead with utime; since fix 782ae6b the server "
                   "compares at the file system's resolution, before that in whole seconds)",
                   "the content of .mh_sequences: what the server hands to MH.set_sequences and what it derives on reading is "
                   "Model/MhSeq.v (proved, tied by correspondence to the real methods on a stand-in folder); the file format itself "
                   "is stdlib mailbox.MH; that the model of the world and the file agree after every command is decided by the oracle on the real file"]


def replay(ctx, path):
    print(json.dumps(json.load(open(path)), indent=1)[:4000])
    return 0
