"""Shared machinery of the checks: context, Coq driver, evidence, verdict lines.

Every check is `./check Cxx quick|thorough` -> harness/main.py -> props/cxx.py:run(ctx).
"""
from __future__ import annotations

import fcntl
import hashlib
import json
import os
import random
import re
import shutil
import subprocess
import sys
import time
from pathlib import Path

VERIF = Path(__file__).resolve().parent.parent
COQ = VERIF / "coq"
REPO = Path(os.environ.get("VERIF_REPO", "/repo"))
PY = "/venv/bin/python"
NPROC = os.cpu_count() or 4

TRUSTED_COMMON = [
    "Coq 8.16.1 kernel and its vm_compute evaluator (no native_compute); coqchk re-check in thorough mode",
    "tools/py2v.py: the Python->Gallina translator for the generated files (closed subset, fail-closed)",
    "harness/: in-process driver of the real asimap classes, canonicalisation and comparison code",
    "no extraction is used: models and specs are evaluated inside Coq by vm_compute on generated cases files",
]


class CoqError(Exception):
    def __init__(self, target, log):
        self.target = target
        self.log = log
        super().__init__(f"coq build of {target} failed")


# ---------------------------------------------------------------- Coq terms
def cz(n: int) -> str:
    return str(n) if n >= 0 else f"({n})"


def clist(items, scope="") -> str:
    return "[" + "; ".join(items) + "]" + scope


def cstr(s: str) -> str:
    """Coq string literal for an arbitrary python str of code points < 256."""
    if all(32 <= ord(c) < 127 for c in s):
        return '"' + s.replace('"', '""') + '"%string'
    # build from ascii codes
    out = "EmptyString"
    for c in reversed(s):
        out = f"(String (Ascii.ascii_of_nat {ord(c)}) {out})"
    return out


def cbytes(b: bytes) -> str:
    return "[" + ";".join(str(x) for x in b) + "]%Z"


def cbool(b) -> str:
    return "true" if b else "false"


def copt(x, f) -> str:
    return "None" if x is None else f"(Some {f(x)})"


class Coq:
    """Builds the development and evaluates cases files."""

    def __init__(self, log):
        self.log = log
        self.lockf = None
        self.gen_report = {}
        self.built = {}

    def lock(self):
        if self.lockf is None:
            self.lockf = open(COQ / ".lock", "w")
            fcntl.flock(self.lockf, fcntl.LOCK_EX)

    def unlock(self):
        if self.lockf is not None:
            fcntl.flock(self.lockf, fcntl.LOCK_UN)
            self.lockf.close()
            self.lockf = None

    def regenerate(self):
        sys.path.insert(0, str(VERIF / "tools"))
        import py2v  # type: ignore

        self.gen_report = py2v.generate(REPO, COQ / "Gen")
        return self.gen_report

    def vfiles(self):
        out = []
        for d in ("Base", "Gen", "Spec", "Model", "Bridge", "Proofs", "Properties", "Findings"):
            out += sorted(str(p.relative_to(COQ)) for p in (COQ / d).glob("*.v"))
        return out

    def makefile(self):
        files = self.vfiles()
        proj = "-Q . Asimap\n" + "\n".join(files) + "\n"
        pf = COQ / "_CoqProject"
        if not pf.exists() or pf.read_text() != proj or not (COQ / "Makefile.coq").exists():
            pf.write_text(proj)
            subprocess.run(["coq_makefile", "-f", "_CoqProject", "-o", "Makefile.coq"], cwd=COQ, check=True,
                           stdout=subprocess.DEVNULL, stderr=subprocess.DEVNULL)

    def build(self, targets, timeout=1500):
        """make the given .vo targets (paths relative to coq/); raises CoqError"""
        self.lock()
        self.makefile()
        t0 = time.time()
        cmd = ["make", "-f", "Makefile.coq", f"-j{NPROC}", "-k"] + list(targets)
        p = subprocess.run(["timeout", str(timeout)] + cmd, cwd=COQ, capture_output=True, text=True)
        out = p.stdout + p.stderr
        self.log(f"[coq] {' '.join(cmd)} -> {p.returncode} in {time.time() - t0:.1f}s")
        if not getattr(self, "hold", False):
            pass
        if p.returncode != 0:
            raise CoqError(" ".join(targets), out[-4000:])
        return " ".join(cmd)

    def closure(self, target_v: str):
        """the .v files target_v depends on (transitively), via coqdep"""
        self.makefile()
        p = subprocess.run(["coqdep", "-f", "_CoqProject"], cwd=COQ, capture_output=True, text=True)
        deps = {}
        for line in p.stdout.splitlines():
            if ":" not in line:
                continue
            lhs, rhs = line.split(":", 1)
            tg = [x for x in lhs.split() if x.endswith(".vo")]
            ds = [x[:-1] for x in rhs.split() if x.endswith(".vo")]
            for t in tg:
                deps[t[:-1]] = ds
        seen = []

        def visit(v):
            if v in seen:
                return
            for d in deps.get(v, []):
                visit(d)
            seen.append(v)

        visit(target_v)
        return seen

    def count_obligations(self, vfiles):
        n = 0
        per = {}
        for v in vfiles:
            txt = (COQ / v).read_text()
            k = len(re.findall(r"^\s*(?:Theorem|Lemma|Corollary|Example|Fact|Remark|Proposition)\s", txt, re.M))
            per[v] = k
            n += k
        return n, per

    def audit(self, vfiles):
        """forbidden constructs anywhere in the closure"""
        bad = []
        pat = re.compile(r"\b(Admitted|admit|Axiom|Axioms|Parameter|Parameters|Conjecture|Abort All|"
                         r"Unset Guard Checking|Unset Positivity Checking|Unset Universe Checking|bypass_check|"
                         r"Admit Obligations|native_compute)\b")
        for v in vfiles:
            txt = (COQ / v).read_text()
            txt = re.sub(r"\(\*.*?\*\)", "", txt, flags=re.S)
            depth = 0
            for i, line in enumerate(txt.splitlines(), 1):
                if re.match(r"\s*Section\b", line):
                    depth += 1
                if re.match(r"\s*End\b", line) and depth:
                    depth -= 1
                if pat.search(line):
                    bad.append(f"{v}:{i}: {line.strip()}")
                if depth == 0 and re.match(r"\s*(Variable|Variables|Hypothesis|Hypotheses|Context)\b", line):
                    bad.append(f"{v}:{i}: {line.strip()}")
        return bad

    def assumptions(self, prop_v: str):
        """compile-time output of `Print Assumptions` lines in the property file"""
        self.lock()
        p = subprocess.run(["timeout", "600", "coqc", "-Q", ".", "Asimap", prop_v], cwd=COQ,
                           capture_output=True, text=True)
        if p.returncode != 0:
            raise CoqError(prop_v, (p.stdout + p.stderr)[-4000:])
        out = p.stdout
        blocks = []
        cur = None
        for line in out.splitlines():
            if line.startswith("Closed under the global context"):
                blocks.append("closed")
                cur = None
            elif line.startswith("Axioms:"):
                cur = []
                blocks.append(cur)
            elif cur is not None and line.strip():
                cur.append(line.strip())
        return blocks

    def eval_cases(self, name: str, text: str, timeout=900):
        """compile a cases file; returns stdout.  The file lives in coq/cases/ and is removed."""
        d = COQ / "cases"
        d.mkdir(exist_ok=True)
        f = d / f"{name}.v"
        f.write_text(text)
        try:
            p = subprocess.run(["timeout", str(timeout), "coqc", "-Q", ".", "Asimap", str(f.relative_to(COQ))],
                               cwd=COQ, capture_output=True, text=True)
            if p.returncode != 0:
                raise CoqError(f"cases/{name}.v", (p.stdout + p.stderr)[-4000:])
            return p.stdout
        finally:
            for ext in (".v", ".vo", ".vok", ".vos", ".glob"):
                q = d / (name + ext)
                if q.exists():
                    q.unlink()
            aux = d / f".{name}.aux"
            if aux.exists():
                aux.unlink()

    def eval_many(self, prefix: str, texts: list[str], timeout=900):
        """evaluate several cases files in parallel; returns list of stdout"""
        from concurrent.futures import ThreadPoolExecutor

        with ThreadPoolExecutor(max_workers=NPROC) as ex:
            futs = [ex.submit(self.eval_cases, f"{prefix}_{i}", t, timeout) for i, t in enumerate(texts)]
            return [f.result() for f in futs]


def parse_coq_list(out: str):
    """parse the value printed by `Eval vm_compute in (... : list nat/Z/N)` -> list of ints (first value)"""
    m = re.search(r"=\s*(\[.*?\])\s*:\s*list", out, re.S)
    if not m:
        raise ValueError("no list in coq output: " + out[:300])
    body = m.group(1).strip()[1:-1].strip()
    if not body:
        return []
    return [int(x.strip().replace("%Z", "").replace("%N", "").replace("%nat", "").strip("()"))
            for x in body.split(";")]


def parse_coq_values(out: str):
    """all `= value : type` results in order, value text with whitespace collapsed"""
    vals = []
    for m in re.finditer(r"^\s*=\s*(.*?)\n\s*:\s", out, re.S | re.M):
        vals.append(" ".join(m.group(1).split()))
    return vals


class Ctx:
    def __init__(self, prop: str, tier: str, seed: int):
        self.prop = prop
        self.tier = tier
        self.seed = seed
        self.rng = random.Random(seed)
        self.t0 = time.time()
        self.lines: list[str] = []
        self.coq = Coq(self.log)
        self.violations: list[dict] = []
        self.known_hit: list[dict] = []
        self.coverage: dict = {"evaluations": 0, "distinct_nontrivial": 0, "samples": [], "rule": ""}
        self.assume: list[str] = []
        self.level = "proof"
        self.obligations = 0
        self.discharged = 0
        self.checker_cmds: list[str] = []
        self.trusted = list(TRUSTED_COMMON)
        self.proof_broken: list[dict] = []
        self._distinct: set[str] = set()
        self.extra: dict = {}
        kf = VERIF / "known_findings.json"
        self.known = json.loads(kf.read_text()) if kf.exists() else {"findings": [], "fixed": []}

    @property
    def thorough(self):
        return self.tier == "thorough"

    def log(self, msg):
        print(msg, flush=True)

    # ---- coverage accounting
    def count(self, case, nontrivial=True, n=1):
        """count an explored case; `case` is any JSON-able description used for distinctness"""
        self.coverage["evaluations"] += n
        if nontrivial:
            h = hashlib.sha1(json.dumps(case, sort_keys=True, default=str).encode()).hexdigest()
            if h not in self._distinct:
                self._distinct.add(h)
                if len(self.coverage["samples"]) < 5:
                    self.coverage["samples"].append(case)
        self.coverage["distinct_nontrivial"] = len(self._distinct)

    # ---- proofs
    def prove(self, prop_v: str, extra_targets=()):
        """regenerate Gen, build the property's closure, audit, Print Assumptions.
        Returns True when every obligation is discharged; on failure records proof_broken."""
        self.coq.lock()   # before regenerating: another check may be rewriting coq/Gen from another tree
        rep = self.coq.regenerate()
        self.extra["generated"] = rep
        files = self.coq.closure(prop_v)
        n, per = self.coq.count_obligations(files)
        self.obligations += n
        self.extra["closure"] = per
        gen_err = {k: v for k, v in rep.items() if v["status"] == "error" and f"Gen/{k}.v" in files}
        ok = True
        try:
            cmd = self.coq.build([prop_v + "o"] + [t for t in extra_targets])
            self.checker_cmds.append(f"cd {COQ} && {cmd}")
        except CoqError as e:
            ok = False
            self.proof_broken.append({"what": f"build of {prop_v} closure", "target": e.target,
                                      "generation_errors": gen_err, "log": e.log[-3000:]})
        bad = self.coq.audit(files)
        if bad:
            ok = False
            self.proof_broken.append({"what": "audit: forbidden construct", "where": bad})
        if ok:
            try:
                blocks = self.coq.assumptions(prop_v)
                self.checker_cmds.append(f"cd {COQ} && coqc -Q . Asimap {prop_v}  # Print Assumptions")
                axioms = sorted({a for b in blocks if b != "closed" for a in b})
                self.extra["print_assumptions"] = {"theorems": len(blocks), "axioms": axioms}
                self.assume.append("Print Assumptions: " + ("Closed under the global context" if not axioms
                                                            else "; ".join(axioms)))
                if axioms:
                    allowed = ("functional_extensionality", "proof_irrelevance", "classic", "JMeq_eq", "eq_rect_eq")
                    for a in axioms:
                        if not any(x in a for x in allowed):
                            ok = False
                            self.proof_broken.append({"what": "unexpected axiom", "axiom": a})
                if not blocks:
                    ok = False
                    self.proof_broken.append({"what": "no Print Assumptions output in " + prop_v})
            except CoqError as e:
                ok = False
                self.proof_broken.append({"what": "Print Assumptions run", "log": e.log[-2000:]})
        if ok:
            self.discharged += n
            if self.thorough:
                self.coqchk(prop_v)
        self.coq.unlock()   # correspondence runs only read compiled files; do not serialise whole checks
        return ok

    def coqchk(self, prop_v: str):
        mod = "Asimap." + prop_v[:-2].replace("/", ".")
        p = subprocess.run(["timeout", "1200", "coqchk", "-silent", "-o", "-Q", ".", "Asimap", mod], cwd=COQ,
                           capture_output=True, text=True)
        self.checker_cmds.append(f"cd {COQ} && coqchk -silent -o -Q . Asimap {mod}")
        out = p.stdout + p.stderr
        self.extra["coqchk"] = {"rc": p.returncode, "tail": out[-1500:]}
        if p.returncode != 0:
            self.proof_broken.append({"what": "coqchk", "log": out[-2000:]})

    # ---- verdicts
    def violation(self, what: str, replay: dict, found_input=True):
        self.violations.append({"what": what, "replay": replay, "found_input": found_input})

    def known_finding(self, fid: str, what: str):
        self.known_hit.append({"id": fid, "what": what})

    def findings(self):
        return [f for f in self.known.get("findings", []) if f["property"] == self.prop]

    def finish(self) -> int:
        self.coq.unlock()
        # a broken proof/tie with no concrete failing input is still a violation
        if self.proof_broken and not any(v["found_input"] for v in self.violations):
            self.violations.append({
                "what": "proof obligation or model/code tie no longer checks",
                "replay": {"broken": self.proof_broken}, "found_input": False})
        rc = 0
        rdir = VERIF / "replays"
        rdir.mkdir(exist_ok=True)
        for k in self.known_hit:
            print(f"KNOWN-FINDING: property={self.prop} {k['id']} {k['what']}")
        shown = 0
        for v in self.violations:
            shown += 1
            if shown > 6:
                rc = 1
                continue
            body = dict(v["replay"])
            body["property"] = self.prop
            body["what"] = v["what"]
            body["seed"] = self.seed
            body["tier"] = self.tier
            if self.proof_broken and "broken" not in body:
                body["broken"] = self.proof_broken
            h = hashlib.sha1(json.dumps(body, sort_keys=True, default=str).encode()).hexdigest()[:12]
            path = rdir / f"{self.prop}-{h}.json"
            path.write_text(json.dumps(body, indent=1, default=str))
            tail = "" if v["found_input"] else " no-failing-input-found"
            print(f"# {v['what']}")
            print(f"VIOLATION property={self.prop} replay={path}{tail}")
            rc = 1
        cov = dict(self.coverage)
        cov["obligations"] = self.obligations
        cov["discharged"] = self.discharged
        cov["checker_cmd"] = " ; ".join(self.checker_cmds) or "none"
        cov["trusted_base"] = self.trusted
        cov.update(self.extra)
        ev = {
            "property_id": self.prop,
            "tier": self.tier,
            "seed": self.seed,
            "level": self.level,
            "coverage": cov,
            "assumptions": self.assume,
            "wall_s": round(time.time() - self.t0, 2),
            "violations": len(self.violations),
            "known_findings_reproduced": self.known_hit,
        }
        edir = VERIF / "evidence"
        edir.mkdir(exist_ok=True)
        (edir / f"{self.prop}.json").write_text(json.dumps(ev, indent=1, default=str))
        print(f"[{self.prop}] tier={self.tier} seed={self.seed} obligations={self.obligations} "
              f"discharged={self.discharged} evaluations={cov['evaluations']} "
              f"distinct_nontrivial={cov['distinct_nontrivial']} violations={len(self.violations)} "
              f"wall={ev['wall_s']}s")
        return rc
