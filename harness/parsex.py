"""C08 support: the command AST of coq/Spec/Grammar.v in Python.

* `render(ast, ch)`   mirrors `render` of Spec/Grammar.v site by site (same choice sites); with
                      `Canon()` it must produce exactly `render a canon` (pinned in Coq on every run),
                      with `Rand(rng)` every occurrence chooses independently (a superset of the Coq
                      choices) and alternative spellings the parser knows (BCC x for HEADER bcc x, NEW,
                      UNSEEN, ...) are used too.
* `gen_ast(rng)`      random well-formed ASTs (all commands, UID forms, nested search keys, sections,
                      partials, LIST-EXTENDED, ID, APPEND with flags/date-time).
* `obj_to_ast(cmd)`   the attributes of a parsed IMAPClientCommand converted to the AST.
* `coq_ast(ast)`      the AST as a Gallina term.

AST (tuples; strings are bytes):
  ("ast", tag, cmd)
  cmd: ("noarg", name) ("expunge",) ("uidexpunge", set) ("authenticate", mech) ("login", u, p)
       ("mbox", name, m) ("rename", a, b)
       ("list", lsub, sel4, ref, pat, pats, ret4, status) ("status", m, atts) ("id", [(k, v|None)])
       ("append", m, flags, dt|None, msg) ("search", uid, charset, keys) ("fetch", uid, set, atts)
       ("store", uid, set, act, silent, flags) ("copy", uid, set, m) ("move", uid, set, m)
  set element: "*" | int | (a, b)   with a, b int or "*"
  fetch att: ("simple", name) ("bodyshort",) ("rfc822",) ("rfc822.header",) ("rfc822.text",)
             ("body", peek, (nums, text|None), partial|None);  text: "header"|"text"|"mime"|("fields", neg, [hdr])
  search key: ("all",) ("keyword", f) ("header", h, s) ("date", which, (y, m, d)) ("body", s) ("text", s)
              ("larger", n) ("smaller", n) ("not", k) ("or", a, b) ("and", [k]) ("set", set) ("uid", set)
"""
from __future__ import annotations

import os.path

NOARG = ["capability", "noop", "namespace", "idle", "logout", "check", "close", "unselect"]
MBOXCMD = ["select", "examine", "create", "delete", "subscribe", "unsubscribe"]
STATUS = ["messages", "recent", "uidnext", "uidvalidity", "unseen"]
FOPS = ["envelope", "flags", "internaldate", "rfc822.size", "uid", "bodystructure"]
SDATES = ["before", "on", "since", "sentbefore", "senton", "sentsince"]
MONTHS = ["jan", "feb", "mar", "apr", "may", "jun", "jul", "aug", "sep", "oct", "nov", "dec"]
SYSFLAGS = {b"\\Answered": "answered", b"\\Deleted": "deleted", b"\\Draft": "draft", b"\\Flagged": "flagged",
            b"\\Recent": "recent", b"\\Seen": "seen"}
HDRKEYS = [b"bcc", b"cc", b"from", b"subject", b"to"]

MACRO_ALL = [("simple", "flags"), ("simple", "internaldate"), ("simple", "rfc822.size"), ("simple", "envelope")]
MACRO_FAST = MACRO_ALL[:3]
MACRO_FULL = MACRO_ALL + [("bodyshort",)]

ATOM_SPECIALS = set(b'(){ %*"\\}') | set(range(0, 32)) | {127}


def atom_char(c):
    return c not in ATOM_SPECIALS


def list_char(c):
    return atom_char(c) or c in b"%*"


def is_atom(v):
    return len(v) > 0 and all(atom_char(c) for c in v)


def is_list_atom(v):
    return len(v) > 0 and all(list_char(c) for c in v)


def quotable(v):
    return 13 not in v and 10 not in v


def py_lower(b: bytes) -> bytes:
    return b.decode("latin-1").lower().encode("latin-1")


def mailbox_norm(x: bytes) -> bytes:
    """what _p_mailbox makes of a name (os.path.normpath is Python's, not asimap's)"""
    y = os.path.normpath(x.decode("latin-1")).encode("latin-1") if x else x
    return b"inbox" if py_lower(y) == b"inbox" else y


def pattern_norm(p: bytes) -> bytes:
    return b"inbox" if py_lower(p) == b"inbox" else p


# ------------------------------------------------------------------ choices
class Canon:
    """Spec/Grammar.v `canon`: lower case, atoms where possible, no optional syntax, one-token search spellings"""

    def kw(self, site, word: str) -> bytes:
        return word.encode()

    def form(self, site, value: bytes) -> int:
        return 0

    def opt(self, site) -> bool:
        return site == 59

    last_ref_text = None


class Rand:
    def __init__(self, rng):
        self.rng = rng
        self.style = rng.choice(["upper", "lower", "mixed", "mixed"])

    def kw(self, site, word):
        if self.style == "upper":
            return word.upper().encode()
        if self.style == "lower":
            return word.encode()
        return "".join(c.upper() if self.rng.random() < 0.5 else c for c in word).encode()

    def form(self, site, value):
        return self.rng.choice([0, 0, 0, 1, 1, 2, 3])

    def opt(self, site):
        return self.rng.random() < 0.5


# ------------------------------------------------------------------ render (mirror of Spec/Grammar.v)
def r_number(n):
    return str(n).encode()


def r_two(n):
    return b"%02d" % n


def r_four(n):
    return b"%04d" % n


def r_quoted(v):
    out = bytearray(b'"')
    for c in v:
        if c in (34, 92):
            out.append(92)
        out.append(c)
    out.append(34)
    return bytes(out)


def r_literal(plus, v):
    return b"{" + r_number(len(v)) + (b"+" if plus else b"") + b"}\r\n" + v


def r_string(form, v):
    if form == 3:
        return r_literal(True, v)
    if form == 2:
        return r_literal(False, v)
    return r_quoted(v) if quotable(v) else r_literal(False, v)


def r_astring(form, v):
    if form == 0:
        return v if is_atom(v) else r_string(1, v)
    return r_string(form, v)


def r_list_mailbox(form, v):
    if form == 0:
        return v if is_list_atom(v) else r_string(1, v)
    return r_string(form, v)


def r_mailbox(ch, site, m):
    if m == b"inbox":
        return r_astring(ch.form(site, m), ch.kw(site, "inbox"))
    return r_astring(ch.form(site, m), m)


def r_pattern(ch, site, p):
    if p == b"inbox":
        return r_list_mailbox(ch.form(site, p), ch.kw(site, "inbox"))
    return r_list_mailbox(ch.form(site, p), p)


def sep_by(f, l):
    return b" ".join(f(x) for x in l)


def r_paren(f, l):
    return b"(" + sep_by(f, l) + b")"


def r_satom(a):
    return b"*" if a == "*" else r_number(a)


def r_selt(e):
    if e == "*":
        return b"*"
    if isinstance(e, tuple):
        return r_satom(e[0]) + b":" + r_satom(e[1])
    return r_number(e)


def r_set(l):
    return b",".join(r_selt(e) for e in l)


def r_date(ch, site, d):
    y, m, dd = d
    o = ch.opt(site)
    short = ch.opt(site + 1)
    txt = (bytes([48 + dd]) if short and dd < 10 else r_two(dd)) + b"-" + ch.kw(site, MONTHS[m - 1]) + b"-" + r_four(y)
    return b'"' + txt + b'"' if o else txt


def r_date_time(ch, site, t):
    y, m, d, h, mi, s, off = t
    a = abs(off)
    sp = ch.opt(site)
    return (b'"' + (b" " + bytes([48 + d]) if sp and d < 10 else r_two(d)) + b"-" + ch.kw(site, MONTHS[m - 1]) + b"-"
            + r_four(y) + b" " + r_two(h) + b":" + r_two(mi) + b":" + r_two(s) + b" "
            + (b"-" if off < 0 else b"+") + r_two(a // 3600) + r_two((a // 60) % 60) + b'"')


def r_status_att(ch, site, a):
    return ch.kw(site, a)


def r_nums(l):
    return b".".join(r_number(n) for n in l)


def r_sect_text(ch, t):
    if isinstance(t, tuple):
        _, neg, hdrs = t
        return (ch.kw(40, "header.fields.not" if neg else "header.fields") + b" "
                + r_paren(lambda h: r_astring(ch.form(41, h), h), hdrs))
    return ch.kw(40, t)


def r_section(ch, s):
    nums, t = s
    out = b"[" + r_nums(nums)
    if t is not None:
        out += (b"." if nums else b"") + r_sect_text(ch, t)
    return out + b"]"


def r_fetch_att(ch, a):
    k = a[0]
    if k == "simple":
        return ch.kw(42, a[1])
    if k == "bodyshort":
        return ch.kw(42, "body")
    if k in ("rfc822", "rfc822.header", "rfc822.text"):
        return ch.kw(42, k)
    _, peek, sec, part = a
    out = ch.kw(42, "body.peek" if peek else "body") + r_section(ch, sec)
    if part is not None:
        out += b"<" + r_number(part[0]) + b"." + r_number(part[1]) + b">"
    return out


def r_fetch_atts(ch, l):
    # the Coq render evaluates c_opt 43 once per test; a per-occurrence chooser may differ, which is fine
    if l == MACRO_ALL and ch.opt(43):
        return ch.kw(44, "all")
    if l == MACRO_FAST and ch.opt(43):
        return ch.kw(44, "fast")
    if l == MACRO_FULL and ch.opt(43):
        return ch.kw(44, "full")
    if len(l) == 1 and ch.opt(45):
        return r_fetch_att(ch, l[0])
    return r_paren(lambda a: r_fetch_att(ch, a), l)


def r_skey(ch, k):
    t = k[0]
    alt = ch.opt(59)
    if t == "all":
        return ch.kw(50, "all")
    if t == "keyword":
        if k[1] in SYSFLAGS:
            return ch.kw(50, SYSFLAGS[k[1]])
        return ch.kw(50, "keyword") + b" " + k[1]
    if t == "header":
        if alt and k[1] in HDRKEYS:
            return ch.kw(50, k[1].decode()) + b" " + r_astring(ch.form(52, k[2]), k[2])
        return (ch.kw(50, "header") + b" " + r_astring(ch.form(51, k[1]), k[1]) + b" "
                + r_astring(ch.form(52, k[2]), k[2]))
    if t == "date":
        return ch.kw(50, k[1]) + b" " + r_date(ch, 53, k[2])
    if t in ("body", "text"):
        return ch.kw(50, t) + b" " + r_astring(ch.form(52, k[1]), k[1])
    if t in ("larger", "smaller"):
        return ch.kw(50, t) + b" " + r_number(k[1])
    if t == "not":
        inner = k[1]
        if alt and inner[0] == "keyword":
            if inner[1] in SYSFLAGS and inner[1] != b"\\Recent":
                return ch.kw(50, "un" + SYSFLAGS[inner[1]])
            if inner[1] == b"\\Recent":
                return ch.kw(50, "old")
            if is_atom(inner[1]):
                return ch.kw(50, "unkeyword") + b" " + inner[1]
        return ch.kw(50, "not") + b" " + r_skey(ch, inner)
    if t == "or":
        return ch.kw(50, "or") + b" " + r_skey(ch, k[1]) + b" " + r_skey(ch, k[2])
    if t == "and":
        if alt and k[1] == [("keyword", b"\\Recent"), ("not", ("keyword", b"\\Seen"))]:
            return ch.kw(50, "new")
        return b"(" + sep_by(lambda x: r_skey(ch, x), k[1]) + b")"
    if t == "set":
        return r_set(k[1])
    if t == "uid":
        return ch.kw(50, "uid") + b" " + r_set(k[1])
    raise ValueError(k)


def r_uid(ch, uid):
    return ch.kw(1, "uid") + b" " if uid else b""


def r_sel_opts(ch, o):
    names = [n for n, b in zip(["subscribed", "remote", "recursivematch", "special-use"], o) if b]
    if not names:
        return b""
    return r_paren(lambda n: ch.kw(20, n), names) + b" "


def r_ret_opts(ch, o, st):
    items = []
    if o[0]:
        items.append(ch.kw(21, "subscribed"))
    if o[1]:
        items.append(ch.kw(21, "children"))
    if o[2]:
        items.append(ch.kw(21, "status") + b" " + r_paren(lambda a: r_status_att(ch, 22, a), st))
    if o[3]:
        items.append(ch.kw(21, "special-use"))
    if not items:
        return b""
    return b" " + ch.kw(23, "return") + b" " + r_paren(lambda x: x, items)


def r_id_pair(ch, p):
    k, v = p
    return r_string(ch.form(30, k), k) + b" " + (ch.kw(31, "nil") if v is None else r_string(ch.form(32, v), v))


def r_cmd(ch, c):
    t = c[0]
    if t == "noarg":
        return ch.kw(0, c[1])
    if t == "expunge":
        return ch.kw(0, "expunge")
    if t == "uidexpunge":
        return r_uid(ch, True) + ch.kw(0, "expunge") + b" " + r_set(c[1])
    if t == "authenticate":
        return ch.kw(0, "authenticate") + b" " + c[1]
    if t == "login":
        return (ch.kw(0, "login") + b" " + r_astring(ch.form(2, c[1]), c[1]) + b" "
                + r_astring(ch.form(3, c[2]), c[2]))
    if t == "mbox":
        return ch.kw(0, c[1]) + b" " + r_mailbox(ch, 4, c[2])
    if t == "rename":
        return ch.kw(0, "rename") + b" " + r_mailbox(ch, 4, c[1]) + b" " + r_mailbox(ch, 5, c[2])
    if t == "list":
        _, lsub, sel, ref, pat, pats, ret, st = c
        # a reference may be spelled with a trailing hierarchy delimiter (os.path.normpath drops it again);
        # not a choice of Spec/Grammar.v: only the random chooser uses it (site 8)
        if ref not in (b"", b"/", b"inbox") and not ref.endswith(b"/") and ch.opt(8):
            ref_text = r_astring(ch.form(4, ref), ref + b"/")
        else:
            ref_text = r_mailbox(ch, 4, ref)
        ch.last_ref_text = ref_text
        out = ch.kw(0, "lsub" if lsub else "list") + b" " + r_sel_opts(ch, sel) + ref_text + b" "
        if pats:
            out += r_paren(lambda p: r_pattern(ch, 7, p), pats)
        else:
            out += r_list_mailbox(ch.form(6, pat), pat)
        return out + r_ret_opts(ch, ret, st)
    if t == "status":
        return (ch.kw(0, "status") + b" " + r_mailbox(ch, 4, c[1]) + b" "
                + r_paren(lambda a: r_status_att(ch, 22, a), c[2]))
    if t == "id":
        out = ch.kw(0, "id") + b" "
        if not c[1]:
            return out + (ch.kw(31, "nil") if ch.opt(33) else b"()")
        return out + r_paren(lambda p: r_id_pair(ch, p), c[1])
    if t == "append":
        _, m, flags, dt, msg = c
        out = ch.kw(0, "append") + b" " + r_mailbox(ch, 4, m) + b" "
        if flags:
            out += r_paren(lambda f: f, flags) + b" "
        elif ch.opt(10):
            out += b"() "
        if dt is not None:
            out += r_date_time(ch, 11, dt) + b" "
        return out + r_literal(ch.opt(12), msg)
    if t == "search":
        _, uid, charset, keys = c
        out = r_uid(ch, uid) + ch.kw(0, "search") + b" "
        if not (charset == b"us-ascii" and not ch.opt(13)):
            out += ch.kw(14, "charset") + b" " + r_astring(ch.form(15, charset), charset) + b" "
        return out + sep_by(lambda k: r_skey(ch, k), keys)
    if t == "fetch":
        _, uid, st, atts = c
        return r_uid(ch, uid) + ch.kw(0, "fetch") + b" " + r_set(st) + b" " + r_fetch_atts(ch, atts)
    if t == "store":
        _, uid, st, act, silent, flags = c
        out = (r_uid(ch, uid) + ch.kw(0, "store") + b" " + r_set(st) + b" " + {"replace": b"", "add": b"+", "remove": b"-"}[act]
               + ch.kw(16, "flags") + (ch.kw(17, ".silent") if silent else b"") + b" ")
        if flags and ch.opt(18):
            return out + sep_by(lambda f: f, flags)
        return out + r_paren(lambda f: f, flags)
    if t in ("copy", "move"):
        _, uid, st, m = c
        return r_uid(ch, uid) + ch.kw(0, t) + b" " + r_set(st) + b" " + r_mailbox(ch, 4, m)
    raise ValueError(c)


def render(ast, ch):
    _, tag, c = ast
    return tag + b" " + r_cmd(ch, c) + (b"\r\n" if ch.opt(99) else b"")


# ------------------------------------------------------------------ Gallina terms
def cb(b: bytes) -> str:
    return "[" + ";".join(str(x) for x in b) + "]"


def cl(items) -> str:
    return "[" + "; ".join(items) + "]"


def cbool(b) -> str:
    return "true" if b else "false"


def cz(n) -> str:
    if n >= 10 ** 40:
        # Coq reads long decimal literals very slowly; let the kernel compute the value from its digits
        return "(digits_val " + cb(str(n).encode()) + ")"
    return str(n) if n >= 0 else f"({n})"


def c_satom(a):
    return "AStar" if a == "*" else f"(ANum {cz(a)})"


def c_selt(e):
    if e == "*":
        return "EStar"
    if isinstance(e, tuple):
        return f"(ERange {c_satom(e[0])} {c_satom(e[1])})"
    return f"(ENum {cz(e)})"


def c_set(l):
    return cl([c_selt(e) for e in l])


C_NOARG = {n: "N" + n.capitalize() for n in NOARG}
C_MBOX = {n: "M" + n.capitalize() for n in MBOXCMD}
C_STATUS = {n: "St" + n.capitalize() for n in STATUS}
C_FOP = {"envelope": "FoEnvelope", "flags": "FoFlags", "internaldate": "FoInternaldate",
         "rfc822.size": "FoRfc822Size", "uid": "FoUid", "bodystructure": "FoBodystructure"}
C_SDATE = {"before": "DBefore", "on": "DOn", "since": "DSince", "sentbefore": "DSentBefore", "senton": "DSentOn",
           "sentsince": "DSentSince"}
C_ACT = {"replace": "SReplace", "add": "SAdd", "remove": "SRemove"}


def c_stext(t):
    if t is None:
        return "None"
    if isinstance(t, tuple):
        return f"(Some (TxFields {cbool(t[1])} {cl([cb(h) for h in t[2]])}))"
    return "(Some " + {"header": "TxHeader", "text": "TxText", "mime": "TxMime"}[t] + ")"


def c_fatt(a):
    k = a[0]
    if k == "simple":
        return f"(FSimple {C_FOP[a[1]]})"
    if k == "bodyshort":
        return "FBodyShort"
    if k == "rfc822":
        return "FRfc822"
    if k == "rfc822.header":
        return "FRfc822Header"
    if k == "rfc822.text":
        return "FRfc822Text"
    _, peek, (nums, text), part = a
    p = "None" if part is None else f"(Some ({cz(part[0])}, {cz(part[1])}))"
    return f"(FBody {cbool(peek)} ({cl([cz(n) for n in nums])}, {c_stext(text)}) {p})"


def c_skey(k):
    t = k[0]
    if t == "all":
        return "KAll"
    if t == "keyword":
        return f"(KKeyword {cb(k[1])})"
    if t == "header":
        return f"(KHeader {cb(k[1])} {cb(k[2])})"
    if t == "date":
        y, m, d = k[2]
        return f"(KDate {C_SDATE[k[1]]} ({cz(y)}, {cz(m)}, {cz(d)}))"
    if t == "body":
        return f"(KBody {cb(k[1])})"
    if t == "text":
        return f"(KText {cb(k[1])})"
    if t == "larger":
        return f"(KLarger {cz(k[1])})"
    if t == "smaller":
        return f"(KSmaller {cz(k[1])})"
    if t == "not":
        return f"(KNot {c_skey(k[1])})"
    if t == "or":
        return f"(KOr {c_skey(k[1])} {c_skey(k[2])})"
    if t == "and":
        return f"(KAnd {cl([c_skey(x) for x in k[1]])})"
    if t == "set":
        return f"(KMsgSet {c_set(k[1])})"
    if t == "uid":
        return f"(KUid {c_set(k[1])})"
    raise ValueError(k)


def c_opt(x, f):
    return "None" if x is None else f"(Some {f(x)})"


def c_cmd(c):
    t = c[0]
    if t == "noarg":
        return f"(CNoArg {C_NOARG[c[1]]})"
    if t == "expunge":
        return "CExpunge"
    if t == "uidexpunge":
        return f"(CUidExpunge {c_set(c[1])})"
    if t == "authenticate":
        return f"(CAuthenticate {cb(c[1])})"
    if t == "login":
        return f"(CLogin {cb(c[1])} {cb(c[2])})"
    if t == "mbox":
        return f"(CMbox {C_MBOX[c[1]]} {cb(c[2])})"
    if t == "rename":
        return f"(CRename {cb(c[1])} {cb(c[2])})"
    if t == "list":
        _, lsub, sel, ref, pat, pats, ret, st = c
        return (f"(CList {cbool(lsub)} (mkSel {' '.join(cbool(x) for x in sel)}) {cb(ref)} {cb(pat)} "
                f"{cl([cb(p) for p in pats])} (mkRet {' '.join(cbool(x) for x in ret)}) {cl([C_STATUS[a] for a in st])})")
    if t == "status":
        return f"(CStatus {cb(c[1])} {cl([C_STATUS[a] for a in c[2]])})"
    if t == "id":
        return "(CId " + cl([f"({cb(k)}, {c_opt(v, cb)})" for k, v in c[1]]) + ")"
    if t == "append":
        _, m, flags, dt, msg = c
        d = "None" if dt is None else "(Some (" + ", ".join(cz(x) for x in dt) + "))"
        return f"(CAppend {cb(m)} {cl([cb(f) for f in flags])} {d} {cb(msg)})"
    if t == "search":
        return f"(CSearch {cbool(c[1])} {cb(c[2])} {cl([c_skey(k) for k in c[3]])})"
    if t == "fetch":
        return f"(CFetch {cbool(c[1])} {c_set(c[2])} {cl([c_fatt(a) for a in c[3]])})"
    if t == "store":
        _, uid, st, act, silent, flags = c
        return f"(CStore {cbool(uid)} {c_set(st)} {C_ACT[act]} {cbool(silent)} {cl([cb(f) for f in flags])})"
    if t in ("copy", "move"):
        return f"({'CCopy' if t == 'copy' else 'CMove'} {cbool(c[1])} {c_set(c[2])} {cb(c[3])})"
    raise ValueError(c)


def coq_ast(ast):
    return f"(mkAst {cb(ast[1])} {c_cmd(ast[2])})"


# ------------------------------------------------------------------ parsed object -> AST
class Unconvertible(Exception):
    pass


def _b(s) -> bytes:
    if not isinstance(s, str):
        raise Unconvertible(f"not a str: {s!r}")
    return s.encode("latin-1")


def _set(ms):
    out = []
    for e in ms:
        if e == "*":
            out.append("*")
        elif isinstance(e, tuple) and len(e) == 2:
            a, b = e
            for x in (a, b):
                if not (x == "*" or (isinstance(x, int) and not isinstance(x, bool))):
                    raise Unconvertible(f"set atom {x!r}")
            out.append((a, b))
        elif isinstance(e, int) and not isinstance(e, bool):
            out.append(e)
        else:
            raise Unconvertible(f"set element {e!r}")
    return out


def _fatt(fa):
    attr = fa.attribute.value
    sec, part, peek, ext, actual = fa.section, fa.partial, fa.peek, fa.ext_data, fa.actual_command
    if attr in FOPS and sec is None and part is None and peek is False and ext is True and actual == attr.upper():
        return ("simple", attr)
    if attr == "bodystructure" and sec is None and part is None and peek is False and ext is False and actual == "BODY":
        return ("bodyshort",)
    if attr == "body" and ext is True and part is None:
        if sec == [] and peek is False and actual == "RFC822":
            return ("rfc822",)
        if sec == ["header"] and peek is True and actual == "RFC822.HEADER":
            return ("rfc822.header",)
        if sec == ["text"] and peek is False and actual == "RFC822.TEXT":
            return ("rfc822.text",)
    if attr == "body" and ext is True and actual == "BODY" and isinstance(sec, list):
        nums = []
        text = None
        for i, s in enumerate(sec):
            if isinstance(s, int) and not isinstance(s, bool) and text is None:
                nums.append(s)
            elif i == len(sec) - 1 and s in ("header", "text", "mime"):
                text = s
            elif i == len(sec) - 1 and isinstance(s, tuple) and len(s) == 2 and s[0] in ("header.fields", "header.fields.not"):
                text = ("fields", s[0].endswith(".not"), [_b(h) for h in s[1]])
            else:
                raise Unconvertible(f"section {sec!r}")
        if part is not None:
            if not (isinstance(part, tuple) and len(part) == 2):
                raise Unconvertible(f"partial {part!r}")
            part = (part[0], part[1])
        return ("body", bool(peek), (nums, text), part)
    raise Unconvertible(f"fetch att {attr} {sec!r} {part!r} {peek} {ext} {actual}")


def _skey(k):
    op = k.op.value
    a = k.args
    if op == "all" and not a:
        return ("all",)
    if op == "keyword" and set(a) == {"keyword"}:
        return ("keyword", _b(a["keyword"]))
    if op == "header" and set(a) == {"header", "string"}:
        return ("header", _b(a["header"]), _b(a["string"]))
    if op in SDATES and set(a) == {"date"}:
        d = a["date"]
        return ("date", op, (d.year, d.month, d.day))
    if op in ("body", "text") and set(a) == {"string"}:
        return (op, _b(a["string"]))
    if op in ("larger", "smaller") and set(a) == {"n"}:
        return (op, a["n"])
    if op == "not" and set(a) == {"search_key"}:
        return ("not", _skey(a["search_key"]))
    if op == "or" and set(a) == {"search_key"} and len(a["search_key"]) == 2:
        return ("or", _skey(a["search_key"][0]), _skey(a["search_key"][1]))
    if op == "and" and set(a) == {"search_key"}:
        return ("and", [_skey(x) for x in a["search_key"]])
    if op == "message_set" and set(a) == {"msg_set"}:
        return ("set", _set(a["msg_set"]))
    if op == "uid" and set(a) == {"msg_set"}:
        return ("uid", _set(a["msg_set"]))
    raise Unconvertible(f"search key {op} {a!r}")


def obj_to_ast(c, literal=None):
    """attributes of a parsed IMAPClientCommand -> AST.  `literal` is the text _p_string handed to
    message_from_string for APPEND (captured by the caller)."""
    from asimap.parse import ListReturnOpt, ListSelectOpt, StoreAction

    tag = _b(c.tag)
    cmd = c.command
    uid = c.uid_command
    if uid not in (True, False):
        raise Unconvertible("uid flag")
    if uid and cmd not in ("copy", "fetch", "move", "search", "store", "expunge"):
        raise Unconvertible(f"uid {cmd}")
    if cmd in NOARG:
        body = ("noarg", cmd)
    elif cmd == "expunge":
        body = ("uidexpunge", _set(c.msg_set)) if uid else ("expunge",)
    elif cmd == "authenticate":
        body = ("authenticate", _b(c.auth_mechanism_name))
    elif cmd == "login":
        body = ("login", _b(c.user_name), _b(c.password))
    elif cmd in MBOXCMD:
        body = ("mbox", cmd, _b(c.mailbox_name))
    elif cmd == "rename":
        body = ("rename", _b(c.mailbox_src_name), _b(c.mailbox_dst_name))
    elif cmd in ("list", "lsub"):
        so = c.list_select_opts
        ro = c.list_return_opts
        sel = tuple(x in so for x in (ListSelectOpt.SUBSCRIBED, ListSelectOpt.REMOTE, ListSelectOpt.RECURSIVEMATCH,
                                      ListSelectOpt.SPECIAL_USE))
        ret = tuple(x in ro for x in (ListReturnOpt.SUBSCRIBED, ListReturnOpt.CHILDREN, ListReturnOpt.STATUS,
                                      ListReturnOpt.SPECIAL_USE))
        if len(so) != sum(sel) or len(ro) != sum(ret):
            raise Unconvertible("list options")
        body = ("list", cmd == "lsub", sel, _b(c.mailbox_name), _b(c.list_mailbox), [_b(p) for p in c.list_patterns],
                ret, [str(a.value) for a in c.list_status_atts])
    elif cmd == "status":
        body = ("status", _b(c.mailbox_name), [str(getattr(a, "value", a)) for a in c.status_att_list])
    elif cmd == "id":
        body = ("id", [(_b(k), None if v is None else _b(v)) for k, v in c.id_dict.items()])
    elif cmd == "append":
        dt = c.date_time
        if dt is not None:
            off = dt.utcoffset()
            if off is None or off.microseconds or dt.microsecond:
                raise Unconvertible(f"date_time {dt!r}")
            dt = (dt.year, dt.month, dt.day, dt.hour, dt.minute, dt.second, off.days * 86400 + off.seconds)
        if literal is None:
            raise Unconvertible("APPEND literal not captured")
        body = ("append", _b(c.mailbox_name), [_b(f) for f in c.flag_list], dt, _b(literal))
    elif cmd == "search":
        sk = c.search_key
        if sk.op.value != "and" or set(sk.args) != {"search_key"}:
            raise Unconvertible("search top level")
        body = ("search", uid, _b(c.charset), [_skey(k) for k in sk.args["search_key"]])
    elif cmd == "fetch":
        atts = [_fatt(a) for a in c.fetch_atts]
        peek = not any(a[0] in ("rfc822", "rfc822.text") or (a[0] == "body" and not a[1]) for a in atts)
        if c.fetch_peek is not peek:
            raise Unconvertible(f"fetch_peek {c.fetch_peek} for {atts}")
        body = ("fetch", uid, _set(c.msg_set), atts)
    elif cmd == "store":
        act = {StoreAction.REPLACE_FLAGS: "replace", StoreAction.ADD_FLAGS: "add", StoreAction.REMOVE_FLAGS: "remove"}[
            c.store_action]
        if c.silent not in (True, False):
            raise Unconvertible("silent")
        body = ("store", uid, _set(c.msg_set), act, c.silent, [_b(f) for f in c.flag_list])
    elif cmd in ("copy", "move"):
        body = (cmd, uid, _set(c.msg_set), _b(c.mailbox_name))
    else:
        raise Unconvertible(f"command {cmd!r}")
    return ("ast", tag, body)


# ------------------------------------------------------------------ generator
ATOM_POOL = [c for c in range(33, 127) if atom_char(c)]
ANY_POOL = list(range(0, 256))


class Gen:
    def __init__(self, rng, depth=4):
        self.r = rng
        self.depth = depth

    # ---- strings
    def atom(self, lo=1, hi=8, eight=True):
        n = self.r.randint(lo, hi)
        out = bytearray()
        for _ in range(n):
            x = self.r.random()
            if x < 0.7:
                out.append(self.r.choice(b"abcdefghijklmnopqrstuvwxyzABCDEFGHIJKLMNOPQRSTUVWXYZ0123456789"))
            elif x < 0.93 or not eight:
                out.append(self.r.choice(ATOM_POOL))
            else:
                out.append(self.r.randint(128, 255))
        return bytes(out)

    def tag(self):
        t = self.atom(1, 6).replace(b"+", b"x")
        return t

    def anystr(self, hi=10):
        x = self.r.random()
        if x < 0.35:
            return self.atom(1, hi)
        if x < 0.45:
            return b""
        n = self.r.randint(1, hi)
        out = bytearray()
        for _ in range(n):
            y = self.r.random()
            if y < 0.55:
                out.append(self.r.choice(b"abcXYZ 019"))
            elif y < 0.8:
                out.append(self.r.choice(b'"\\(){}[]%*+ \t<>.'))
            elif y < 0.9:
                out.append(self.r.choice(b"\r\n\x00\x7f\x1f"))
            else:
                out.append(self.r.randint(128, 255))
        return bytes(out)

    def lowerstr(self):
        return py_lower(self.anystr())

    def mailbox(self):
        x = self.r.random()
        if x < 0.25:
            return b"inbox"
        if x < 0.32:
            return b""
        if x < 0.75:
            comps = [self.atom(1, 6) for _ in range(self.r.randint(1, 3))]
            raw = b"/".join(comps)
        elif x < 0.9:
            raw = self.anystr()
        else:
            raw = self.r.choice([b"inboxes", b"inbox/sub", b"INBOX/Sub", b"xinbox", b"a/../b", b"//x//y/", b"./z", b"..",
                                 b"/", b"a/./b", b"Inbox/", b"./INBOX", b"in box"])
        return mailbox_norm(raw)

    def flag(self):
        x = self.r.random()
        if x < 0.5:
            return self.r.choice([b"\\Seen", b"\\Answered", b"\\Flagged", b"\\Deleted", b"\\Draft", b"\\Recent"])
        if x < 0.6:
            return b"\\" + self.atom(1, 6)
        return self.atom(1, 8)

    def number(self):
        x = self.r.random()
        if x < 0.6:
            return self.r.randint(0, 30)
        if x < 0.9:
            return self.r.randint(0, 10 ** 6)
        return self.r.randint(10 ** 9, 10 ** 30)

    def satom(self):
        return "*" if self.r.random() < 0.2 else self.number()

    def sset(self):
        out = []
        for _ in range(self.r.choice([1, 1, 1, 2, 3, 5])):
            x = self.r.random()
            if x < 0.15:
                out.append("*")
            elif x < 0.6:
                out.append(self.number())
            else:
                out.append((self.satom(), self.satom()))
        return out

    def date(self):
        y = self.r.choice([self.r.randint(1, 9999), self.r.randint(1990, 2030), 2000, 1900, 2024])
        m = self.r.randint(1, 12)
        dim = [31, 29 if (y % 4 == 0 and y % 100 != 0) or y % 400 == 0 else 28, 31, 30, 31, 30, 31, 31, 30, 31, 30, 31][m - 1]
        d = self.r.choice([1, dim, self.r.randint(1, dim)])
        return (y, m, d)

    def date_time(self):
        y, m, d = self.date()
        if y < 100:
            y += 1900
        off = self.r.choice([0, 0, 3600, -3600 * 5, 19800, -(23 * 3600 + 59 * 60), 23 * 3600 + 59 * 60,
                             60 * self.r.randint(-1439, 1439)])
        return (y, m, d, self.r.randint(0, 23), self.r.randint(0, 59), self.r.randint(0, 59), off)

    # ---- fetch
    def section(self):
        nums = [self.r.randint(0, 12) for _ in range(self.r.choice([0, 0, 1, 2, 4]))]
        x = self.r.random()
        if x < 0.25:
            text = None
        elif x < 0.6:
            text = self.r.choice(["header", "text"] + (["mime"] if nums else []))
        else:
            text = ("fields", self.r.random() < 0.4, [self.anystr(6) for _ in range(self.r.randint(1, 3))])
        return (nums, text)

    def fetch_att(self):
        x = self.r.random()
        if x < 0.35:
            return ("simple", self.r.choice(FOPS))
        if x < 0.42:
            return ("bodyshort",)
        if x < 0.55:
            return (self.r.choice(["rfc822", "rfc822.header", "rfc822.text"]),)
        part = (self.number(), self.number()) if self.r.random() < 0.4 else None
        return ("body", self.r.random() < 0.5, self.section(), part)

    def fetch_atts(self):
        x = self.r.random()
        if x < 0.12:
            return list(self.r.choice([MACRO_ALL, MACRO_FAST, MACRO_FULL]))
        return [self.fetch_att() for _ in range(self.r.choice([0, 1, 1, 1, 2, 3, 5]))]

    # ---- search
    def skey(self, d):
        x = self.r.random()
        if d <= 0:
            x = x * 0.74
        if x < 0.06:
            return ("all",)
        if x < 0.2:
            return ("keyword", self.r.choice(list(SYSFLAGS)) if self.r.random() < 0.6 else self.atom(1, 6))
        if x < 0.32:
            h = self.r.choice(HDRKEYS) if self.r.random() < 0.5 else self.lowerstr()
            return ("header", h, self.lowerstr())
        if x < 0.44:
            return ("date", self.r.choice(SDATES), self.date())
        if x < 0.52:
            return (self.r.choice(["body", "text"]), self.lowerstr())
        if x < 0.6:
            return (self.r.choice(["larger", "smaller"]), self.number())
        if x < 0.68:
            return ("set", self.sset())
        if x < 0.74:
            return ("uid", self.sset())
        if x < 0.84:
            return ("not", self.skey(d - 1))
        if x < 0.92:
            return ("or", self.skey(d - 1), self.skey(d - 1))
        n = self.r.choice([0, 2, 2, 3])
        return ("and", [self.skey(d - 1) for _ in range(n)])

    # ---- commands
    def cmd(self, kind=None):
        r = self.r
        kind = kind or r.choice(["noarg", "expunge", "uidexpunge", "authenticate", "login", "mbox", "rename", "list", "list",
                                 "status", "id", "append", "append", "search", "search", "search", "fetch", "fetch",
                                 "fetch", "store", "store", "copy", "move"])
        uid = r.random() < 0.4
        if kind == "noarg":
            return ("noarg", r.choice(NOARG))
        if kind == "expunge":
            return ("expunge",)
        if kind == "uidexpunge":
            return ("uidexpunge", self.sset())
        if kind == "authenticate":
            return ("authenticate", self.atom(1, 10))
        if kind == "login":
            return ("login", self.anystr(), self.anystr())
        if kind == "mbox":
            return ("mbox", r.choice(MBOXCMD), self.mailbox())
        if kind == "rename":
            return ("rename", self.mailbox(), self.mailbox())
        if kind == "list":
            sub, rem, rec, spe = (r.random() < 0.3 for _ in range(4))
            if rec and not (sub or spe):
                sub = True
            ret = [r.random() < 0.3 for _ in range(4)]
            st = r.sample(STATUS, r.randint(1, 3)) if ret[2] else []
            if r.random() < 0.3:
                pats = [pattern_norm(self.anystr()) for _ in range(r.randint(1, 3))]
                pat = b""
            else:
                pats = []
                pat = r.choice([b"*", b"%", b"", b"INBOX", b"inbox", b"a/%", self.anystr()])
            return ("list", r.random() < 0.3, (sub, rem, rec, spe), self.mailbox(), pat, pats, tuple(ret), st)
        if kind == "status":
            return ("status", self.mailbox(), [r.choice(STATUS) for _ in range(r.choice([0, 1, 2, 5]))])
        if kind == "id":
            keys = []
            out = []
            for _ in range(r.choice([0, 1, 2, 4])):
                k = self.anystr()
                if k in keys:
                    continue
                keys.append(k)
                out.append((k, None if r.random() < 0.3 else self.anystr()))
            return ("id", out)
        if kind == "append":
            flags = [self.flag() for _ in range(r.choice([0, 0, 1, 2]))]
            dt = self.date_time() if r.random() < 0.5 else None
            msg = r.choice([b"", b"x", b"From: a@b\r\nSubject: s\r\n\r\nbody\r\n", self.anystr(30),
                            bytes(r.randint(0, 255) for _ in range(r.randint(0, 40)))])
            return ("append", self.mailbox(), flags, dt, msg)
        if kind == "search":
            charset = b"us-ascii" if r.random() < 0.7 else py_lower(self.anystr(8))
            keys = [self.skey(self.depth) for _ in range(r.choice([1, 1, 2, 3]))]
            return ("search", uid, charset, keys)
        if kind == "fetch":
            return ("fetch", uid, self.sset(), self.fetch_atts())
        if kind == "store":
            return ("store", uid, self.sset(), r.choice(["replace", "add", "remove"]), r.random() < 0.4,
                    [self.flag() for _ in range(r.choice([0, 1, 1, 2, 3]))])
        if kind in ("copy", "move"):
            return (kind, uid, self.sset(), self.mailbox())
        raise ValueError(kind)

    def ast(self, kind=None):
        return ("ast", self.tag(), self.cmd(kind))


KINDS = ["noarg", "expunge", "uidexpunge", "authenticate", "login", "mbox", "rename", "list", "status", "id", "append",
         "search", "fetch", "store", "copy", "move"]


def skey_depth(k):
    t = k[0]
    if t == "not":
        return 1 + skey_depth(k[1])
    if t == "or":
        return 1 + max(skey_depth(k[1]), skey_depth(k[2]))
    if t == "and":
        return 1 + max([skey_depth(x) for x in k[1]] + [0])
    return 0
