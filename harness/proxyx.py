"""Sessions that go through the REAL IMAPClientProxy.run loop (IPC framing `{len}\\n` + payload,
IDLE/DONE handling, parse errors, logout) inside a World, so that 'the connection was dropped' and
'exactly one tagged line' are observable the way a client sees them."""
from __future__ import annotations

import asyncio
import re

import world as W


class FakeWriter:
    def __init__(self):
        self.buf = bytearray()
        self.closed = False

    def write(self, d):
        if self.closed:
            raise ConnectionResetError("writer closed")
        self.buf += d

    async def drain(self):
        return None

    def close(self):
        self.closed = True

    def is_closing(self):
        return self.closed

    async def wait_closed(self):
        return None

    def get_extra_info(self, name, default=None):
        return ("127.0.0.1", 40000) if name == "peername" else default


class ProxySession:
    _num = 0

    def __init__(self, w: W.World, name=None):
        from asimap.user_server import IMAPClientProxy

        ProxySession._num += 1
        self.w = w
        self.name = name or f"px{ProxySession._num}"
        self.reader = asyncio.StreamReader(loop=w.loop)
        self.writer = FakeWriter()
        self.proxy = IMAPClientProxy(w.server, self.name, ProxySession._num, "127.0.0.1", 40000 + ProxySession._num,
                                     self.reader, self.writer)
        self.task = w.loop.create_task(self.proxy.run())
        w.server.clients[self.task] = self.proxy
        self.task.add_done_callback(w.server.client_done)
        self.pos = 0
        self.ntag = 0

    # ---- raw access
    def feed(self, msg: bytes):
        self.reader.feed_data(b"{%d}\n" % len(msg) + msg)

    def take(self) -> bytes:
        d = bytes(self.writer.buf[self.pos:])
        self.pos = len(self.writer.buf)
        return d

    @property
    def dropped(self) -> bool:
        return self.writer.closed or self.task.done()

    def close(self):
        if not self.task.done():
            self.reader.feed_eof()
            self.w.quiesce()
        if not self.task.done():
            self.task.cancel()
            try:
                self.w.loop.run_until_complete(asyncio.gather(self.task, return_exceptions=True))
            except Exception:
                pass

    # ---- one command, observed like a client
    def command(self, text, tag=None, vmax=200.0, expect_tagged=True):
        """send one complete command (bytes or str, tag prepended unless given in text) and wait until its
        tagged reply, a continuation, a dropped connection, or vmax virtual seconds.
        Returns dict(out=bytes, tagged=[lines], elapsed=virtual seconds, dropped=bool, tag=str)."""
        if tag is None:
            self.ntag += 1
            tag = f"q{self.ntag}"
            body = text if isinstance(text, bytes) else text.encode("latin-1")
            msg = tag.encode() + b" " + body
        else:
            msg = text if isinstance(text, bytes) else text.encode("latin-1")
        t0 = self.w.loop.time()
        self.feed(msg)
        out = b""
        tagged = []
        pat = re.compile(rb"(?m)^" + re.escape(tag.encode()) + rb" (OK|NO|BAD)[^\r\n]*(\r\n|$)")
        while True:
            self.w.quiesce()
            out += self.take()
            tagged = [m.group(0) for m in pat.finditer(out)]
            if tagged or self.dropped or not expect_tagged:
                break
            if self.w.loop.time() - t0 >= vmax:
                break
            self.w.settle(1.0)
        # anything that trickles in right after the tagged line belongs to the report too
        self.w.quiesce()
        out += self.take()
        tagged = [m.group(0) for m in pat.finditer(out)]
        return {"out": out, "tagged": tagged, "elapsed": self.w.loop.time() - t0, "dropped": self.dropped, "tag": tag}
