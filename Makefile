# /verif/Makefile — offline build of the Coq development
PY=/venv/bin/python
.PHONY: setup clean
setup:
	$(PY) tools/py2v.py coq/Gen || true
	$(PY) -c "import sys; sys.path.insert(0,'harness'); import core; c=core.Coq(print); c.makefile()"
	cd coq && timeout 3000 make -f Makefile.coq -j16 -k || true
clean:
	cd coq && (make -f Makefile.coq clean || true) && rm -f Makefile.coq Makefile.coq.conf .*.aux */.*.aux
