(* Model/Pop3M.v — one POP3 session of asimap/pop3_client.py (POP3CommandHandler) as a state
   machine over an abstract INBOX, together with the IMAP-side events that can happen to the
   same INBOX while the session is open.  Definitions only.

   The model is of the code AFTER fixes/C20-retr-octets.patch and fixes/C20-snapshot-by-uid.patch:
     * RETR/TOP end the reply with `end_multiline` (no extra empty line before the "."),
     * a message number is resolved through the UID recorded in the snapshot
       (Mailbox.get_msg_by_uid), RETR remembers the size it announced.
   `byuid = false` is the same machine resolving through the MH key recorded in the snapshot
   (what the pinned tree did); it is used only for the refutation example in Proofs/Pop3P.v.

   dot_stuff is NOT modelled: it is Gen/DotStuff.v, regenerated from the source on every run.

   Oracles (measured by the correspondence check, not verified): the three renderings of a
   message by the e-mail library (`content`), Python's int() on command arguments (`pcmd`
   carries its result), Mailbox.expunge / append / pack as atomic INBOX updates. *)
From Asimap Require Import Base.Res Base.Bytes Gen.DotStuff Spec.Pop3Spec.
Open Scope Z_scope.
Open Scope list_scope.

Record msg := { m_key : Z; m_uid : Z; m_c : content }.

(* POP3CommandHandler: snapshot_msg_keys, snapshot_uids, msg_sizes (lazy cache), deleted *)
Record sess := { s_keys : list Z; s_uids : list Z; s_sizes : list (Z * Z); s_del : list Z }.

Record world := { inbox : list msg; next_uid : Z; psess : option sess }.

Definition init_world : world := {| inbox := []; next_uid := 1; psess := None |}.

(* ------------------------------------------------------------ bytes *)
Definition is_nil {A} (l : list A) : bool := match l with [] => true | _ => false end.

(* data.endswith(b"\r\n") *)
Fixpoint ends_crlf (l : list Z) : bool :=
  match l with
  | x :: l' =>
      match l' with
      | [] => false
      | y :: r => match r with [] => (x =? 13) && (y =? 10) | _ :: _ => ends_crlf l' end
      end
  | [] => false
  end.

(* generator._msg_as_bytes: the rendering always ends with CRLF *)
Definition ensure_crlf (b : list Z) : list Z := if ends_crlf b then b else b ++ crlf.

(* pop3_client.end_multiline *)
Definition end_multiline (data : list Z) : list Z :=
  (if negb (is_nil data) && negb (ends_crlf data) then data ++ crlf else data) ++ [46; 13; 10].

Definition full (c : content) : list Z := ensure_crlf (c_raw c).     (* msg_as_bytes(msg) *)
Definition msize (c : content) : Z := octets (full c).               (* get_msg_size(msg) *)

(* do_top: headers + CRLF + the first k lines of the body *)
Definition top_data (c : content) (k : Z) : list Z :=
  let body := ensure_crlf (c_body c) in
  let bl := bytes_split body crlf in
  let bl' := match bl with [] :: t => t | _ => bl end in
  c_hdr c ++ crlf ++ bytes_join crlf (firstn (Z.to_nat k) bl').

(* ------------------------------------------------------------ session helpers *)
Definition count (s : sess) : Z := Z.of_nat (List.length (s_keys s)).      (* msg_count *)
Definition idx (n : Z) : nat := Z.to_nat (n - 1).

(* _valid_msg_num, after int() *)
Definition valid_num (s : sess) (a : option Z) : option Z :=
  match a with
  | None => None
  | Some n => if (n <? 1) || (count s <? n) then None
              else if memz n (s_del s) then None else Some n
  end.

Definition find_uid (u : Z) (box : list msg) : option msg := find (fun m => m_uid m =? u) box.
Definition find_key (k : Z) (box : list msg) : option msg := find (fun m => m_key m =? k) box.

(* _get_msg: None stands for KeyError *)
Definition resolve (byuid : bool) (box : list msg) (s : sess) (n : Z) : option msg :=
  if byuid then match nth_error (s_uids s) (idx n) with Some u => find_uid u box | None => None end
  else match nth_error (s_keys s) (idx n) with Some k => find_key k box | None => None end.

Fixpoint assoc (n : Z) (l : list (Z * Z)) : option Z :=
  match l with [] => None | (k, v) :: l' => if n =? k then Some v else assoc n l' end.

Definition set_size (s : sess) (n z : Z) : sess :=
  {| s_keys := s_keys s; s_uids := s_uids s; s_sizes := (n, z) :: s_sizes s; s_del := s_del s |}.
Definition set_del (s : sess) (d : list Z) : sess :=
  {| s_keys := s_keys s; s_uids := s_uids s; s_sizes := s_sizes s; s_del := d |}.

(* _get_msg_size: lazy, cached; 0 for a message that is gone *)
Definition get_size (byuid : bool) (box : list msg) (s : sess) (n : Z) : Z * sess :=
  match assoc n (s_sizes s) with
  | Some z => (z, s)
  | None => let z := match resolve byuid box s n with Some m => msize (m_c m) | None => 0 end in
            (z, set_size s n z)
  end.

(* the loop shared by STAT and LIST: for num in range(1, msg_count + 1): if num not in deleted *)
Definition scan_body (byuid : bool) (box : list msg) (st : Z * Z * list (Z * Z) * sess) (num : Z)
  : Z * Z * list (Z * Z) * sess :=
  let '(c, t, rows, s) := st in
  if memz num (s_del s) then st
  else let (z, s') := get_size byuid box s num in (c + 1, t + z, rows ++ [(num, z)], s').
Definition scan (byuid : bool) (box : list msg) (s : sess) : Z * Z * list (Z * Z) * sess :=
  fold_left (scan_body byuid box) (py_range 1 (count s + 1)) (0, 0, [], s).

Definition uid_of (s : sess) (n : Z) : Z := nth (idx n) (s_uids s) 0.   (* snapshot_uids[n - 1] *)

Definition uidl_rows (s : sess) : list (Z * Z) :=
  map (fun n => (n, uid_of s n)) (filter (fun n => negb (memz n (s_del s))) (py_range 1 (count s + 1))).

Definition drop_uids (uids : list Z) (box : list msg) : list msg :=
  filter (fun m => negb (memz (m_uid m) uids)) box.

(* one POP3 command: session afterwards (None = connection closed), INBOX afterwards, reply *)
Definition pop_step (byuid : bool) (box : list msg) (s : sess) (c : pcmd)
  : option sess * list msg * reply :=
  match c with
  | PStat => let '(cnt, tot, _, s') := scan byuid box s in (Some s', box, RStat cnt tot)
  | PList None => let '(cnt, tot, rows, s') := scan byuid box s in (Some s', box, RListAll cnt tot rows)
  | PList (Some a) =>
      match valid_num s a with
      | None => (Some s, box, RNoSuch)
      | Some n => let (z, s') := get_size byuid box s n in (Some s', box, RListOne n z)
      end
  | PUidl None => (Some s, box, RUidlAll (uidl_rows s))
  | PUidl (Some a) =>
      match valid_num s a with
      | None => (Some s, box, RNoSuch)
      | Some n => (Some s, box, RUidlOne n (uid_of s n))
      end
  | PRetr a =>
      match valid_num s a with
      | None => (Some s, box, RNoSuch)
      | Some n =>
          match resolve byuid box s n with
          | None => (Some s, box, RNotAvail)
          | Some m =>
              match dot_stuff (full (m_c m)) with
              | Ok p => (Some (set_size s n (msize (m_c m))), box, RRetr n (msize (m_c m)) (end_multiline p))
              | Err _ => (Some s, box, RNone)
              end
          end
      end
  | PDele a =>
      match valid_num s a with
      | None => (Some s, box, RNoSuch)
      | Some n => (Some (set_del s (n :: s_del s)), box, RDeleted n)
      end
  | PTop [a; b] =>
      match valid_num s a with
      | None => (Some s, box, RNoSuch)
      | Some n =>
          match b with
          | None => (Some s, box, RTopLines)
          | Some k =>
              if k <? 0 then (Some s, box, RTopLines)
              else match resolve byuid box s n with
                   | None => (Some s, box, RNotAvail)
                   | Some m =>
                       match dot_stuff (top_data (m_c m) k) with
                       | Ok p => (Some s, box, RTop n (end_multiline p))
                       | Err _ => (Some s, box, RNone)
                       end
                   end
          end
      end
  | PTop _ => (Some s, box, RTopUsage)
  | PNoop => (Some s, box, ROk)
  | PRset => (Some (set_del s []), box, ROk)
  (* do_quit: Mailbox.expunge(uid_msg_set = the snapshot UIDs of the marked numbers,
     check_deleted=False) removes the messages that still carry one of these UIDs.
     (sorted(self.deleted) only fixes the order of the EXPUNGE notices to IMAP sessions.) *)
  | PQuit => (None, drop_uids (map (uid_of s) (s_del s)) box, RBye)
  | PCapa => (Some s, box, RCapa)
  | POther => (Some s, box, RUnknown)
  end.

(* ------------------------------------------------------------ the world *)
Fixpoint last_key (box : list msg) (d : Z) : Z :=
  match box with [] => d | m :: r => last_key r (m_key m) end.

Fixpoint renum (k : Z) (box : list msg) : list msg :=
  match box with
  | [] => []
  | m :: r => {| m_key := k; m_uid := m_uid m; m_c := m_c m |} :: renum (k + 1) r
  end.

Definition open_sess (box : list msg) : sess :=
  {| s_keys := map m_key box; s_uids := map m_uid box; s_sizes := []; s_del := [] |}.

Definition with_box (w : world) (box : list msg) : world :=
  {| inbox := box; next_uid := next_uid w; psess := psess w |}.

Definition step (byuid : bool) (w : world) (e : ev) : world * reply :=
  match e with
  | EOpen => ({| inbox := inbox w; next_uid := next_uid w; psess := Some (open_sess (inbox w)) |}, RNone)
  | EPop c =>
      match psess w with
      | None => (w, RNone)
      | Some s => let '(os, box, r) := pop_step byuid (inbox w) s c in
                  ({| inbox := box; next_uid := next_uid w; psess := os |}, r)
      end
  | EDrop => ({| inbox := inbox w; next_uid := next_uid w; psess := None |}, RNone)
  | EAppend c =>
      ({| inbox := inbox w ++ [{| m_key := last_key (inbox w) 0 + 1; m_uid := next_uid w; m_c := c |}];
          next_uid := next_uid w + 1; psess := psess w |}, RAppended (next_uid w))
  | EExpunge uids => (with_box w (drop_uids uids (inbox w)), RNone)
  | EPack => (with_box w (renum 1 (inbox w)), RNone)
  | EObserve => (w, RInbox (map (fun m => (m_key m, m_uid m)) (inbox w)))
  end.

Fixpoint run (byuid : bool) (w : world) (l : list ev) : world * list reply :=
  match l with
  | [] => (w, [])
  | e :: l' => let (w1, r) := step byuid w e in
               let (w2, rs) := run byuid w1 l' in (w2, r :: rs)
  end.

(* every message of INBOX has a UID below next_uid (UIDs are handed out in increasing order) *)
Definition wf (w : world) : Prop := Forall (fun m => m_uid m < next_uid w) (inbox w).
