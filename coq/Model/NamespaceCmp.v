(* Model/NamespaceCmp.v — comparison of what the implementation answered with what the model
   (Model/Namespace.v) computes; used by the cases files harness/props/c17.py writes.
   Definitions only.  [check] returns the positions of the items that differ. *)
From Coq Require Import List Ascii String Bool ZArith.
From Asimap Require Import Spec.NsSpec Model.Glob Model.Namespace.
Import ListNotations.
Open Scope Z_scope.

Definition attr_eqb (a b : attr) : bool :=
  match a, b with
  | Noselect, Noselect | HasChildren, HasChildren | HasNoChildren, HasNoChildren
  | Subscribed, Subscribed | NonExistent, NonExistent => true
  | Special s, Special t => String.eqb s t
  | _, _ => false
  end.

Definition subset {A} (eqb : A -> A -> bool) (l1 l2 : list A) : bool :=
  forallb (fun x => existsb (eqb x) l2) l1.
(* equal as multisets when one of them has no duplicates *)
Definition seteq {A} (eqb : A -> A -> bool) (l1 l2 : list A) : bool :=
  subset eqb l1 l2 && subset eqb l2 l1 && Nat.eqb (List.length l1) (List.length l2).

Definition status_eqb (a b : option (Z * Z * Z)) : bool :=
  match a, b with
  | None, None => true
  | Some (x1, y1, z1), Some (x2, y2, z2) => (x1 =? x2) && (y1 =? y2) && (z1 =? z2)
  | _, _ => false
  end.

Definition entry_eqb (a b : entry) : bool :=
  ceqb (e_name a) (e_name b) && seteq attr_eqb (e_attrs a) (e_attrs b) &&
  Bool.eqb (e_childinfo a) (e_childinfo b) && status_eqb (e_status a) (e_status b).

Definition msg_eqb (a b : msg) : bool :=
  (m_uid a =? m_uid b) && (m_cid a =? m_cid b) && (m_flags a =? m_flags b).
Fixpoint list_eqb {A} (eqb : A -> A -> bool) (l1 l2 : list A) : bool :=
  match l1, l2 with
  | [], [] => true
  | x :: l1', y :: l2' => eqb x y && list_eqb eqb l1' l2'
  | _, _ => false
  end.

(* a row of the mailboxes table as the harness reads it:
   name, \Noselect, subscribed, special-use attributes, uid_vv, next_uid, stored \HasChildren *)
Definition dbrow := (string * bool * bool * list string * Z * Z * bool)%type.
Definition dbrow_of (st : state) (r : row) : dbrow :=
  (string_of_list_ascii (flat (r_name r)), r_nosel r, r_sub r, r_spec r, r_vv r, r_nuid r,
   has_kids st (r_name r)).
Definition dbrow_eqb (a b : dbrow) : bool :=
  match a, b with
  | (n1, s1, u1, sp1, v1, x1, k1), (n2, s2, u2, sp2, v2, x2, k2) =>
      String.eqb n1 n2 && Bool.eqb s1 s2 && Bool.eqb u1 u2 && seteq String.eqb sp1 sp2 &&
      (v1 =? v2) && (x1 =? x2) && Bool.eqb k1 k2
  end.

Inductive item :=
| IOp (o : op) (r : result)            (* a command and its tagged result *)
| IList (q : query) (obs : list entry) (* LIST / LSUB and the answer *)
| IRows (obs : list dbrow)             (* the mailboxes table *)
| IDirs (obs : list string)            (* the directories under the mail root *)
| IMsgs (n : string) (obs : list msg). (* uid / content / flags of the messages of a mailbox *)

Definition result_eqb (a b : result) : bool :=
  match a, b with OK, OK | NO, NO => true | _, _ => false end.

Definition model_rows (st : state) : list dbrow := map (dbrow_of st) (rows st).
Definition model_dirs (st : state) : list string :=
  map (fun r => string_of_list_ascii (flat (r_name r))) (rows st).
Definition model_msgs (st : state) (n : string) : option (list msg) :=
  option_map r_msgs (find_row st (canon (nm n))).

Definition item_ok (st : state) (it : item) : bool :=
  match it with
  | IOp o r => result_eqb (snd (step st o)) r
  | IList q obs => seteq entry_eqb (list_cmd st q) obs
  | IRows obs => seteq dbrow_eqb (model_rows st) obs
  | IDirs obs => seteq String.eqb (model_dirs st) obs
  | IMsgs n obs => match model_msgs st n with Some l => list_eqb msg_eqb l obs | None => false end
  end.

Definition advance (st : state) (it : item) : state :=
  match it with IOp o _ => fst (step st o) | _ => st end.

Fixpoint check (st : state) (items : list item) (i : nat) : list nat :=
  match items with
  | [] => []
  | it :: rest => (if item_ok st it then [] else [i]) ++ check (advance st it) rest (S i)
  end.

(* what the model has at position k (for the replay file) *)
Definition model_item (st : state) (it : item) : item :=
  match it with
  | IOp o _ => IOp o (snd (step st o))
  | IList q _ => IList q (list_cmd st q)
  | IRows _ => IRows (model_rows st)
  | IDirs _ => IDirs (model_dirs st)
  | IMsgs n _ => IMsgs n (match model_msgs st n with Some l => l | None => [] end)
  end.
Fixpoint model_at (st : state) (items : list item) (k : nat) : option item :=
  match items, k with
  | [], _ => None
  | it :: _, O => Some (model_item st it)
  | it :: rest, S k' => model_at (advance st it) rest k'
  end.

(* constructors with short names for the cases files *)
Definition E (n : string) (a : list attr) (c : bool) (s : option (Z * Z * Z)) : entry :=
  {| e_name := la n; e_attrs := a; e_childinfo := c; e_status := s |}.
Definition Q (lsub : bool) (ref : string) (pats : list string) (ssub srec sspec rsub rstat : bool) : query :=
  {| q_lsub := lsub; q_ref := la ref; q_pats := map la pats; q_sel_sub := ssub; q_sel_rec := srec;
     q_sel_special := sspec; q_ret_sub := rsub; q_ret_status := rstat |}.
Definition M (u c f : Z) : msg := {| m_uid := u; m_cid := c; m_flags := f |}.
