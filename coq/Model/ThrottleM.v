(* Model/ThrottleM.v — do_login's use of the throttle (client.py PreAuthenticated.do_login,
   pop3_server): check_allow; if allowed authenticate; on failure login_failed.
   The two functions are the generated ones (Gen/Throttle.v).  Definitions only. *)
From Asimap Require Import Base.Res Gen.Throttle Spec.RefThrottle.
Open Scope Z_scope.

Definition tdict := list (string * (Z * Z)).
Definition tstate := (tdict * tdict)%type.

Definition model_step (st : tstate) (a : attempt) : res (tstate * verdict) :=
  let '(U, A) := st in
  match check_allow (a_time a) U A (a_user a) (a_addr a) with
  | Err e => Err e
  | Ok (U1, A1, allowed) =>
      if negb allowed then Ok ((U1, A1), Throttled)
      else if a_pwok a then Ok ((U1, A1), Granted)
      else match login_failed (a_time a) U1 A1 (a_user a) (a_addr a) with
           | Err e => Err e
           | Ok (U2, A2) => Ok ((U2, A2), Denied)
           end
  end.

Fixpoint model_run (st : tstate) (l : list attempt) : res (list verdict) :=
  match l with
  | [] => Ok []
  | a :: l' =>
      match model_step st a with
      | Err e => Err e
      | Ok (st', v) => match model_run st' l' with Err e => Err e | Ok vs => Ok (v :: vs) end
      end
  end.

Definition model_init : tstate := ([], []).
