(* Model/Linear.v — the linearizability oracle of C10: is there an order of the concurrently issued
   commands in which the (proved) sequential model gives every command the tagged result the
   implementation gave it and ends in the mailbox contents the implementation ended in?
   Used by the correspondence check only.  Definitions only. *)
From Asimap Require Import Base.Res Spec.SetSem Model.Mbox Model.MboxCmp.
Open Scope Z_scope.

Fixpoint insert_all {A} (x : A) (l : list A) : list (list A) :=
  match l with [] => [[x]] | y :: l' => (x :: l) :: map (cons y) (insert_all x l') end.
Fixpoint perms {A} (l : list A) : list (list A) :=
  match l with [] => [[]] | x :: l' => flat_map (insert_all x) (perms l') end.

Definition tagged_of (s : Z) (o : out) : option resp :=
  match rev (filter (fun p => (fst p =? s) && match snd p with ROk _ | RNo | RBad => true | _ => false end) o) with
  | p :: _ => Some (snd p) | [] => None end.
Definition op_issuer (o : op) : Z :=
  match o with
  | OSelect s _ _ | OUnselect s | OClose s | ONoop s | OCheck s | OIdle s | ODone s | OAppend s _ _ _ _
  | OStore s _ _ _ _ _ | OFetch s _ _ _ | OSearch s _ _ | OExpunge s _ | OCopy s _ _ _ | OMove s _ _ _ => s
  | _ => 0
  end.

Definition digest := list (string * list (Z * list string)).
Definition digest_of (w : world) : digest :=
  map (fun nb => (fst nb, map (fun m => (m_uid m, m_seqs m)) (b_msgs (snd nb)))) (w_boxes w).
Fixpoint msgs_eqb (a b : list (Z * list string)) : bool :=
  match a, b with
  | [], [] => true
  | (u, f) :: a', (v, g) :: b' => (u =? v) && sset_eqb f g && msgs_eqb a' b'
  | _, _ => false
  end.
Definition digest_eqb (model obs : digest) : bool :=
  forallb (fun nb => match alist_get model (fst nb) with Some ms => msgs_eqb ms (snd nb) | None => false end) obs.

Definition oresp_eqb (a : option resp) (b : resp) : bool := match a with Some r => resp_eqb r b | None => false end.

(* "each response": what the issuer itself was sent for its command.  FETCH lines are compared per sequence number on
   the LAST line for that number (a flushed notification precedes the command's own result, and which notifications are
   flushed with which command legitimately depends on arrival times), and only for numbers both sides mention; BODY and
   SEARCH data are only ever a command's own result and must agree exactly. *)
Definition own_data (s : Z) (o : out) : list resp := map snd (filter (fun p => fst p =? s) o).
Fixpoint fput {A} (t : list (Z * A)) (n : Z) (v : A) : list (Z * A) :=
  match t with [] => [(n, v)] | (m, x) :: t' => if m =? n then (n, v) :: t' else (m, x) :: fput t' n v end.
Fixpoint fget {A} (t : list (Z * A)) (n : Z) : option A :=
  match t with [] => None | (m, x) :: t' => if m =? n then Some x else fget t' n end.
Fixpoint fetch_tab (l : list resp) (t : list (Z * resp)) : list (Z * resp) :=
  match l with
  | [] => t
  | RFetch n fl u g :: r => fetch_tab r (fput t n (RFetch n fl u g))
  | _ :: r => fetch_tab r t
  end.
(* the flags of the last line about a message: whether that line is the command's own result (with UID for a UID
   command) or a notification that overtook it does not matter, the flags it reports do *)
Definition flags_eqb (a b : resp) : bool :=
  match a, b with RFetch n f _ _, RFetch m f' _ _ => (n =? m) && sset_eqb f f' | _, _ => false end.
Definition is_body (r : resp) : bool := match r with RBody _ _ _ _ _ | RSearch _ => true | _ => false end.
(* the sequence numbers a FETCH/STORE addresses when it runs in world w (its message set after admission) *)
Definition own_keys (w : world) (o : op) : list Z :=
  let addressed (s : Z) (uidc : bool) (st : list sset_elt) :=
    match sel w s with
    | None => []
    | Some n => match get_box w n with
                | None => []
                | Some b => let '(b0, _) := flush b s in
                            match admit_set w n b0 uidc st with Ok (_, _, sl) => sl | Err _ => [] end
                end
    end in
  match o with
  | OStore s uidc st _ _ _ => addressed s uidc st
  | OFetch s uidc st _ => addressed s uidc st
  | _ => []
  end.
(* FETCH lines for the messages the command addresses are compared (last line per number: a notification about such a
   message comes from a command that conflicts with this one, hence ran before or after it); lines about other
   messages are notifications whose timing depends on arrival order and are left to the stream oracle *)
Definition data_ok (keys : list Z) (model impl : list resp) : bool :=
  let tm := fetch_tab model [] in
  let ti := fetch_tab impl [] in
  forallb (fun nr => negb (zmem (fst nr) keys) ||
                     match fget ti (fst nr) with Some r => flags_eqb (snd nr) r | None => false end) tm &&
  forallb (fun nr => negb (zmem (fst nr) keys) ||
                     match fget tm (fst nr) with Some _ => true | None => false end) ti &&
  let bm := filter is_body model in
  let bi := filter is_body impl in
  forallb (fun b => existsb (resp_eqb b) bi) bm && forallb (fun b => existsb (resp_eqb b) bm) bi.

(* COPY and MOVE count as their documented steps: read the source; add to the destination; for
   MOVE then remove from the source.  An atom is one such step (or a whole other command). *)
Inductive atom :=
  | AOp (o : op) (want : resp) (data : list resp)   (* data: what the implementation sent the issuer *)
  | ARead (i : nat) (s : Z) (uidc : bool) (st : list sset_elt) (dst : string) (is_move : bool) (want : resp)
  | AAdd (i : nat) (s : Z) (dst : string) (is_move : bool) (want : resp)
  | ADel (i : nat) (s : Z) (want : resp)
  | APoll.   (* the management task's periodic look at the folders fires during the batch (a timer is one of the events) *)

(* picked: per command index, the messages read from the source (None: the command already failed/finished) *)
Definition ptable := list (nat * option (list msg)).
Fixpoint pget (t : ptable) (i : nat) : option (option (list msg)) :=
  match t with [] => None | (j, v) :: t' => if Nat.eqb i j then Some v else pget t' i end.

Definition read_half (w : world) (s : Z) (uidc : bool) (st : list sset_elt) (dst : string) (is_move : bool)
  : world * (option (list msg)) * option resp (* final answer if the command ends here *) :=
  match sel w s with
  | None => (w, None, Some RNo)
  | Some n =>
      match get_box w n with
      | None => (w, None, Some RNo)
      | Some b =>
          match get_client b s with
          | None => (w, None, Some RNo)
          | Some c =>
              if is_move && c_exam c then (w, None, Some RNo)
              else
                let '(b0, _) := flush b s in
                match admit_set w n b0 uidc st with
                | Err _ => (set_box w n b0, None, Some RBad)
                | Ok (b1, _, sl) =>
                    let w1 := set_box w n b1 in
                    match get_box w1 (lower_inbox dst) with
                    | None => (w1, None, Some RNo)
                    | Some _ => match b_msgs b1 with
                                | [] => (w1, None, Some (ROk CNone))
                                | _ => (w1, Some (msgs_at (b_msgs b1) sl), None)
                                end
                    end
                end
          end
      end
  end.

Definition dummy_msg : msg := {| m_key := 0; m_uid := 0; m_cid := 0; m_date := 0; m_seqs := [] |}.
Definition add_half (w : world) (picked : list msg) (dst : string) : world * rcode :=
  let fake := {| b_msgs := match picked with [] => [dummy_msg] | _ => picked end; b_next := 1; b_vv := 0; b_clients := []; b_disk := [] |} in
  let sl := match picked with [] => [] | _ => map (fun i => Z.of_nat i + 1) (seq 0 (List.length picked)) end in
  match copy_into w fake sl (lower_inbox dst) with
  | None => (w, CNone)
  | Some (w2, _, src, dstu) =>
      (w2, match src with [] => CNone | _ => CCopyUid (match get_box w2 (lower_inbox dst) with Some d => b_vv d | None => 0 end) src dstu end)
  end.

Definition del_half (w : world) (s : Z) (src : list Z) : world :=
  match sel w s with
  | None => w
  | Some n => match get_box w n with
              | None => w
              | Some sb =>
                  let '(sb0, _) := flush sb s in
                  let was := match get_client sb s with Some c => c_idle c | None => false end in
                  let sbh := upd_client sb0 s (fun c => set_idle c true) in
                  let '(sb1, _) := admit_cmd w n sbh in
                  let '(sb2, _) := expunge sb1 (fun m => zmem (m_uid m) src) in
                  set_box w n (upd_client sb2 s (fun c => set_idle c was))
              end
  end.

Definition code_of (r : resp) : rcode := match r with ROk c => c | RMoveOk c => c | _ => CNone end.

(* run the atoms in the given order, checking every answer the implementation gave *)
Fixpoint run_atoms (w : world) (t : ptable) (order : list atom) : option world :=
  match order with
  | [] => Some w
  | AOp o want data :: rest =>
      let '(w', out) := step w o in
      (* a refused command has no results; what was flushed when it arrived is notification timing *)
      if oresp_eqb (tagged_of (op_issuer o) out) want &&
         (match want with ROk _ => data_ok (own_keys w o) (own_data (op_issuer o) out) data | _ => true end)
      then run_atoms w' t rest else None
  | ARead i s uidc st dst mv want :: rest =>
      match read_half w s uidc st dst mv with
      | (w1, _, Some final) => if resp_eqb final want then run_atoms w1 ((i, None) :: t) rest else None
      | (w1, Some picked, None) => run_atoms w1 ((i, Some picked) :: t) rest
      | (w1, None, None) => None
      end
  | AAdd i s dst mv want :: rest =>
      match pget t i with
      | Some (Some picked) =>
          let '(w2, code) := add_half w picked dst in
          (* COPY answers here; MOVE's COPYUID comes untagged and its tagged OK after the removal *)
          if mv then (if code_eqb code (code_of want) || match picked with [] => true | _ => false end
                      then run_atoms w2 ((i, Some picked) :: t) rest else None)
          else if resp_eqb (ROk code) want then run_atoms w2 t rest else None
      | Some None => run_atoms w t rest
      | None => None
      end
  | APoll :: rest => run_atoms (fst (step w OPoll)) t rest
  | ADel i s want :: rest =>
      match pget t i with
      | Some (Some picked) =>
          match picked with
          | [] => run_atoms w t rest
          | _ => run_atoms (del_half w s (map m_uid picked)) t rest
          end
      | Some None => run_atoms w t rest
      | None => None
      end
  end.

(* all merges of the commands' atom sequences (each command's own steps stay in order) *)
Fixpoint merges_fuel {A} (fuel : nat) (seqs : list (list A)) : list (list A) :=
  match fuel with
  | O => [[]]
  | S f =>
      if forallb (fun l => match l with [] => true | _ => false end) seqs then [[]]
      else flat_map (fun k =>
                       match nth_error seqs k with
                       | Some (x :: xs) =>
                           map (cons x) (merges_fuel f (firstn k seqs ++ xs :: skipn (S k) seqs))
                       | _ => []
                       end) (seq 0 (List.length seqs))
  end.
Definition merges {A} (seqs : list (list A)) : list (list A) := merges_fuel (List.length (List.concat seqs)) seqs.

Definition linearizable_steps (w0 : world) (prefix : list op) (cmds : list (list atom)) (final : digest) : bool :=
  let w := fst (run w0 prefix) in
  existsb (fun order => match run_atoms w [] order with
                        | Some w' => digest_eqb (digest_of (fst (step w' OPoll))) final
                        | None => false end) (merges cmds ++ merges (cmds ++ [[APoll]])).

(* run the commands in the order [order] (indices into cmds), checking each tagged result *)
Fixpoint run_order (w : world) (order : list (nat * (op * resp))) : option world :=
  match order with
  | [] => Some w
  | (_, (o, want)) :: rest =>
      let '(w', out) := step w o in
      if oresp_eqb (tagged_of (op_issuer o) out) want then run_order w' rest else None
  end.

Definition linearizable (w0 : world) (prefix : list op) (cmds : list (op * resp)) (final : digest) : bool :=
  let w := fst (run w0 prefix) in
  existsb (fun order => match run_order w order with
                        | Some w' => digest_eqb (digest_of w') final
                        | None => false end)
          (perms (combine (seq 0 (List.length cmds)) cmds)).
