(* Model/SearchM.v — the search evaluator of asimap as the code does it:
     parse.py   _p_search, _p_search_key, _p_srchkey_*   (the tree of IMAPSearch objects)
     search.py  SearchContext, IMAPSearch._match_*       (one case per op)
     mbox.py    Mailbox.search                           (the loop and the result numbering)
     fetch.py   the FLAGS item                           (what FETCH shows of the same state)
   Definitions only.  The Python text each definition mirrors is quoted above it.
   Not modelled: the email package (parsing of the file into headers/text, rendering by
   msg_as_string, parsedate); their results are the fields of [msg]. *)
From Asimap Require Import Base.Res Gen.Flags Spec.SetSem Spec.SearchSem.
Open Scope Z_scope.

(* what a SearchContext can read of one message *)
Record msg := {
  m_uid  : Z;                       (* ctx.uid()            mailbox.get_uid_from_msg(msg_key) *)
  m_seqs : list string;             (* ctx.sequences        the MH sequences the key is in *)
  m_size : Z;                       (* ctx.msg_size()       get_msg_size(msg) *)
  m_iday : Z;                       (* ctx.internal_date().date()   (file mtime, UTC) as a day number *)
  m_date : option Z;                (* parsedate(msg["date"]).date() as a day number; None = it raises *)
  m_hdrs : list (bstr * bstr);      (* msg.raw_items(): field name, str(value) *)
  m_text : bstr;                    (* msg_as_string(msg, headers=True) *)
  m_body : bstr                     (* msg_as_string(msg, headers=False) *)
}.
Definition mailbox := list msg.     (* self.msg_keys / self.uids, positionally *)

Record sctx := {                    (* SearchContext(self, msg_key, msg_seq_num, seq_max, uid_max) *)
  c_msg : msg;
  c_num : Z;                        (* msg_number *)
  c_seq_max : Z;
  c_uid_max : Z
}.

(* IMAPSearch(op, **kwargs) *)
Inductive sop :=
| IAll | IAnd (l : list sop) | IOr (a b : sop) | INot (k : sop)
| IKeyword (kw : string) | IHeader (h s : bstr) | IBody (s : bstr) | IText (s : bstr)
| IBefore (d : Z) | IOn (d : Z) | ISince (d : Z)
| ISentBefore (d : Z) | ISentOn (d : Z) | ISentSince (d : Z)
| ILarger (n : Z) | ISmaller (n : Z)
| IMsgSet (s : list sset_elt) | IUid (s : list sset_elt).

(* ------------------------------------------------------------------ parse.py *)
(* str.lower() on the ASCII strings the harness sends *)
Definition py_lower (s : bstr) : bstr := map fold_byte s.

(*  def _p_srchkey_answered(self): return IMAPSearch("keyword", keyword=r"\Answered")     ...
    def _p_srchkey_bcc(self):  IMAPSearch("header", header="bcc", string=self._p_astring().lower())  ...
    def _p_srchkey_header(self): header_fld_name = self._p_astring().lower() ... string=self._p_astring().lower()
    def _p_srchkey_keyword(self): IMAPSearch("keyword", keyword=self._p_re(_atom_re))      (not lowered)
    def _p_srchkey_new(self): IMAPSearch("and", search_key=[self._p_srchkey_recent(), self._p_srchkey_unseen()])
    def _p_srchkey_old(self): IMAPSearch("not", search_key=self._p_srchkey_recent())
    def _p_srchkey_un<x>(self): IMAPSearch("not", search_key=self._p_srchkey_<x>())
    def _p_srchkey_or(self): IMAPSearch("or", search_key=(search_key1, search_key2))
    _p_search_key, "(" case:  search_key = self._p_paren_list_of(self._p_search_key)
                              if len(search_key) == 1: return search_key[0]
                              return IMAPSearch("and", search_key=search_key)
    _p_search_key, no atom:   IMAPSearch("message_set", msg_set=self._p_msg_set())            *)
Fixpoint p_search_key (k : key) : sop :=
  match k with
  | SAll => IAll
  | SAnswered => IKeyword "\Answered"%string
  | SDeleted => IKeyword "\Deleted"%string
  | SDraft => IKeyword "\Draft"%string
  | SFlagged => IKeyword "\Flagged"%string
  | SRecent => IKeyword "\Recent"%string
  | SSeen => IKeyword "\Seen"%string
  | SKeyword kw => IKeyword kw
  | SUnanswered => INot (IKeyword "\Answered"%string)
  | SUndeleted => INot (IKeyword "\Deleted"%string)
  | SUndraft => INot (IKeyword "\Draft"%string)
  | SUnflagged => INot (IKeyword "\Flagged"%string)
  | SUnseen => INot (IKeyword "\Seen"%string)
  | SUnkeyword kw => INot (IKeyword kw)
  | SNew => IAnd [IKeyword "\Recent"%string; INot (IKeyword "\Seen"%string)]
  | SOld => INot (IKeyword "\Recent"%string)
  | SBcc s => IHeader (bytes_of_string "bcc"%string) (py_lower s)
  | SCc s => IHeader (bytes_of_string "cc"%string) (py_lower s)
  | SFrom s => IHeader (bytes_of_string "from"%string) (py_lower s)
  | SSubject s => IHeader (bytes_of_string "subject"%string) (py_lower s)
  | STo s => IHeader (bytes_of_string "to"%string) (py_lower s)
  | SHeader f s => IHeader (py_lower f) (py_lower s)
  | SBody s => IBody (py_lower s)
  | SText s => IText (py_lower s)
  | SBefore d => IBefore d
  | SOn d => IOn d
  | SSince d => ISince d
  | SSentBefore d => ISentBefore d
  | SSentOn d => ISentOn d
  | SSentSince d => ISentSince d
  | SLarger n => ILarger n
  | SSmaller n => ISmaller n
  | SMsgSet s => IMsgSet s
  | SUid s => IUid s
  | SNot k' => INot (p_search_key k')
  | SOr a b => IOr (p_search_key a) (p_search_key b)
  | SParen l => match map p_search_key l with [x] => x | l' => IAnd l' end
  end.

(*  def _p_search(self): ... self.search_key = IMAPSearch("and", search_key=self._p_list_of(self._p_search_key)) *)
Definition p_search (p : prog) : sop := IAnd (map p_search_key p).

(* ------------------------------------------------------------------ search.py *)
(*  for elt in self.args["msg_set"]:
        if isinstance(elt, str) and elt == "*":
            if msg_number == self.ctx.seq_max: return True
        elif isinstance(elt, int):
            if elt == msg_number: return True
        elif isinstance(elt, tuple):
            start, end = elt
            if start == "*": start = self.ctx.seq_max
            if end == "*": end = self.ctx.seq_max
            if start > end: start, end = end, start
            if msg_number >= start and msg_number <= end: return True
    return False                                   (_match_uid: the same over uid, uid_max) *)
Definition match_elt (num mx : Z) (e : sset_elt) : bool :=
  match e with
  | EStar => num =? mx
  | ENum k => k =? num
  | ERange a b =>
      let start := atom_or a mx in
      let end_ := atom_or b mx in
      let se := if start >? end_ then (end_, start) else (start, end_) in
      (num >=? fst se) && (num <=? snd se)
  end.
Definition match_set (num mx : Z) (s : list sset_elt) : bool := existsb (match_elt num mx) s.

(*  def _match_keyword(self):
        flags = [seq_to_flag(x) for x in self.ctx.sequences]
        return self.args["keyword"] in flags                                              *)
Definition match_keyword (m : msg) (kw : string) : bool :=
  existsb (String.eqb kw) (map seq_to_flag (m_seqs m)).

(*  def _match_header(self):
        string = self.args["string"]; msg = self.ctx.msg()
        return any(str(value).lower().find(string) != -1
                   for value in msg.get_all(self.args["header"], []))
    Message.get_all(name): name = name.lower(); every v of self._headers whose k.lower() == name *)
Definition match_header (m : msg) (h s : bstr) : bool :=
  existsb (fun kv => bstr_eqb (py_lower (fst kv)) (py_lower h) && contains s (py_lower (snd kv))) (m_hdrs m).

(*  def _sent_date(self):
        msg = self.ctx.msg()
        if "date" not in msg: return None
        try: return parsedate(msg["date"]).date()
        except (TypeError, ValueError): return None                                       *)
Definition has_date_header (m : msg) : bool :=
  existsb (fun kv => bstr_eqb (py_lower (fst kv)) (bytes_of_string "date"%string)) (m_hdrs m).
Definition sent_date (m : msg) : option Z := if has_date_header m then m_date m else None.

(*  async def match(self, ctx): return await getattr(self, f"_match_{self.op.value}")()   *)
Fixpoint match_op (c : sctx) (o : sop) {struct o} : bool :=
  match o with
  | IAll => true                                           (* return True *)
  | IAnd l => forallb (match_op c) l                       (* all(x.result() for x in tasks) *)
  | IOr a b => match_op c a || match_op c b                (* any(x.result() for x in tasks), a 2-tuple *)
  | INot k => negb (match_op c k)                          (* not await self.args["search_key"].match(self.ctx) *)
  | IKeyword kw => match_keyword (c_msg c) kw
  | IHeader h s => match_header (c_msg c) h s
  | IBody s => contains s (py_lower (m_body (c_msg c)))    (* text in msg_as_string(msg, headers=False).lower() *)
  | IText s => contains s (py_lower (m_text (c_msg c)))    (* text in msg_as_string(msg, headers=True).lower() *)
  | IBefore d => m_iday (c_msg c) <? d                     (* internal_date < self.args["date"] *)
  | IOn d => m_iday (c_msg c) =? d                         (* internal_date == self.args["date"] *)
  | ISince d => m_iday (c_msg c) >=? d                     (* internal_date >= self.args["date"] *)
  | ISentBefore d => match sent_date (c_msg c) with Some s => s <? d | None => false end
  | ISentOn d => match sent_date (c_msg c) with Some s => s =? d | None => false end
  | ISentSince d => match sent_date (c_msg c) with Some s => s >=? d | None => false end
  | ILarger n => m_size (c_msg c) >? n                     (* size > self.args["n"] *)
  | ISmaller n => m_size (c_msg c) <? n                    (* size < self.args["n"] *)
  | IMsgSet s => match_set (c_num c) (c_seq_max c) s
  | IUid s => match_set (m_uid (c_msg c)) (c_uid_max c) s
  end.

(* ------------------------------------------------------------------ mbox.py *)
(*  if not self.num_msgs: return []
    results = []; seq_max = self.num_msgs; uid_max = self.uids[-1]
    for idx, msg_key in enumerate(self.msg_keys):
        msg_seq_num = idx + 1
        ctx = SearchContext(self, msg_key, msg_seq_num, seq_max, uid_max)
        if await search.match(ctx):
            if uid_cmd: results.append(ctx.uid())
            else: results.append(msg_seq_num)
    return results                                                                         *)
Fixpoint search_loop (o : sop) (smax umax : Z) (uid_cmd : bool) (idx : Z) (l : list msg) : list Z :=
  match l with
  | [] => []
  | m :: r =>
      let msg_seq_num := idx + 1 in
      let c := {| c_msg := m; c_num := msg_seq_num; c_seq_max := smax; c_uid_max := umax |} in
      (if match_op c o then [if uid_cmd then m_uid m else msg_seq_num] else [])
        ++ search_loop o smax umax uid_cmd (idx + 1) r
  end.
Definition mbox_search (o : sop) (mb : mailbox) (uid_cmd : bool) : list Z :=
  match mb with
  | [] => []
  | _ => search_loop o (Z.of_nat (List.length mb)) (last (map m_uid mb) 0) uid_cmd 0 mb
  end.

(* the answer to  SEARCH p  /  UID SEARCH p  on mailbox mb *)
Definition search_all (p : prog) (mb : mailbox) (uid_cmd : bool) : list Z :=
  mbox_search (p_search p) mb uid_cmd.

(* ------------------------------------------------------------------ fetch.py *)
(*  case FetchOp.FLAGS: flags = " ".join([seq_to_flag(x) for x in self.ctx.sequences])
    RFC822.SIZE = ctx.msg_size(); INTERNALDATE = ctx.internal_date(); UID = ctx.uid();
    BODY[] / BODY[TEXT] / the header fields are the same parsed message rendered.
    What FETCH shows of the state the search evaluates: *)
Definition view (m : msg) : fmsg :=
  {| f_uid := m_uid m;
     f_flags := map seq_to_flag (m_seqs m);
     f_size := m_size m;
     f_iday := m_iday m;
     f_sent := sent_date m;
     f_hdrs := m_hdrs m;
     f_text := m_text m;
     f_body := m_body m |}.
