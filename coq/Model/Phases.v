(* Model/Phases.v — FETCH, STORE and SEARCH as the TWO steps they are in client.py / mbox.py:

     arrive   do_fetch/do_store/do_search up to `ready_and_okay`: the state checks and the gate on the
              notification queue (pending EXPUNGEs: NO for a non-UID command; otherwise the queue is sent)
     execute  once the management task lets the command through: the message set is resolved, the folder
              resynced, the set resolved again; `ready_and_okay(gate=...)` repeats the gate (the queue may have
              received EXPUNGEs of other sessions' commands while this one waited); then the body runs

   Between the two steps of one session anything may happen: whole commands and single steps of other sessions,
   deliveries, polls.  Model/Mbox.v `step` is the special case "execute immediately after arrive".
   Definitions only; proofs in Proofs/PhasesP.v. *)
From Asimap Require Import Base.Res Spec.SetSem Model.Mbox.
Open Scope Z_scope.

Inductive pcmd :=
  | PStore (uidc : bool) (set : list sset_elt) (act : staction) (silent : bool) (flags : list string)
  | PFetch (uidc : bool) (set : list sset_elt) (k : fetchkind)
  | PSearch (uidc : bool) (flag : string).
Definition p_uid (c : pcmd) : bool := match c with PStore u _ _ _ _ | PFetch u _ _ | PSearch u _ => u end.
Definition to_op (s : Z) (c : pcmd) : op :=
  match c with
  | PStore u st a si fl => OStore s u st a si fl
  | PFetch u st k => OFetch s u st k
  | PSearch u f => OSearch s u f
  end.

(* ---- arrival: answered at once (false) or queued for the management task (true) *)
Definition arrive (w : world) (s : Z) (c : pcmd) : world * out * bool :=
  match sel w s with
  | None => (w, [(s, RNo)], false)
  | Some n =>
      match get_box w n with
      | None => (w, [(s, RNo)], false)
      | Some b =>
          match get_client b s with
          | None => (w, [(s, RNo)], false)
          | Some cl =>
              if (match c with PStore _ _ _ _ _ => c_exam cl | _ => false end) then (w, [(s, RNo)], false)
              else match gate b s (p_uid c) true with
                   | None => (w, [(s, RNo)], false)
                   | Some (b0, o0) => (set_box w n b0, o0, true)
                   end
          end
      end
  end.

(* ---- the bodies, as in Model/Mbox.v step (b1: the mailbox after admission and the second gate) *)
Definition store_body (w : world) (n : string) (b1 : mbox) (s : Z) (uidc : bool) (sel : list Z)
                      (act : staction) (silent : bool) (flags : list string) : world * out :=
  if smem "\Recent" flags || existsb reserved_kw flags then (set_box w n b1, [(s, RNo)])
  else
    let ms := map_at (apply_store act (map flag_to_seq flags)) sel (b_msgs b1) 1 in
    let b2 := set_msgs b1 ms in
    let '(b3, o2) := dispatch b2 (Some s) (notes_at sel ms 1 false) in
    let mine := if silent then [] else notes_at sel ms 1 uidc in
    let b4 := upd_client b3 s (fun c => deliver c mine) in
    (set_box w n b4, o2 ++ tag s mine ++ [(s, ROk CNone)]).

Definition fetch_items (ms : list msg) (sel : list Z) (k : fetchkind) (uidc : bool) : list resp :=
  flat_map (fun p => match znth ms (p - 1) with
                     | Some m => match k with
                                 | FFlags => [fetch_note p m uidc]
                                 | FBoth => [fetch_note p m uidc;
                                             RBody p (if uidc then Some (m_uid m) else None) (m_cid m) (m_date m) (m_uid m)]
                                 | _ => [RBody p (if uidc then Some (m_uid m) else None) (m_cid m) (m_date m) (m_uid m)]
                                 end
                     | None => [] end) sel.
Definition fetch_touch (k : fetchkind) (m : msg) : msg :=
  match k with
  | FFlags => {| m_key := m_key m; m_uid := m_uid m; m_cid := m_cid m; m_date := m_date m;
                 m_seqs := srem "Recent" (m_seqs m) |}
  | FBody => {| m_key := m_key m; m_uid := m_uid m; m_cid := m_cid m; m_date := m_date m;
                m_seqs := if smem "unseen" (m_seqs m) then sadd "Seen" (srem "unseen" (m_seqs m)) else m_seqs m |}
  | FBoth => {| m_key := m_key m; m_uid := m_uid m; m_cid := m_cid m; m_date := m_date m;
                m_seqs := let q := srem "Recent" (m_seqs m) in
                          if smem "unseen" q then sadd "Seen" (srem "unseen" q) else q |}
  | FBodyPeek => m
  end.
Definition fetch_changed (ms : list msg) (k : fetchkind) (p : Z) : bool :=
  match znth ms (p - 1) with
  | Some m => match k with
              | FFlags => smem "Recent" (m_seqs m)
              | FBody => smem "unseen" (m_seqs m)
              | FBoth => smem "Recent" (m_seqs m) || smem "unseen" (m_seqs m)
              | FBodyPeek => false
              end
  | None => false
  end.
Definition fetch_body (w : world) (n : string) (b1 : mbox) (s : Z) (exam : bool) (uidc : bool) (sel : list Z)
                      (k : fetchkind) : world * out :=
  let ms := b_msgs b1 in
  let items := fetch_items ms sel k uidc in
  let b1' := upd_client b1 s (fun c => deliver c items) in
  let chg := if exam then [] else filter (fetch_changed ms k) sel in
  let ms' := map_at (fetch_touch k) chg ms 1 in
  let b2 := set_msgs b1' ms' in
  let '(b3, o2) := dispatch b2 None (notes_at chg ms' 1 false) in
  let '(b4, o3) := flush b3 s in
  (set_box w n b4, tag s items ++ o2 ++ o3 ++ [(s, ROk CNone)]).

Definition search_body (w : world) (n : string) (b1 : mbox) (s : Z) (uidc : bool) (flag : string) : world * out :=
  let hits := map fst (filter (fun p => has_seq (flag_to_seq flag) (snd p))
                              (combine (map (fun i => Z.of_nat i + 1) (seq 0 (List.length (b_msgs b1)))) (b_msgs b1))) in
  let res := if uidc then uids_at (b_msgs b1) hits else hits in
  (set_box w n b1, [(s, RSearch res); (s, ROk CNone)]).

(* ---- execution, from WHATEVER the world has become since the command arrived.
   [gated]: the gate is repeated after admission (the code as it is now).  With gated = false this is the code
   before commit 1902352: the command runs on the renumbered list without the client having been told. *)
Definition execute_gen (gated : bool) (w : world) (s : Z) (c : pcmd) : world * out :=
  in_mbox w s (fun n b =>
    match get_client b s with
    | None => (w, [(s, RNo)])
    | Some cl =>
        let second_gate (bx : mbox) : option (mbox * out) := if gated then gate bx s (p_uid c) true else Some (bx, []) in
        let admitted : res (mbox * out * list Z) :=
          match c with
          | PStore u st _ _ _ | PFetch u st _ => admit_set w n b u st
          | PSearch _ _ => let '(b1, o1) := admit_cmd w n b in Ok (b1, o1, [])
          end in
        match admitted with
        | Err _ => match second_gate b with
                   | None => (w, [(s, RNo)])
                   | Some (b0, o0) => (set_box w n b0, o0 ++ [(s, RBad)])
                   end
        | Ok (b1a, o1a, sl) =>
            match second_gate b1a with
            | None => (set_box w n b1a, o1a ++ [(s, RNo)])
            | Some (b1, o1b) =>
                let '(w', o) := match c with
                                | PStore u _ act silent flags => store_body w n b1 s u sl act silent flags
                                | PFetch u _ k => fetch_body w n b1 s (c_exam cl) u sl k
                                | PSearch u flag => search_body w n b1 s u flag
                                end in
                (w', o1a ++ o1b ++ o)
            end
        end
    end).
Definition execute := execute_gen true.

(* ---- events of a concurrent execution: whole commands (Model/Mbox.v ops: everything that is not split here, and
   split commands that happen to run without waiting) and the two halves of split commands *)
Inductive event :=
  | EOp (o : op)
  | EArrive (s : Z) (c : pcmd)
  | EExecute (s : Z) (c : pcmd).
Definition ev_step (w : world) (e : event) : world * out :=
  match e with
  | EOp o => step w o
  | EArrive s c => let '(w', o, _) := arrive w s c in (w', o)
  | EExecute s c => execute w s c
  end.
Definition ev_run (w : world) (es : list event) : world * list out :=
  fold_left (fun acc e => let '(w1, outs) := acc in let '(w2, o) := ev_step w1 e in (w2, outs ++ [o])) es (w, []).
