(* Model/Mbox.v — command-atomic model of asimap's mailboxes, sessions and
   notification queues (mbox.py, client.py), at the granularity of one IMAP
   command per step.  Definitions only (proofs live in Proofs/).

   What is modelled (see DESIGN.md section 6/C01..C05, C13):
     * a mailbox as the list of its messages in sequence order
       (MH key, UID, content id, internal date, MH sequence names), UIDNEXT,
       UIDVALIDITY, the files an external MH agent has delivered and the
       server has not seen yet, and the sessions that have it selected;
     * per session: idling, read-only (EXAMINE), the queue of pending untagged
       notifications — plus two GHOST fields used only by the theorems: the
       session's replayed view (list of UIDs) and a flag that stays true while
       every response delivered so far was legal against that view;
     * every handler of client.py that the properties C01–C05/C13 talk about,
       with its flush points, the pending-EXPUNGE gate and the "idling hack".
   Ghost data never influences behaviour (see [erase] in Proofs/MboxGhost.v). *)
From Asimap Require Import Base.Res Spec.SetSem.
Open Scope Z_scope.

(* ------------------------------------------------------------------ small sets of strings *)
Definition smem (x : string) (l : list string) : bool := existsb (String.eqb x) l.
Definition sadd (x : string) (l : list string) : list string := if smem x l then l else l ++ [x].
Definition srem (x : string) (l : list string) : list string := filter (fun y => negb (String.eqb x y)) l.
Definition zmem (x : Z) (l : list Z) : bool := existsb (Z.eqb x) l.

(* ------------------------------------------------------------------ flags <-> MH sequence names *)
(* hand model of constants.flag_to_seq / seq_to_flag; Bridge/FlagsB.v proves it equal to Gen/Flags.v *)
Definition flag_to_seq (f : string) : string :=
  if String.eqb f "\Answered" then "replied" else
  if String.eqb f "\Deleted" then "Deleted" else
  if String.eqb f "\Draft" then "Draft" else
  if String.eqb f "\Flagged" then "flagged" else
  if String.eqb f "\Recent" then "Recent" else
  if String.eqb f "\Seen" then "Seen" else f.
Definition seq_to_flag (s : string) : string :=
  if String.eqb s "replied" then "\Answered" else
  if String.eqb s "Deleted" then "\Deleted" else
  if String.eqb s "Draft" then "\Draft" else
  if String.eqb s "flagged" then "\Flagged" else
  if String.eqb s "Recent" then "\Recent" else
  if String.eqb s "Seen" then "\Seen" else s.
(* keywords a client may not use: they are spelled like a reserved sequence *)
Fixpoint str_has (p : Ascii.ascii -> bool) (s : string) : bool :=
  match s with EmptyString => false | String c s' => p c || str_has p s' end.
(* ... or that .mh_sequences cannot hold: a ':' ends the sequence name, the file is ASCII *)
Definition unstorable_char (c : Ascii.ascii) : bool :=
  Ascii.eqb c (Ascii.ascii_of_nat 58) || Nat.ltb 127 (Ascii.nat_of_ascii c).
Definition reserved_kw (f : string) : bool :=
  str_has unstorable_char f || smem f ["replied"; "Deleted"; "Draft"; "flagged"; "Recent"; "Seen"; "unseen"]%string.

(* ------------------------------------------------------------------ data *)
Record msg := { m_key : Z; m_uid : Z; m_cid : Z; m_date : Z; m_seqs : list string }.

Inductive rcode :=
  | CNone | CReadWrite | CReadOnly
  | CAppendUid (vv uid : Z)
  | CCopyUid (vv : Z) (src dst : list Z).

Inductive resp :=
  | RExists (n : Z) (g : list Z)                       (* g GHOST: the server's UID list when generated *)
  | RRecent (n : Z)
  | RExpunge (n : Z)
  | RFetch (n : Z) (fl : list string) (u : option Z) (g : Z)   (* FLAGS (and UID); g GHOST: that message's UID *)
  | RBody (n : Z) (u : option Z) (cid date : Z) (g : Z)        (* content id and INTERNALDATE of a body fetch *)
  | RSearch (l : list Z)
  | RSelInfo (unseen : option Z) (vv next : Z) (kws : list string)
  | RMoveOk (c : rcode)                                (* untagged "* OK [COPYUID ...]" of MOVE *)
  | RIdling                                            (* "+ idling" *)
  | ROk (c : rcode) | RNo | RBad.

Record client := { c_idle : bool; c_exam : bool; c_pend : list resp;
                   c_view : list Z (* GHOST *); c_ok : bool (* GHOST *) }.

Record mbox := { b_msgs : list msg; b_next : Z; b_vv : Z;
                 b_clients : list (Z * client);
                 b_disk : list msg (* delivered by an MH agent, not yet seen by the server; m_uid unused *) }.

Record world := { w_boxes : list (string * mbox); w_vv : Z (* global UIDVALIDITY counter *);
                  w_pack_size : Z; w_pack_num : Z; w_pack_den : Z (* pack when n >= size and n/last <= num/den *) }.

Definition out := list (Z * resp).

(* ------------------------------------------------------------------ list helpers *)
Definition zlen {A} (l : list A) : Z := Z.of_nat (List.length l).
Definition znth {A} (l : list A) (i : Z) : option A := if i <? 0 then None else nth_error l (Z.to_nat i).
Fixpoint remove_at {A} (i : nat) (l : list A) : list A :=
  match l, i with
  | [], _ => []
  | _ :: l', O => l'
  | x :: l', S i' => x :: remove_at i' l'
  end.
Fixpoint zprefix (a b : list Z) : bool :=
  match a, b with
  | [], _ => true
  | x :: a', y :: b' => (x =? y) && zprefix a' b'
  | _ :: _, [] => false
  end.
Fixpoint index_of (f : msg -> bool) (l : list msg) (i : Z) : option Z :=
  match l with [] => None | m :: l' => if f m then Some i else index_of f l' (i + 1) end.
Definition uids (b : mbox) : list Z := map m_uid (b_msgs b).
Definition has_seq (s : string) (m : msg) : bool := smem s (m_seqs m).
Definition count_seq (s : string) (l : list msg) : Z := zlen (filter (has_seq s) l).
Definition max_key (l : list msg) : Z := fold_left (fun a m => Z.max a (m_key m)) l 0.
Definition last_uid (l : list msg) : Z := match rev l with [] => 1 | m :: _ => m_uid m end.
Definition flags_of (m : msg) : list string := map seq_to_flag (m_seqs m).

Fixpoint alist_get {V} (l : list (string * V)) (k : string) : option V :=
  match l with [] => None | (k', v) :: l' => if String.eqb k k' then Some v else alist_get l' k end.
Fixpoint alist_set {V} (l : list (string * V)) (k : string) (v : V) : list (string * V) :=
  match l with
  | [] => [(k, v)]
  | (k', v') :: l' => if String.eqb k k' then (k, v) :: l' else (k', v') :: alist_set l' k v
  end.
Fixpoint zalist_get {V} (l : list (Z * V)) (k : Z) : option V :=
  match l with [] => None | (k', v) :: l' => if k =? k' then Some v else zalist_get l' k end.
Definition zalist_del {V} (l : list (Z * V)) (k : Z) : list (Z * V) := filter (fun p => negb (k =? fst p)) l.

(* ------------------------------------------------------------------ the client's replayed view (GHOST) *)
Definition apply_resp (view : list Z) (r : resp) : option (list Z) :=
  match r with
  | RExists n g => if (zlen g =? n) && zprefix view g then Some g else None
  | RExpunge n => if (1 <=? n) && (n <=? zlen view) then Some (remove_at (Z.to_nat (n - 1)) view) else None
  | RFetch n _ _ g => match znth view (n - 1) with Some u => if u =? g then Some view else None | None => None end
  | RBody n _ _ _ g => match znth view (n - 1) with Some u => if u =? g then Some view else None | None => None end
  | _ => Some view
  end.
Fixpoint apply_resps (view : list Z) (rs : list resp) : option (list Z) :=
  match rs with
  | [] => Some view
  | r :: rs' => match apply_resp view r with Some v => apply_resps v rs' | None => None end
  end.

(* hand a response to a client right now: update its ghost view *)
Definition deliver1 (c : client) (r : resp) : client :=
  match apply_resp (c_view c) r with
  | Some v => {| c_idle := c_idle c; c_exam := c_exam c; c_pend := c_pend c; c_view := v; c_ok := c_ok c |}
  | None => {| c_idle := c_idle c; c_exam := c_exam c; c_pend := c_pend c; c_view := c_view c; c_ok := false |}
  end.
Definition deliver (c : client) (rs : list resp) : client := fold_left deliver1 rs c.
Definition pend (c : client) (rs : list resp) : client :=
  {| c_idle := c_idle c; c_exam := c_exam c; c_pend := c_pend c ++ rs; c_view := c_view c; c_ok := c_ok c |}.
Definition set_idle (c : client) (i : bool) : client :=
  {| c_idle := i; c_exam := c_exam c; c_pend := c_pend c; c_view := c_view c; c_ok := c_ok c |}.
Definition clear_pend (c : client) : client :=
  {| c_idle := c_idle c; c_exam := c_exam c; c_pend := []; c_view := c_view c; c_ok := c_ok c |}.
Definition tag (s : Z) (rs : list resp) : out := map (pair s) rs.

(* send_pending_notifications *)
Definition flush1 (s : Z) (c : client) : client * out := (clear_pend (deliver c (c_pend c)), tag s (c_pend c)).
Definition is_expunge (r : resp) : bool := match r with RExpunge _ => true | _ => false end.
Definition pending_expunges (c : client) : bool := existsb is_expunge (c_pend c).

(* _dispatch_or_pend_notifications: an idling client is sent the notifications at once *)
Definition dispatch1 (dont : option Z) (rs : list resp) (p : Z * client) : (Z * client) * out :=
  let '(s, c) := p in
  if match dont with Some d => s =? d | None => false end then (p, [])
  else if c_idle c then ((s, deliver c rs), tag s rs)
  else ((s, pend c rs), []).
(* EXISTS/RECENT of a resync: at once, unless the client is not idling and has a non-empty queue *)
Definition announce1 (rs : list resp) (p : Z * client) : (Z * client) * out :=
  let '(s, c) := p in
  match c_pend c with
  | _ :: _ => if c_idle c then ((s, deliver c rs), tag s rs) else ((s, pend c rs), [])
  | [] => ((s, deliver c rs), tag s rs)
  end.
Fixpoint map_out {A} (f : A -> A * out) (l : list A) : list A * out :=
  match l with
  | [] => ([], [])
  | x :: l' => let '(x', o) := f x in let '(l'', o') := map_out f l' in (x' :: l'', o ++ o')
  end.

Definition set_clients (b : mbox) (cs : list (Z * client)) : mbox :=
  {| b_msgs := b_msgs b; b_next := b_next b; b_vv := b_vv b; b_clients := cs; b_disk := b_disk b |}.
Definition set_msgs (b : mbox) (ms : list msg) : mbox :=
  {| b_msgs := ms; b_next := b_next b; b_vv := b_vv b; b_clients := b_clients b; b_disk := b_disk b |}.
Definition dispatch (b : mbox) (dont : option Z) (rs : list resp) : mbox * out :=
  match rs with
  | [] => (b, [])
  | _ => let '(cs, o) := map_out (dispatch1 dont rs) (b_clients b) in (set_clients b cs, o)
  end.
Definition announce (b : mbox) (rs : list resp) : mbox * out :=
  let '(cs, o) := map_out (announce1 rs) (b_clients b) in (set_clients b cs, o).

Definition upd_client (b : mbox) (s : Z) (f : client -> client) : mbox :=
  set_clients b (map (fun p => if fst p =? s then (fst p, f (snd p)) else p) (b_clients b)).
Definition get_client (b : mbox) (s : Z) : option client := zalist_get (b_clients b) s.
Definition flush (b : mbox) (s : Z) : mbox * out :=
  match get_client b s with
  | None => (b, [])
  | Some c => let '(c', o) := flush1 s c in (upd_client b s (fun _ => c'), o)
  end.

(* ------------------------------------------------------------------ FETCH responses for flags *)
Definition fetch_note (pos : Z) (m : msg) (show_uid : bool) : resp :=
  RFetch pos (flags_of m) (if show_uid then Some (m_uid m) else None) (m_uid m).
Fixpoint notes_from (ms : list msg) (pos : Z) (want : msg -> bool) (show_uid : bool) : list resp :=
  match ms with
  | [] => []
  | m :: ms' => (if want m then [fetch_note pos m show_uid] else []) ++ notes_from ms' (pos + 1) want show_uid
  end.

(* ------------------------------------------------------------------ resync (check_new_msgs_and_flags) *)
Fixpoint insert_by_key (m : msg) (l : list msg) : list msg :=
  match l with [] => [m] | x :: l' => if m_key m <? m_key x then m :: l else x :: insert_by_key m l' end.
Definition sort_by_key (l : list msg) : list msg := fold_right insert_by_key [] l.
Fixpoint assign_uids (l : list msg) (u : Z) : list msg :=
  match l with
  | [] => []
  | m :: l' => {| m_key := m_key m; m_uid := u; m_cid := m_cid m; m_date := m_date m;
                  m_seqs := sadd "Recent" (m_seqs m) |} :: assign_uids l' (u + 1)
  end.
(* new files: appended in key order with UIDs next.., \Recent; EXISTS/RECENT announced; a FETCH per new message *)
Definition resync (b : mbox) : mbox * out :=
  match b_disk b with
  | [] => (b, [])
  | _ =>
      let fresh := assign_uids (sort_by_key (b_disk b)) (b_next b) in
      let ms := b_msgs b ++ fresh in
      let b1 := {| b_msgs := ms; b_next := b_next b + zlen fresh; b_vv := b_vv b;
                   b_clients := b_clients b; b_disk := [] |} in
      let '(b2, o1) := announce b1 [RExists (zlen ms) (map m_uid ms); RRecent (count_seq "Recent" ms)] in
      let '(b3, o2) := dispatch b2 None (notes_from ms 1 (fun m => b_next b <=? m_uid m) false) in
      (b3, o1 ++ o2)
  end.

(* _pack_if_necessary: renumber the MH keys 1..n (UIDs untouched) *)
Fixpoint renumber (l : list msg) (k : Z) : list msg :=
  match l with
  | [] => []
  | m :: l' => {| m_key := k; m_uid := m_uid m; m_cid := m_cid m; m_date := m_date m; m_seqs := m_seqs m |}
               :: renumber l' (k + 1)
  end.
Definition should_pack (w : world) (b : mbox) : bool :=
  let n := zlen (b_msgs b) in
  (w_pack_size w <=? n) && (n * w_pack_den w <=? w_pack_num w * max_key (b_msgs b)) && negb (n =? 0).
Definition maybe_pack (w : world) (b : mbox) : mbox :=
  if should_pack w b then set_msgs b (renumber (b_msgs b) 1) else b.

(* ------------------------------------------------------------------ message-set resolution *)
Definition resolve (b : mbox) (uidc : bool) (s : list sset_elt) : res (list Z) :=
  (* -> sequence numbers, ascending *)
  if uidc then
    if forallb elt_pos s then
      let want := denote (last_uid (b_msgs b)) s in
      Ok (map fst (filter (fun p => zmem (m_uid (snd p)) want)
                          (combine (map (fun i => Z.of_nat i + 1) (seq 0 (List.length (b_msgs b)))) (b_msgs b))))
    else Err EBad
  else if forallb (elt_ok (zlen (b_msgs b))) s then Ok (denote (zlen (b_msgs b)) s) else Err EBad.

(* ------------------------------------------------------------------ STORE *)
Inductive staction := Replace | Add | Remove.
Definition help_add (seqs : list string) (f : string) : list string :=
  let s := sadd f seqs in
  if String.eqb f "Seen" then srem "unseen" s else if String.eqb f "unseen" then srem "Seen" s else s.
Definition help_remove (seqs : list string) (f : string) : list string :=
  let s := srem f seqs in
  if String.eqb f "Seen" then sadd "unseen" s else if String.eqb f "unseen" then sadd "Seen" s else s.
Definition help_replace (seqs : list string) (fl : list string) : list string :=
  let new0 := fold_left (fun a f => sadd f a) fl [] in
  let new1 := if smem "Seen" new0 then new0 else sadd "unseen" new0 in
  if smem "Recent" seqs then sadd "Recent" new1 else new1.
Definition apply_store (act : staction) (fl : list string) (m : msg) : msg :=
  let seqs := match act with
              | Add => fold_left help_add fl (m_seqs m)
              | Remove => fold_left help_remove fl (m_seqs m)
              | Replace => help_replace (m_seqs m) fl
              end in
  {| m_key := m_key m; m_uid := m_uid m; m_cid := m_cid m; m_date := m_date m; m_seqs := seqs |}.
Fixpoint map_at (f : msg -> msg) (sel : list Z) (l : list msg) (pos : Z) : list msg :=
  match l with
  | [] => []
  | m :: l' => (if zmem pos sel then f m else m) :: map_at f sel l' (pos + 1)
  end.
Fixpoint notes_at (sel : list Z) (l : list msg) (pos : Z) (show_uid : bool) : list resp :=
  match l with
  | [] => []
  | m :: l' => (if zmem pos sel then [fetch_note pos m show_uid] else []) ++ notes_at sel l' (pos + 1) show_uid
  end.

(* ------------------------------------------------------------------ EXPUNGE *)
(* remove the messages satisfying [del], highest position first, telling every client as we go *)
Fixpoint positions_desc (del : msg -> bool) (l : list msg) (pos : Z) (acc : list Z) : list Z :=
  match l with [] => acc | m :: l' => positions_desc del l' (pos + 1) (if del m then pos :: acc else acc) end.
Fixpoint expunge_loop (b : mbox) (ps : list Z) (issuer : option Z) : mbox * out :=
  match ps with
  | [] => (b, [])
  | p :: ps' =>
      let b1 := set_msgs b (remove_at (Z.to_nat (p - 1)) (b_msgs b)) in
      let '(b2, o) := dispatch b1 None [RExpunge p] in
      let '(b3, o') := expunge_loop b2 ps' issuer in (b3, o ++ o')
  end.
Definition expunge (b : mbox) (del : msg -> bool) : mbox * out :=
  expunge_loop b (positions_desc del (b_msgs b) 1 []) None.

(* ------------------------------------------------------------------ world plumbing *)
Definition get_box (w : world) (m : string) : option mbox := alist_get (w_boxes w) m.
Definition set_box (w : world) (m : string) (b : mbox) : world :=
  {| w_boxes := alist_set (w_boxes w) m b; w_vv := w_vv w;
     w_pack_size := w_pack_size w; w_pack_num := w_pack_num w; w_pack_den := w_pack_den w |}.
Fixpoint find_sel (l : list (string * mbox)) (s : Z) : option string :=
  match l with
  | [] => None
  | (n, b) :: l' => match get_client b s with Some _ => Some n | None => find_sel l' s end
  end.
Definition sel (w : world) (s : Z) : option string := find_sel (w_boxes w) s.
Definition lower_inbox (m : string) : string :=
  if String.eqb m "INBOX" || String.eqb m "Inbox" || String.eqb m "inbox" then "inbox" else m.

(* the mailbox management task lets a command in: resync first *)
Definition admit_cmd (w : world) (m : string) (b : mbox) : mbox * out := resync b.

(* ... for a command with a message set: the set is resolved first (a Bad is answered at once,
   without a resync), then the mailbox is resynced and the set resolved again *)
Definition admit_set (w : world) (m : string) (b : mbox) (uidc : bool) (st : list sset_elt)
  : res (mbox * out * list Z) :=
  match resolve b uidc st with
  | Err e => Err e
  | Ok _ => let '(b1, o1) := admit_cmd w m b in
            match resolve b1 uidc st with Ok sel => Ok (b1, o1, sel) | Err e => Err e end
  end.

Definition unselect (w : world) (s : Z) : world :=
  match sel w s with
  | None => w
  | Some n => match get_box w n with
              | Some b => set_box w n (set_clients b (zalist_del (b_clients b) s))
              | None => w
              end
  end.

Definition first_unseen (ms : list msg) : option Z :=
  (* position of the unseen message with the smallest MH key *)
  let us := filter (has_seq "unseen") ms in
  match us with
  | [] => None
  | u0 :: _ =>
      let k := fold_left (fun a m => Z.min a (m_key m)) us (m_key u0) in
      index_of (fun m => m_key m =? k) ms 1
  end.
Definition keywords (ms : list msg) : list string :=
  fold_left (fun acc m => fold_left (fun a s => if smem s ["replied"; "Deleted"; "Draft"; "flagged"; "Recent"; "Seen"]%string
                                              then a else sadd s a) (m_seqs m) acc) ms [].

(* ------------------------------------------------------------------ operations *)
Inductive fetchkind := FFlags | FBodyPeek | FBody | FBoth.   (* FBoth: FLAGS and a non-PEEK body item in one FETCH *)
Inductive op :=
  | OSelect (s : Z) (m : string) (exam : bool)
  | OUnselect (s : Z)
  | OClose (s : Z)
  | ONoop (s : Z) | OCheck (s : Z) | OIdle (s : Z) | ODone (s : Z)
  | OAppend (s : Z) (m : string) (flags : list string) (date cid : Z)
  | OStore (s : Z) (uidc : bool) (set : list sset_elt) (act : staction) (silent : bool) (flags : list string)
  | OFetch (s : Z) (uidc : bool) (set : list sset_elt) (k : fetchkind)
  | OSearch (s : Z) (uidc : bool) (flag : string)         (* SEARCH by one flag / keyword *)
  | OExpunge (s : Z) (uset : option (list sset_elt))
  | OCopy (s : Z) (uidc : bool) (set : list sset_elt) (dst : string)
  | OMove (s : Z) (uidc : bool) (set : list sset_elt) (dst : string)
  | ODeliver (m : string) (n : Z) (unseen : bool) (cid0 date : Z)   (* an MH agent adds n messages *)
  | OPoll                                                           (* the management tasks' periodic resync *)
  | OMkbox (m : string)                                             (* CREATE of a new top-level mailbox *)
  | ORestart.                                                       (* orderly shutdown and restart: every session is gone *)

Definition in_mbox (w : world) (s : Z) (k : string -> mbox -> world * out) : world * out :=
  match sel w s with
  | None => (w, [(s, RNo)])
  | Some n => match get_box w n with Some b => k n b | None => (w, [(s, RNo)]) end
  end.

(* the gate of FETCH/STORE/SEARCH: pending EXPUNGEs are only let out for UID commands *)
Definition gate (b : mbox) (s : Z) (uidc : bool) (flush_otherwise : bool) : option (mbox * out) :=
  match get_client b s with
  | None => None
  | Some c =>
      if pending_expunges c then (if uidc then Some (flush b s) else None)
      else if flush_otherwise then Some (flush b s) else Some (b, [])
  end.

(* add messages to a mailbox as MH files (keys = next free numbers) *)
Fixpoint add_files (disk known : list msg) (new : list msg) : list msg :=
  match new with
  | [] => disk
  | m :: new' =>
      let k := Z.max (max_key disk) (max_key known) + 1 in
      add_files (disk ++ [{| m_key := k; m_uid := 0; m_cid := m_cid m; m_date := m_date m; m_seqs := m_seqs m |}])
                known new'
  end.
Definition with_disk (b : mbox) (d : list msg) : mbox :=
  {| b_msgs := b_msgs b; b_next := b_next b; b_vv := b_vv b; b_clients := b_clients b; b_disk := d |}.

Definition seqs_of_flags (fl : list string) : list string :=
  let s := fold_left (fun a f => sadd (flag_to_seq f) a) fl [] in
  if smem "Seen" s then s else sadd "unseen" s.

Definition uids_at (ms : list msg) (sel : list Z) : list Z :=
  flat_map (fun p => match znth ms (p - 1) with Some m => [m_uid m] | None => [] end) sel.
Definition msgs_at (ms : list msg) (sel : list Z) : list msg :=
  flat_map (fun p => match znth ms (p - 1) with Some m => [m] | None => [] end) sel.

(* copy the selected messages of [src] into mailbox [dn]; returns the world, output, src and dst UIDs *)
Definition copy_into (w : world) (srcb : mbox) (sel : list Z) (dn : string) : option (world * out * list Z * list Z) :=
  match get_box w dn with
  | None => None
  | Some db =>
    match b_msgs srcb with
    | [] => Some (w, [], [], [])        (* nothing to copy from an empty mailbox: the destination is not touched *)
    | _ =>
      let picked := msgs_at (b_msgs srcb) sel in
      let '(db1, o1) := admit_cmd w dn db in                         (* phony APPEND is admitted: resync *)
      let db2 := with_disk db1 (add_files (b_disk db1) (b_msgs db1) picked) in
      let first := b_next db2 in
      let '(db3, o2) := resync db2 in
      let dst := map m_uid (filter (fun m => first <=? m_uid m) (b_msgs db3)) in
      Some (set_box w dn db3, o1 ++ o2, map m_uid picked, dst)
    end
  end.

Definition step (w : world) (o : op) : world * out :=
  match o with
  | ORestart =>
      ({| w_boxes := map (fun nb => (fst nb, set_clients (snd nb) [])) (w_boxes w); w_vv := w_vv w;
          w_pack_size := w_pack_size w; w_pack_num := w_pack_num w; w_pack_den := w_pack_den w |}, [])
  | OMkbox m =>
      match get_box w m with
      | Some _ => (w, [])
      | None => ({| w_boxes := w_boxes w ++ [(m, {| b_msgs := []; b_next := 1; b_vv := w_vv w + 1;
                                                   b_clients := []; b_disk := [] |})];
                    w_vv := w_vv w + 1; w_pack_size := w_pack_size w; w_pack_num := w_pack_num w;
                    w_pack_den := w_pack_den w |}, [])
      end
  | ODeliver m n unseen cid0 date =>
      match get_box w m with
      | None => (w, [])
      | Some b =>
          let new := map (fun i => {| m_key := 0; m_uid := 0; m_cid := cid0 + Z.of_nat i; m_date := date;
                                      m_seqs := if unseen then ["unseen"%string] else ["Seen"%string] |})
                         (seq 0 (Z.to_nat n)) in
          (set_box w m (with_disk b (add_files (b_disk b) (b_msgs b) new)), [])
      end
  | OPoll =>
      fold_left (fun acc nb =>
                   let '(w1, o1) := acc in
                   match get_box w1 (fst nb) with
                   | None => acc
                   | Some b => let '(b', o') := resync b in
                               let b'' := match o' with [] => maybe_pack w1 b' | _ => b' end in
                               (set_box w1 (fst nb) b'', o1 ++ o')
                   end) (w_boxes w) (w, [])
  | OSelect s m0 exam =>
      let m := lower_inbox m0 in
      let w1 := unselect w s in
      match get_box w1 m with
      | None => (w1, [(s, RNo)])
      | Some b =>
          let '(b1, o1) := admit_cmd w1 m b in
          let ms := b_msgs b1 in
          let c := {| c_idle := false; c_exam := exam; c_pend := []; c_view := map m_uid ms; c_ok := true |} in
          let b2 := set_clients b1 (b_clients b1 ++ [(s, c)]) in
          (set_box w1 m b2,
           o1 ++ tag s [RExists (zlen ms) (map m_uid ms); RRecent (count_seq "Recent" ms);
                        RSelInfo (first_unseen ms) (b_vv b1) (b_next b1) (keywords ms);
                        ROk (if exam then CReadOnly else CReadWrite)])
      end
  | OUnselect s =>
      match sel w s with
      | None => (w, [(s, RBad)])
      | Some _ => (unselect w s, [(s, ROk CNone)])
      end
  | OClose s =>
      in_mbox w s (fun n b =>
        match get_client b s with
        | None => (w, [(s, RNo)])
        | Some c =>
            let b0 := set_clients b (zalist_del (b_clients b) s) in
            if c_exam c then (set_box w n b0, [(s, ROk CNone)])
            else if existsb (has_seq "Deleted") (b_msgs b0) then
              let '(b1, o1) := admit_cmd w n b0 in
              let '(b2, o2) := expunge b1 (has_seq "Deleted") in
              (set_box w n b2, o1 ++ o2 ++ [(s, ROk CNone)])
            else (set_box w n b0, [(s, ROk CNone)])
        end)
  | ONoop s =>
      match sel w s with
      | None => (w, [(s, ROk CNone)])
      | Some n => match get_box w n with
                  | None => (w, [(s, ROk CNone)])
                  | Some b => let '(b1, o1) := admit_cmd w n b in
                              let '(b2, o2) := flush b1 s in
                              (set_box w n b2, o1 ++ o2 ++ [(s, ROk CNone)])
                  end
      end
  | OCheck s =>
      in_mbox w s (fun n b =>
        let '(b0, o0) := flush b s in
        let '(b1, o1) := admit_cmd w n b0 in
        let '(b2, o2) := flush b1 s in
        (set_box w n b2, o0 ++ o1 ++ o2 ++ [(s, ROk CNone)]))
  | OIdle s =>
      match sel w s with
      | None => (w, [(s, RIdling)])
      | Some n => match get_box w n with
                  | None => (w, [(s, RIdling)])
                  | Some b => let '(b1, o1) := flush b s in
                              (set_box w n (upd_client b1 s (fun c => set_idle c true)), (s, RIdling) :: o1)
                  end
      end
  | ODone s =>
      match sel w s with
      | None => (w, [(s, ROk CNone)])
      | Some n => match get_box w n with
                  | None => (w, [(s, ROk CNone)])
                  | Some b => let b0 := upd_client b s (fun c => set_idle c false) in
                              let '(b1, o1) := flush b0 s in
                              (set_box w n b1, o1 ++ [(s, ROk CNone)])
                  end
      end
  | OAppend s m0 flags date cid =>
      let m := lower_inbox m0 in
      (* flush the issuer's queue (on its selected mailbox) first *)
      let '(w0, o0) := match sel w s with
                       | Some n => match get_box w n with
                                   | Some b => let '(b', o') := flush b s in (set_box w n b', o')
                                   | None => (w, [])
                                   end
                       | None => (w, [])
                       end in
      match get_box w0 m with
      | None => (w0, o0 ++ [(s, RNo)])
      | Some b =>
          let '(b1, o1) := admit_cmd w0 m b in
          if existsb reserved_kw flags then (set_box w0 m b1, o0 ++ o1 ++ [(s, RNo)])
          else
            let file := {| m_key := 0; m_uid := 0; m_cid := cid; m_date := date; m_seqs := seqs_of_flags flags |} in
            let b2 := with_disk b1 (add_files (b_disk b1) (b_msgs b1) [file]) in
            let newkey := Z.max (max_key (b_disk b1)) (max_key (b_msgs b1)) + 1 in
            let '(b3, o2) := resync b2 in
            let uid := match filter (fun x => m_key x =? newkey) (b_msgs b3) with x :: _ => m_uid x | [] => 0 end in
            let w1 := set_box w0 m b3 in
            let '(w2, o3) := match sel w1 s with
                             | Some n => match get_box w1 n with
                                         | Some bb => let '(b', o') := flush bb s in (set_box w1 n b', o')
                                         | None => (w1, [])
                                         end
                             | None => (w1, [])
                             end in
            (w2, o0 ++ o1 ++ o2 ++ o3 ++ [(s, ROk (CAppendUid (b_vv b3) uid))])
      end
  | OStore s uidc set act silent flags =>
      in_mbox w s (fun n b =>
        match get_client b s with
        | None => (w, [(s, RNo)])
        | Some c =>
            if c_exam c then (w, [(s, RNo)])
            else match gate b s uidc true with
            | None => (w, [(s, RNo)])
            | Some (b0, o0) =>
                match admit_set w n b0 uidc set with
                | Err _ => (set_box w n b0, o0 ++ [(s, RBad)])
                | Ok (b1a, o1a, sel) =>
                    (* let through: what was queued while the command waited (the resync's notes) goes out first *)
                    let '(b1, o1b) := flush b1a s in
                    let o1 := o1a ++ o1b in
                    if smem "\Recent" flags || existsb reserved_kw flags then (set_box w n b1, o0 ++ o1 ++ [(s, RNo)])
                    else
                      let ms := map_at (apply_store act (map flag_to_seq flags)) sel (b_msgs b1) 1 in
                      let b2 := set_msgs b1 ms in
                      let '(b3, o2) := dispatch b2 (Some s) (notes_at sel ms 1 false) in
                      let mine := if silent then [] else notes_at sel ms 1 uidc in
                      let b4 := upd_client b3 s (fun c => deliver c mine) in
                      (set_box w n b4, o0 ++ o1 ++ o2 ++ tag s mine ++ [(s, ROk CNone)])
                end
            end
        end)
  | OFetch s uidc set k =>
      in_mbox w s (fun n b =>
        match get_client b s with
        | None => (w, [(s, RNo)])
        | Some c =>
            match gate b s uidc true with
            | None => (w, [(s, RNo)])
            | Some (b0, o0) =>
                match admit_set w n b0 uidc set with
                | Err _ => (set_box w n b0, o0 ++ [(s, RBad)])
                | Ok (b1a, o1a, sel) =>
                    let '(b1, o1b) := flush b1a s in
                    let o1 := o1a ++ o1b in
                    let ms := b_msgs b1 in
                    (* the data items, computed on the flags as they are before this FETCH's side effects *)
                    let items := flat_map (fun p => match znth ms (p - 1) with
                                                    | Some m => match k with
                                                                | FFlags => [fetch_note p m uidc]
                                                                | FBoth => [fetch_note p m uidc;
                                                                            RBody p (if uidc then Some (m_uid m) else None)
                                                                                  (m_cid m) (m_date m) (m_uid m)]
                                                                | _ => [RBody p (if uidc then Some (m_uid m) else None)
                                                                              (m_cid m) (m_date m) (m_uid m)]
                                                                end
                                                    | None => [] end) sel in
                    let b1' := upd_client b1 s (fun c => deliver c items) in
                    (* side effects unless read-only: FLAGS drops \Recent, a non-PEEK body sets \Seen *)
                    let touch (m : msg) : msg :=
                      match k with
                      | FFlags => {| m_key := m_key m; m_uid := m_uid m; m_cid := m_cid m; m_date := m_date m;
                                     m_seqs := srem "Recent" (m_seqs m) |}
                      | FBody => {| m_key := m_key m; m_uid := m_uid m; m_cid := m_cid m; m_date := m_date m;
                                    m_seqs := if smem "unseen" (m_seqs m) then sadd "Seen" (srem "unseen" (m_seqs m))
                                              else m_seqs m |}
                      | FBoth => {| m_key := m_key m; m_uid := m_uid m; m_cid := m_cid m; m_date := m_date m;
                                    m_seqs := let q := srem "Recent" (m_seqs m) in
                                              if smem "unseen" q then sadd "Seen" (srem "unseen" q) else q |}
                      | FBodyPeek => m
                      end in
                    let changed (p : Z) : bool :=
                      match znth ms (p - 1) with
                      | Some m => match k with
                                  | FFlags => smem "Recent" (m_seqs m)
                                  | FBody => smem "unseen" (m_seqs m)
                                  | FBoth => smem "Recent" (m_seqs m) || smem "unseen" (m_seqs m)
                                  | FBodyPeek => false
                                  end
                      | None => false
                      end in
                    let chg := if c_exam c then [] else filter changed sel in
                    let ms' := map_at touch chg ms 1 in
                    let b2 := set_msgs b1' ms' in
                    let '(b3, o2) := dispatch b2 None (notes_at chg ms' 1 false) in
                    let '(b4, o3) := flush b3 s in
                    (set_box w n b4, o0 ++ o1 ++ tag s items ++ o2 ++ o3 ++ [(s, ROk CNone)])
                end
            end
        end)
  | OSearch s uidc flag =>
      in_mbox w s (fun n b =>
        (* do_search does not send the queue when the command arrives, only once it has been let through; the
           issuer is sent the same responses in the same order either way (an EXISTS of the resync is queued
           behind a non-empty queue), so the model flushes at both points like FETCH and STORE *)
        match gate b s uidc true with
        | None => (w, [(s, RNo)])
        | Some (b0, o0) =>
            let '(b1a, o1a) := admit_cmd w n b0 in
            let '(b1, o1b) := flush b1a s in
            let o1 := o1a ++ o1b in
            let hits := map fst (filter (fun p => has_seq (flag_to_seq flag) (snd p))
                                        (combine (map (fun i => Z.of_nat i + 1) (seq 0 (List.length (b_msgs b1)))) (b_msgs b1))) in
            let res := if uidc then uids_at (b_msgs b1) hits else hits in
            (set_box w n b1, o0 ++ o1 ++ [(s, RSearch res); (s, ROk CNone)])
        end)
  | OExpunge s uset =>
      in_mbox w s (fun n b =>
        match get_client b s with
        | None => (w, [(s, RNo)])
        | Some c =>
            let '(b0, o0) := flush b s in
            if c_exam c then (set_box w n b0, o0 ++ [(s, ROk CNone)])
            else
              let was := c_idle c in
              let bh := upd_client b0 s (fun c => set_idle c true) in      (* the "idling hack" *)
              match (match uset with
                     | None => let '(b1, o1) := admit_cmd w n bh in Ok (b1, o1, None)
                     | Some st => match admit_set w n bh true st with
                                  | Ok (b1, o1, sel) => Ok (b1, o1, Some (uids_at (b_msgs b1) sel))
                                  | Err e => Err e end end) with
              | Err _ => (set_box w n (upd_client bh s (fun c => set_idle c was)), o0 ++ [(s, RBad)])
              | Ok (b1, o1, restrict) =>
                  let del (m : msg) := has_seq "Deleted" m &&
                                       match restrict with None => true | Some us => zmem (m_uid m) us end in
                  let '(b2, o2) := expunge b1 del in
                  (set_box w n (upd_client b2 s (fun c => set_idle c was)), o0 ++ o1 ++ o2 ++ [(s, ROk CNone)])
              end
        end)
  | OCopy s uidc set dst0 =>
      let dst := lower_inbox dst0 in
      in_mbox w s (fun n b =>
        let '(b0, o0) := flush b s in
        match admit_set w n b0 uidc set with
        | Err _ => (set_box w n b0, o0 ++ [(s, RBad)])
        | Ok (b1, o1, sel) =>
            let w1 := set_box w n b1 in
            match copy_into w1 b1 sel dst with
            | None => (w1, o0 ++ o1 ++ [(s, RNo)])
            | Some (w2, o2, src, dstu) =>
                (w2, o0 ++ o1 ++ o2 ++ [(s, ROk (match src with [] => CNone | _ => CCopyUid
                                                    (match get_box w2 dst with Some d => b_vv d | None => 0 end) src dstu end))])
            end
        end)
  | OMove s uidc set dst0 =>
      let dst := lower_inbox dst0 in
      in_mbox w s (fun n b =>
        match get_client b s with
        | None => (w, [(s, RNo)])
        | Some c =>
            if c_exam c then (w, [(s, RNo)])
            else
              let '(b0, o0) := flush b s in
              match admit_set w n b0 uidc set with
              | Err _ => (set_box w n b0, o0 ++ [(s, RBad)])
              | Ok (b1, o1, sel) =>
                  let w1 := set_box w n b1 in
                  match copy_into w1 b1 sel dst with
                  | None => (w1, o0 ++ o1 ++ [(s, RNo)])
                  | Some (w2, o2, src, dstu) =>
                      match src with
                      | [] => (w2, o0 ++ o1 ++ o2 ++ [(s, ROk CNone)])
                      | _ =>
                          let vv := match get_box w2 dst with Some d => b_vv d | None => 0 end in
                          match get_box w2 n with
                          | None => (w2, o0 ++ o1 ++ o2 ++ [(s, RNo)])
                          | Some sb =>
                              let '(sb0, o3) := flush sb s in
                              let was := c_idle c in
                              let sbh := upd_client sb0 s (fun c => set_idle c true) in
                              let '(sb1, o4) := admit_cmd w2 n sbh in
                              let '(sb2, o5) := expunge sb1 (fun m => zmem (m_uid m) src) in
                              (set_box w2 n (upd_client sb2 s (fun c => set_idle c was)),
                               o0 ++ o1 ++ o2 ++ [(s, RMoveOk (CCopyUid vv src dstu))] ++ o3 ++ o4 ++ o5 ++ [(s, ROk CNone)])
                          end
                      end
                  end
              end
        end)
  end.

Definition run (w : world) (ops : list op) : world * list out :=
  fold_left (fun acc o => let '(w1, outs) := acc in let '(w2, o2) := step w1 o in (w2, outs ++ [o2])) ops (w, []).

Definition init_world (pack_size pack_num pack_den : Z) : world :=
  {| w_boxes := [("inbox"%string, {| b_msgs := []; b_next := 1; b_vv := 1; b_clients := []; b_disk := [] |})];
     w_vv := 1; w_pack_size := pack_size; w_pack_num := pack_num; w_pack_den := pack_den |}.
