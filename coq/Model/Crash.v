(* Model/Crash.v — durable state of one mailbox (message files in the MH folder + the committed
   mailbox row), the effect traces of APPEND and EXPUNGE (files first, commit last: the order the
   check observes on the implementation), a crash after any prefix, and the reconciliation done by
   the first resync after a restart (mbox.py check_new_msgs_and_flags incl. the 'shrunk' reset and
   the dropping of vanished messages).  Definitions only. *)
From Asimap Require Import Base.Res.
Open Scope Z_scope.

Record dbrow := { r_keys : list Z; r_uids : list Z; r_next : Z }.
Record durable := { d_files : list (Z * Z) (* (MH key, content id), in key order *); d_db : dbrow }.

Inductive effect := FileAdd (k c : Z) | FileDel (k : Z) | Commit (r : dbrow).

Definition zmem (x : Z) (l : list Z) : bool := existsb (Z.eqb x) l.
Definition apply_effect (d : durable) (e : effect) : durable :=
  match e with
  | FileAdd k c => {| d_files := d_files d ++ [(k, c)]; d_db := d_db d |}
  | FileDel k => {| d_files := filter (fun f => negb (fst f =? k)) (d_files d); d_db := d_db d |}
  | Commit r => {| d_files := d_files d; d_db := r |}
  end.
Definition apply_effects (d : durable) (es : list effect) : durable := fold_left apply_effect es d.

Definition max_key (l : list Z) : Z := fold_left Z.max l 0.
Definition zlen {A} (l : list A) : Z := Z.of_nat (List.length l).
Definition fresh_uids (next : Z) (n : nat) : list Z := map (fun i => next + Z.of_nat i) (seq 0 n).

(* APPEND of content c: add the file under the next free number, then commit the grown row *)
Definition append_trace (d : durable) (c : Z) : list effect :=
  let r := d_db d in
  let k := max_key (map fst (d_files d)) + 1 in
  [FileAdd k c; Commit {| r_keys := r_keys r ++ [k]; r_uids := r_uids r ++ [r_next r]; r_next := r_next r + 1 |}].
(* EXPUNGE of the messages whose keys are in [del]: remove the files highest first, then commit *)
Definition keep_row (r : dbrow) (del : list Z) : dbrow :=
  let kept := filter (fun p => negb (zmem (fst p) del)) (combine (r_keys r) (r_uids r)) in
  {| r_keys := map fst kept; r_uids := map snd kept; r_next := r_next r |}.
Definition expunge_trace (d : durable) (del : list Z) : list effect :=
  map FileDel (rev (filter (fun k => zmem k del) (r_keys (d_db d)))) ++ [Commit (keep_row (d_db d) del)].

(* the first resync after a restart *)
Definition recover (d : durable) : dbrow :=
  let r := d_db d in
  let fk := map fst (d_files d) in
  if forallb (fun p => fst p =? snd p) (combine fk (r_keys r)) && (List.length fk =? List.length (r_keys r))%nat then r
  else if (List.length fk <? List.length (r_keys r))%nat then
    (* "mailbox has shrunk": treated as a new mailbox, every message gets a new UID *)
    {| r_keys := fk; r_uids := fresh_uids (r_next r) (List.length fk); r_next := r_next r + zlen fk |}
  else
    let kept := filter (fun p => zmem (fst p) fk) (combine (r_keys r) (r_uids r)) in
    let new := filter (fun k => negb (zmem k (r_keys r))) fk in
    {| r_keys := map fst kept ++ new; r_uids := map snd kept ++ fresh_uids (r_next r) (List.length new);
       r_next := r_next r + zlen new |}.

(* what a client can be told: which content a UID names *)
Definition cid_of (files : list (Z * Z)) (k : Z) : option Z :=
  match filter (fun f => fst f =? k) files with f :: _ => Some (snd f) | [] => None end.
Definition bindings (files : list (Z * Z)) (r : dbrow) : list (Z * option Z) :=
  map (fun p => (snd p, cid_of files (fst p))) (combine (r_keys r) (r_uids r)).

(* a state at a command boundary: row and folder agree *)
Definition consistent (d : durable) : Prop :=
  map fst (d_files d) = r_keys (d_db d) /\ List.length (r_uids (d_db d)) = List.length (r_keys (d_db d)) /\
  Forall (fun u => 0 < u < r_next (d_db d)) (r_uids (d_db d)) /\
  Forall (fun k => 0 < k) (r_keys (d_db d)) /\ 0 < r_next (d_db d).
