(* Model/ParseCmp.v — boolean equality on the command AST and the comparison used by the
   correspondence check (harness/props/c08.py): observed outcome of the real parser vs. the model.
   Definitions only. *)
From Asimap Require Import Base.Res Base.Bytes Model.Lex Spec.Grammar Model.ParseM.
Open Scope Z_scope.

Definition bool_eqb (a b : bool) : bool := if a then b else negb b.
Fixpoint list_eqb {A} (e : A -> A -> bool) (a b : list A) : bool :=
  match a, b with
  | [], [] => true
  | x :: a', y :: b' => e x y && list_eqb e a' b'
  | _, _ => false
  end.
Definition opt_eqb {A} (e : A -> A -> bool) (a b : option A) : bool :=
  match a, b with
  | None, None => true
  | Some x, Some y => e x y
  | _, _ => false
  end.
Definition bytes_eqb : list Z -> list Z -> bool := list_eqb Z.eqb.

Definition satom_eqb (a b : sset_atom) : bool :=
  match a, b with
  | AStar, AStar => true
  | ANum x, ANum y => x =? y
  | _, _ => false
  end.
Definition selt_eqb (a b : sset_elt) : bool :=
  match a, b with
  | EStar, EStar => true
  | ENum x, ENum y => x =? y
  | ERange a1 b1, ERange a2 b2 => satom_eqb a1 a2 && satom_eqb b1 b2
  | _, _ => false
  end.
Definition set_eqb := list_eqb selt_eqb.

Definition noarg_eqb (a b : noarg) : bool :=
  match a, b with
  | NCapability, NCapability | NNoop, NNoop | NNamespace, NNamespace | NIdle, NIdle
  | NLogout, NLogout | NCheck, NCheck | NClose, NClose | NUnselect, NUnselect => true
  | _, _ => false
  end.
Definition mboxcmd_eqb (a b : mboxcmd) : bool :=
  match a, b with
  | MSelect, MSelect | MExamine, MExamine | MCreate, MCreate | MDelete, MDelete
  | MSubscribe, MSubscribe | MUnsubscribe, MUnsubscribe => true
  | _, _ => false
  end.
Definition action_eqb (a b : store_action) : bool :=
  match a, b with
  | SReplace, SReplace | SAdd, SAdd | SRemove, SRemove => true
  | _, _ => false
  end.
Definition status_eqb (a b : status_att) : bool :=
  match a, b with
  | StMessages, StMessages | StRecent, StRecent | StUidnext, StUidnext
  | StUidvalidity, StUidvalidity | StUnseen, StUnseen => true
  | _, _ => false
  end.
Definition sel_eqb (a b : sel_opts) : bool :=
  bool_eqb (so_subscribed a) (so_subscribed b) && bool_eqb (so_remote a) (so_remote b)
  && bool_eqb (so_recursive a) (so_recursive b) && bool_eqb (so_special a) (so_special b).
Definition ret_eqb (a b : ret_opts) : bool :=
  bool_eqb (ro_subscribed a) (ro_subscribed b) && bool_eqb (ro_children a) (ro_children b)
  && bool_eqb (ro_status a) (ro_status b) && bool_eqb (ro_special a) (ro_special b).

Definition stext_eqb (a b : sect_text) : bool :=
  match a, b with
  | TxHeader, TxHeader | TxText, TxText | TxMime, TxMime => true
  | TxFields n1 h1, TxFields n2 h2 => bool_eqb n1 n2 && list_eqb bytes_eqb h1 h2
  | _, _ => false
  end.
Definition section_eqb (a b : section) : bool :=
  list_eqb Z.eqb (fst a) (fst b) && opt_eqb stext_eqb (snd a) (snd b).
Definition zpair_eqb (a b : Z * Z) : bool := (fst a =? fst b) && (snd a =? snd b).
Definition fatt_eqb (a b : fetch_att) : bool :=
  match a, b with
  | FSimple x, FSimple y => fop_eqb x y
  | FBodyShort, FBodyShort | FRfc822, FRfc822 | FRfc822Header, FRfc822Header | FRfc822Text, FRfc822Text => true
  | FBody p1 s1 q1, FBody p2 s2 q2 => bool_eqb p1 p2 && section_eqb s1 s2 && opt_eqb zpair_eqb q1 q2
  | _, _ => false
  end.

Definition sdate_eqb (a b : sdate) : bool :=
  match a, b with
  | DBefore, DBefore | DOn, DOn | DSince, DSince | DSentBefore, DSentBefore | DSentOn, DSentOn
  | DSentSince, DSentSince => true
  | _, _ => false
  end.
Definition date_eqb (a b : date) : bool :=
  let '(y1, m1, d1) := a in let '(y2, m2, d2) := b in (y1 =? y2) && (m1 =? m2) && (d1 =? d2).
Definition date_time_eqb (a b : date_time) : bool :=
  let '(y1, m1, d1, h1, i1, s1, o1) := a in
  let '(y2, m2, d2, h2, i2, s2, o2) := b in
  (y1 =? y2) && (m1 =? m2) && (d1 =? d2) && (h1 =? h2) && (i1 =? i2) && (s1 =? s2) && (o1 =? o2).

Fixpoint skey_eqb (a b : skey) : bool :=
  match a, b with
  | KAll, KAll => true
  | KKeyword x, KKeyword y => bytes_eqb x y
  | KHeader h1 s1, KHeader h2 s2 => bytes_eqb h1 h2 && bytes_eqb s1 s2
  | KDate w1 d1, KDate w2 d2 => sdate_eqb w1 w2 && date_eqb d1 d2
  | KBody x, KBody y => bytes_eqb x y
  | KText x, KText y => bytes_eqb x y
  | KLarger x, KLarger y => x =? y
  | KSmaller x, KSmaller y => x =? y
  | KNot x, KNot y => skey_eqb x y
  | KOr a1 b1, KOr a2 b2 => skey_eqb a1 a2 && skey_eqb b1 b2
  | KAnd l1, KAnd l2 =>
      (fix go (l1 l2 : list skey) : bool :=
         match l1, l2 with
         | [], [] => true
         | x :: l1', y :: l2' => skey_eqb x y && go l1' l2'
         | _, _ => false
         end) l1 l2
  | KMsgSet x, KMsgSet y => set_eqb x y
  | KUid x, KUid y => set_eqb x y
  | _, _ => false
  end.

Definition id_pair_eqb (a b : list Z * option (list Z)) : bool :=
  bytes_eqb (fst a) (fst b) && opt_eqb bytes_eqb (snd a) (snd b).

Definition cmd_eqb (a b : cmd) : bool :=
  match a, b with
  | CNoArg x, CNoArg y => noarg_eqb x y
  | CExpunge, CExpunge => true
  | CUidExpunge x, CUidExpunge y => set_eqb x y
  | CAuthenticate x, CAuthenticate y => bytes_eqb x y
  | CLogin u1 p1, CLogin u2 p2 => bytes_eqb u1 u2 && bytes_eqb p1 p2
  | CMbox c1 m1, CMbox c2 m2 => mboxcmd_eqb c1 c2 && bytes_eqb m1 m2
  | CRename a1 b1, CRename a2 b2 => bytes_eqb a1 a2 && bytes_eqb b1 b2
  | CList l1 s1 r1 p1 ps1 t1 st1, CList l2 s2 r2 p2 ps2 t2 st2 =>
      bool_eqb l1 l2 && sel_eqb s1 s2 && bytes_eqb r1 r2 && bytes_eqb p1 p2 && list_eqb bytes_eqb ps1 ps2
      && ret_eqb t1 t2 && list_eqb status_eqb st1 st2
  | CStatus m1 a1, CStatus m2 a2 => bytes_eqb m1 m2 && list_eqb status_eqb a1 a2
  | CId p1, CId p2 => list_eqb id_pair_eqb p1 p2
  | CAppend m1 f1 d1 g1, CAppend m2 f2 d2 g2 =>
      bytes_eqb m1 m2 && list_eqb bytes_eqb f1 f2 && opt_eqb date_time_eqb d1 d2 && bytes_eqb g1 g2
  | CSearch u1 c1 k1, CSearch u2 c2 k2 => bool_eqb u1 u2 && bytes_eqb c1 c2 && list_eqb skey_eqb k1 k2
  | CFetch u1 s1 a1, CFetch u2 s2 a2 => bool_eqb u1 u2 && set_eqb s1 s2 && list_eqb fatt_eqb a1 a2
  | CStore u1 s1 a1 q1 f1, CStore u2 s2 a2 q2 f2 =>
      bool_eqb u1 u2 && set_eqb s1 s2 && action_eqb a1 a2 && bool_eqb q1 q2 && list_eqb bytes_eqb f1 f2
  | CCopy u1 s1 m1, CCopy u2 s2 m2 => bool_eqb u1 u2 && set_eqb s1 s2 && bytes_eqb m1 m2
  | CMove u1 s1 m1, CMove u2 s2 m2 => bool_eqb u1 u2 && set_eqb s1 s2 && bytes_eqb m1 m2
  | _, _ => false
  end.
Definition ast_eqb (a b : ast) : bool := bytes_eqb (a_tag a) (a_tag b) && cmd_eqb (a_cmd a) (a_cmd b).

(* what the harness observed of the real parser: the object's attributes converted to an AST and the
   unread remainder, BadCommand, any other exception, or no answer within a second *)
Inductive observed := OParsed (a : ast) (rest : list Z) | OBad | OOther | OHang.

Definition agrees (s : list Z) (o : observed) : bool :=
  match parse_core s, o with
  | ROk a r, OParsed b r' => ast_eqb a b && bytes_eqb r r'
  | RBad, OBad => true
  | RCrash CValue, OBad => true
  | _, _ => false
  end.

Fixpoint mismatches (i : nat) (cs : list (list Z * observed)) : list nat :=
  match cs with
  | [] => []
  | (s, o) :: cs' => if agrees s o then mismatches (S i) cs' else i :: mismatches (S i) cs'
  end.

(* grammar-directed cases: the generator's AST and choices are data; the sentence is `render`ed in Coq
   and must be the generator's sentence, and the model must parse it back to that AST *)
Definition roundtrip (a : ast) (s : list Z) : bool :=
  match parse_core s with
  | ROk b r => ast_eqb a b && at_end r
  | _ => false
  end.
Fixpoint rt_mismatches (i : nat) (cs : list (ast * list Z)) : list nat :=
  match cs with
  | [] => []
  | (a, s) :: cs' => if roundtrip a s then rt_mismatches (S i) cs' else i :: rt_mismatches (S i) cs'
  end.

(* pins of the Python primitives *)
Definition lower_table : list Z := map (fun i => py_lower (Z.of_nat i)) (seq 0 256).

(* the harness printer is pinned to `render` on the canonical choices *)
Fixpoint render_mismatches (i : nat) (cs : list (ast * list Z)) : list nat :=
  match cs with
  | [] => []
  | (a, s) :: cs' => if bytes_eqb (render a canon) s then render_mismatches (S i) cs'
                     else i :: render_mismatches (S i) cs'
  end.
