(* Model/Codec.v — utils.compact_sequence / expand_sequence, the form in which UID lists, message
   keys and sequences are persisted in SQLite, modelled on lists of runs (start, end); the decimal
   text "1-3,6,9-10" is Python's str/int and is not modelled.  Definitions only. *)
From Asimap Require Import Base.Res.
Open Scope Z_scope.

(* groupby(keys, n - index): maximal runs of consecutive integers *)
Fixpoint compact_aux (l : list Z) (start prev : Z) : list (Z * Z) :=
  match l with
  | [] => [(start, prev)]
  | x :: l' => if x =? prev + 1 then compact_aux l' start x else (start, prev) :: compact_aux l' x x
  end.
Definition compact_runs (l : list Z) : list (Z * Z) :=
  match l with [] => [] | x :: l' => compact_aux l' x x end.

(* for spec in contents.split(","): a number, or start-stop -> range(start, stop+1); sorted(set) *)
Definition expand_runs (rs : list (Z * Z)) : list Z :=
  sorted_set (flat_map (fun r => py_range (fst r) (snd r + 1)) rs).
