(* Model/MhSeq.v — what the server writes into a folder's `.mh_sequences` (the way MH tools learn
   about IMAP flag changes, C13) and how it derives `Seen` from `unseen` when it reads the file (C04,
   C13).  Sequences are Python's dict name -> set of message keys, here an association list
   name -> list of keys read as a set (membership is all that is observed).  Definitions only.

   mbox.py, Mailbox.set_sequences_in_folder(seqs, forget=()):
       out = {k: set(v) for k, v in seqs.items()}
       highest = self.msg_keys[-1] if self.msg_keys else 0
       dropped = set(forget)
       for name, keys in self.mailbox.get_sequences().items():
           newer = {k for k in keys if k > highest and k not in dropped}
           if newer: out.setdefault(name, set()).update(newer)
       self.mailbox.set_sequences({k: list(v) for k, v in out.items()})

   mbox.py, Mailbox._get_sequences_update_seen(recent_msg_keys):
       seq = get_sequences_from_folder()
       if seq["unseen"]: seq["Seen"] = set(self.msg_keys) - seq["unseen"]       (when it differs)
       else:             seq["Seen"] = set(self.msg_keys)                        (when it differs)
       if recent_msg_keys: seq["Recent"].update(recent_msg_keys)   (or = set(recent_msg_keys))
       if modified: set_sequences_in_folder(seq)
       return seq *)
From Asimap Require Import Base.Res.
Open Scope Z_scope.

Definition seqs := list (string * list Z).
Definition zmem (k : Z) (l : list Z) : bool := existsb (Z.eqb k) l.
Definition seq_of (s : seqs) (name : string) : list Z := dict_get [] s name.

Definition highest_key (msg_keys : list Z) : Z := last msg_keys 0.
Definition newer (highest : Z) (forget keys : list Z) : list Z :=
  filter (fun k => (highest <? k) && negb (zmem k forget)) keys.

Fixpoint merge_folder (highest : Z) (forget : list Z) (out folder : seqs) : seqs :=
  match folder with
  | [] => out
  | (name, keys) :: rest =>
      let nw := newer highest forget keys in
      merge_folder highest forget
        (match nw with [] => out | _ => dict_set out name (seq_of out name ++ nw) end) rest
  end.

(* the dict handed to MH.set_sequences *)
Definition written (msg_keys : list Z) (s : seqs) (forget : list Z) (folder : seqs) : seqs :=
  merge_folder (highest_key msg_keys) forget s folder.

(* the dict _get_sequences_update_seen returns (and writes when it changed something) *)
Definition update_seen (msg_keys : list Z) (s : seqs) (recent : list Z) : seqs :=
  let unseen := seq_of s "unseen" in
  let new_seen := match unseen with
                  | [] => msg_keys
                  | _ => filter (fun k => negb (zmem k unseen)) msg_keys
                  end in
  let s1 := dict_set s "Seen" new_seen in
  match recent with
  | [] => s1
  | _ => dict_set s1 "Recent" (seq_of s1 "Recent" ++ recent)
  end.
