(* Model/Sched.v — the admission protocol of a mailbox (mbox.py would_conflict / intersect /
   parse.CONFLICTING_COMMANDS), the footprints of the commands it lets run together, interleavings
   of atomic steps, and the hold/queue discipline of commands that touch two mailboxes (COPY, MOVE).
   Definitions only. *)
From Asimap Require Import Base.Res.
Open Scope Z_scope.

Inductive ckind :=
  | KAppend | KCheck | KClose | KDelete | KExpunge | KMove | KRename
  | KCopy | KFetch (peek : bool) | KNoop | KSelect | KStatus | KExamine | KSearch | KStore.
Record cmd := { c_kind : ckind; c_set : list Z (* msg_set_as_set: sequence numbers *) }.

(* parse.CONFLICTING_COMMANDS *)
Definition conflicting_kind (k : ckind) : bool :=
  match k with KAppend | KCheck | KClose | KDelete | KExpunge | KMove | KRename => true | _ => false end.
Definition zmem (x : Z) (l : list Z) : bool := existsb (Z.eqb x) l.
Definition intersect (a b : cmd) : bool := existsb (fun x => zmem x (c_set b)) (c_set a).

(* Mailbox.would_conflict: [running] = executing_tasks, [deleted] = the \Deleted sequence is non-empty *)
Definition would_conflict (running : list cmd) (deleted : bool) (c : cmd) : bool :=
  match running with
  | [] => false
  | _ =>
      if existsb (fun r => conflicting_kind (c_kind r)) running then true
      else match c_kind c with
           | KAppend | KCheck | KDelete | KMove | KRename => true
           | KClose | KExpunge =>
               (* nothing to expunge *now*; a STORE that is still running may be about to mark messages \Deleted *)
               deleted || existsb (fun r => match c_kind r with KStore => true | _ => false end) running
           | KCopy => existsb (fun r => match c_kind r with
                                        | KStore => intersect c r
                                        | KFetch false => intersect c r
                                        | _ => false end) running
           | KFetch false => existsb (fun r => match c_kind r with
                                               | KSearch => true
                                               | KCopy | KFetch _ | KStore => intersect c r
                                               | _ => false end) running
           | KFetch true => existsb (fun r => match c_kind r with KStore => intersect c r | _ => false end) running
           | KNoop | KSelect | KStatus | KExamine => false
           | KSearch => existsb (fun r => match c_kind r with KFetch false => true | KStore => true | _ => false end) running
           | KStore => existsb (fun r => match c_kind r with
                                         | KSearch => true
                                         | KStore | KFetch _ | KCopy => intersect c r
                                         | _ => false end) running
           end
  end.

(* ---- what a command reads and writes while it runs (its footprint) *)
Inductive extent := ENone | ESet (l : list Z) | EAll.
Record footprint := { f_wlist : bool;      (* changes the message list / numbering *)
                      f_rlist : bool;      (* depends on the message list / numbering *)
                      f_wflags : extent;   (* flags it changes *)
                      f_rflags : extent;   (* flags it reads *)
                      f_wdel : bool;       (* may change which messages are \Deleted *)
                      f_rdel : bool }.     (* what it does depends on which messages of the whole mailbox are \Deleted *)
Definition fp_all : footprint :=
  {| f_wlist := true; f_rlist := true; f_wflags := EAll; f_rflags := EAll; f_wdel := true; f_rdel := true |}.
(* EXPUNGE and CLOSE decide what to remove when they RUN, not when they are admitted: with nothing marked
   \Deleted at admission they still depend on nobody marking anything until they have looked. *)
Definition fp (deleted : bool) (c : cmd) : footprint :=
  match c_kind c with
  | KAppend | KCheck | KDelete | KMove | KRename => fp_all
  | KClose | KExpunge => if deleted then fp_all
                         else {| f_wlist := false; f_rlist := false; f_wflags := ENone; f_rflags := ENone; f_wdel := false; f_rdel := true |}
  | KCopy => {| f_wlist := false; f_rlist := true; f_wflags := ENone; f_rflags := ESet (c_set c); f_wdel := false; f_rdel := false |}
  | KFetch true => {| f_wlist := false; f_rlist := true; f_wflags := ENone; f_rflags := ESet (c_set c); f_wdel := false; f_rdel := false |}
  | KFetch false => {| f_wlist := false; f_rlist := true; f_wflags := ESet (c_set c); f_rflags := ESet (c_set c); f_wdel := false; f_rdel := false |}
  | KSearch => {| f_wlist := false; f_rlist := true; f_wflags := ENone; f_rflags := EAll; f_wdel := false; f_rdel := true |}
  | KStore => {| f_wlist := false; f_rlist := true; f_wflags := ESet (c_set c); f_rflags := ESet (c_set c); f_wdel := true; f_rdel := false |}
  | KNoop | KSelect | KStatus | KExamine => {| f_wlist := false; f_rlist := true; f_wflags := ENone; f_rflags := ENone; f_wdel := false; f_rdel := false |}
  end.
Definition ext_meet (a b : extent) : bool :=
  match a, b with
  | ENone, _ | _, ENone => false
  | ESet x, ESet y => existsb (fun v => zmem v y) x
  | ESet x, EAll => match x with [] => false | _ => true end
  | EAll, ESet y => match y with [] => false | _ => true end
  | EAll, EAll => true
  end.
(* two footprints clash: one changes the list while the other uses it, or one writes flags the other touches *)
Definition fp_clash (a b : footprint) : bool :=
  (f_wlist a && (f_rlist b || f_wlist b)) || (f_wlist b && (f_rlist a || f_wlist a)) ||
  ext_meet (f_wflags a) (f_wflags b) || ext_meet (f_wflags a) (f_rflags b) || ext_meet (f_rflags a) (f_wflags b) ||
  (f_wdel a && f_rdel b) || (f_wdel b && f_rdel a).

(* ---- interleavings of atomic steps *)
Section Interleave.
  Context {S : Type}.
  Definition astep := S -> S.
  Definition runs (l : list astep) (s : S) : S := fold_left (fun s f => f s) l s.
  Definition commute (f g : astep) : Prop := forall s, f (g s) = g (f s).
  Inductive interleave : list astep -> list astep -> list astep -> Prop :=
    | il_nil : interleave [] [] []
    | il_l x a b l : interleave a b l -> interleave (x :: a) b (x :: l)
    | il_r y a b l : interleave a b l -> interleave a (y :: b) (y :: l).
  (* any number of commands: fold the binary interleaving *)
  Inductive interleave_all : list (list astep) -> list astep -> Prop :=
    | ia_nil : interleave_all [] []
    | ia_cons c cs l l' : interleave_all cs l -> interleave c l l' -> interleave_all (c :: cs) l'.
End Interleave.

(* ---- holding and queueing on mailboxes: a command's script of acquisitions and releases.
   Mailboxes are treated as mutexes (the worst case for waiting). *)
Inductive action := Acq (m : Z) | Rel | Work.
Record task := { t_script : list action; t_holds : list Z }.
Definition held (ts : list task) (m : Z) : bool := existsb (fun t => zmem m (t_holds t)) ts.
(* task t can take its next action *)
Definition enabled (ts : list task) (t : task) : bool :=
  match t_script t with
  | [] => false
  | Acq m :: _ => negb (held ts m)
  | _ => true
  end.
Definition do_action (t : task) : task :=
  match t_script t with
  | [] => t
  | Acq m :: r => {| t_script := r; t_holds := m :: t_holds t |}
  | Rel :: r => {| t_script := r; t_holds := [] |}
  | Work :: r => {| t_script := r; t_holds := t_holds t |}
  end.
(* the discipline of copy()/do_move(): never ask for a mailbox while holding one, release what
   you hold before you finish *)
Fixpoint script_ok (holding : bool) (sc : list action) : bool :=
  match sc with
  | [] => negb holding
  | Acq _ :: r => negb holding && script_ok true r
  | Rel :: r => holding && script_ok false r
  | Work :: r => script_ok holding r
  end.
Definition holding (t : task) : bool := match t_holds t with [] => false | _ => true end.
Definition task_ok (t : task) : bool := script_ok (holding t) (t_script t).
Definition unfinished (t : task) : bool := match t_script t with [] => false | _ => true end.
(* one step of the system: some enabled task takes its next action *)
Inductive sys_step : list task -> list task -> Prop :=
  | sys_do pre t post : enabled (pre ++ t :: post) t = true -> sys_step (pre ++ t :: post) (pre ++ do_action t :: post).

(* the scripts of the commands of client.py *)
Definition script_single (m : Z) : list action := [Acq m; Work; Rel].
Definition script_copy (src dst : Z) : list action := [Acq src; Work; Rel; Acq dst; Work; Rel].
Definition script_move (src dst : Z) : list action := [Acq src; Work; Rel; Acq dst; Work; Rel; Acq src; Work; Rel].
