(* Model/ParseM.v — IMAPClientCommand._parse / _parse_command / _p_* of asimap/parse.py as a
   Gallina function, mirroring the Python's control flow (which look-ahead decides which branch,
   in which order alternatives are tried, where an exception is caught).
   The code modelled is /repo with the C08 fixes (fixes/C08-*.patch: exact INBOX, decoded quoted strings,
   ValueError -> BadSyntax, search-key nesting limit, several STORE flags without parentheses) and
   SEARCH UNDRAFT (fixes/C14-search-undraft.patch).
   Not fixed, modelled as it is: the parser does not look at what follows a complete command
   (known finding C08-trailing-text) — `parse` ignores the rest, `parse_strict` is a specification helper.
   Definitions only; proofs are in Proofs/ParseP.v (completeness), ParseT.v (totality), ParseW.v / ParseS.v
   (soundness). *)
From Asimap Require Import Base.Res Base.Bytes Model.Lex Spec.Grammar.
Open Scope Z_scope.
Open Scope parser_scope.

(* ------------------------------------------------------------------ small tables *)
Definition lookup {A} (tbl : list (list Z * A)) (k : list Z) : option A :=
  match find (fun e => beq k (fst e)) tbl with Some e => Some (snd e) | None => None end.

Definition status_atts : list status_att := [StMessages; StRecent; StUidnext; StUidvalidity; StUnseen].
(* _p_status_att: the first member of StatusAtt whose name is a prefix of the input *)
Fixpoint p_status_att_from (l : list status_att) (s : list Z) : pres status_att :=
  match l with
  | [] => RBad
  | a :: l' => match try_lit (bs (status_name a)) s with
               | Some r => ROk a r
               | None => p_status_att_from l' s
               end
  end.
Definition p_status_att : parser status_att := p_status_att_from status_atts.

(* ------------------------------------------------------------------ FETCH *)
Inductive ftok := TkSimple (o : fop) | TkRfc822 | TkRfc822Header | TkRfc822Text | TkBody | TkBodyPeek.
(* ParseFetchAtt *)
Definition fetch_toks : list (list Z * ftok) :=
  [(bs "envelope", TkSimple FoEnvelope); (bs "flags", TkSimple FoFlags);
   (bs "internaldate", TkSimple FoInternaldate); (bs "rfc822.header", TkRfc822Header);
   (bs "rfc822.size", TkSimple FoRfc822Size); (bs "rfc822.text", TkRfc822Text);
   (bs "rfc822", TkRfc822); (bs "uid", TkSimple FoUid); (bs "bodystructure", TkSimple FoBodystructure);
   (bs "body.peek", TkBodyPeek); (bs "body", TkBody)].

(* _p_partial *)
Definition p_partial : parser (Z * Z) :=
  p_lit [60] ;;; a <- p_number ;; p_lit [46] ;;; b <- p_number ;; p_lit [62] ;;; pret (a, b).

(* the `try: while True: number "." except NoMatch` loop of _p_section *)
Fixpoint section_nums (fuel : nat) (s : list Z) : pres (list Z) :=
  match fuel with
  | O => RCrash CFuel
  | S f =>
      match p_number s with
      | ROk n r =>
          match p_lit [46] r with
          | ROk _ r' => match section_nums f r' with
                        | ROk l r'' => ROk (n :: l) r''
                        | RBad => RBad
                        | RCrash k => RCrash k
                        end
          | RBad => ROk [n] r
          | RCrash k => RCrash k
          end
      | RBad => ROk [] s
      | RCrash k => RCrash k
      end
  end.

Inductive stext_tok := SxFieldsNot | SxFields | SxHeader | SxText | SxMime.
Definition section_texts (with_mime : bool) : list (list Z * stext_tok) :=
  [(bs "header.fields.not", SxFieldsNot); (bs "header.fields", SxFields); (bs "header", SxHeader);
   (bs "text", SxText)] ++ (if with_mime then [(bs "mime", SxMime)] else []).
Fixpoint first_lit {A} (tbl : list (list Z * A)) (s : list Z) : option (A * list Z) :=
  match tbl with
  | [] => None
  | (k, a) :: tbl' => match try_lit k s with
                      | Some r => Some (a, r)
                      | None => first_lit tbl' s
                      end
  end.

(* _p_section *)
Definition p_section : parser section :=
  p_lit [91] ;;;
  (fun s =>
     match section_nums (S (List.length s)) s with
     | ROk nums r =>
         match try_lit [93] r with
         | Some r' => ROk (nums, None) r'
         | None =>
             match first_lit (section_texts (match nums with [] => false | _ => true end)) r with
             | None => RBad
             | Some (tk, r1) =>
                 let fields (neg : bool) : parser section :=
                   p_sp ;;; hl <- p_paren_list_of p_astring ;;
                   match hl with
                   | [] => pfail
                   | _ => p_lit [93] ;;; pret (nums, Some (TxFields neg hl))
                   end in
                 match tk with
                 | SxFieldsNot => fields true r1
                 | SxFields => fields false r1
                 | SxHeader => (p_lit [93] ;;; pret (nums, Some TxHeader)) r1
                 | SxText => (p_lit [93] ;;; pret (nums, Some TxText)) r1
                 | SxMime => (p_lit [93] ;;; pret (nums, Some TxMime)) r1
                 end
             end
         end
     | RBad => RBad
     | RCrash k => RCrash k
     end).

(* _p_fetch_att *)
Definition p_body_rest (peek : bool) : parser fetch_att :=
  sec <- p_section ;;
  (fun s => if peek_lit [60] s
            then (part <- p_partial ;; pret (FBody peek sec (Some part))) s
            else ROk (FBody peek sec None) s).
Definition fetch_dispatch (t : option ftok) : parser fetch_att :=
  match t with
  | None => pfail
  | Some (TkSimple o) => pret (FSimple o)
  | Some TkRfc822 => pret FRfc822
  | Some TkRfc822Header => pret FRfc822Header
  | Some TkRfc822Text => pret FRfc822Text
  | Some TkBody => fun s => if peek_lit [91] s then p_body_rest false s else ROk FBodyShort s
  | Some TkBodyPeek => p_body_rest true
  end.
Definition p_fetch_att : parser fetch_att :=
  tok <- p_many1 fetch_att_char ;; fetch_dispatch (lookup fetch_toks (lower_s tok)).

(* _p_fetch_atts: "(" list, or a macro (all|full|fast, a prefix match), or one attribute *)
Definition p_fetch_atts : parser (list fetch_att) :=
  fun s =>
    if peek_lit [40] s then p_paren_list_of p_fetch_att s
    else match try_lit (bs "all") s with
         | Some r => ROk macro_all r
         | None =>
             match try_lit (bs "full") s with
             | Some r => ROk macro_full r
             | None =>
                 match try_lit (bs "fast") s with
                 | Some r => ROk macro_fast r
                 | None => pmap (fun a => [a]) p_fetch_att s
                 end
             end
         end.

(* ------------------------------------------------------------------ SEARCH *)
Definition MAX_SEARCH_KEY_DEPTH : nat := 32.

Inductive stok :=
| SkAll | SkFlag (f : string) | SkUnflag (f : string) | SkHdr (h : string) | SkDate (w : sdate)
| SkBody | SkText | SkHeader | SkKeyword | SkUnkeyword | SkLarger | SkSmaller
| SkNew | SkOld | SkNot | SkOr | SkUid.
(* the _p_srchkey_* methods *)
Definition search_toks : list (list Z * stok) :=
  [(bs "all", SkAll);
   (bs "answered", SkFlag "\Answered"); (bs "deleted", SkFlag "\Deleted"); (bs "draft", SkFlag "\Draft");
   (bs "flagged", SkFlag "\Flagged"); (bs "recent", SkFlag "\Recent"); (bs "seen", SkFlag "\Seen");
   (bs "unanswered", SkUnflag "\Answered"); (bs "undeleted", SkUnflag "\Deleted");
   (bs "undraft", SkUnflag "\Draft"); (bs "unflagged", SkUnflag "\Flagged"); (bs "unseen", SkUnflag "\Seen");
   (bs "bcc", SkHdr "bcc"); (bs "cc", SkHdr "cc"); (bs "from", SkHdr "from"); (bs "subject", SkHdr "subject");
   (bs "to", SkHdr "to");
   (bs "before", SkDate DBefore); (bs "on", SkDate DOn); (bs "since", SkDate DSince);
   (bs "sentbefore", SkDate DSentBefore); (bs "senton", SkDate DSentOn); (bs "sentsince", SkDate DSentSince);
   (bs "body", SkBody); (bs "text", SkText); (bs "header", SkHeader); (bs "keyword", SkKeyword);
   (bs "unkeyword", SkUnkeyword); (bs "larger", SkLarger); (bs "smaller", SkSmaller);
   (bs "new", SkNew); (bs "old", SkOld); (bs "not", SkNot); (bs "or", SkOr); (bs "uid", SkUid)]%string.

Definition p_lower_astring : parser (list Z) := pmap lower_s p_astring.

(* what follows the search key atom *)
Definition search_dispatch (nested : parser skey) (t : option stok) : parser skey :=
  match t with
  | None => pfail
  | Some SkAll => pret KAll
  | Some (SkFlag f) => pret (KKeyword (bs f))
  | Some (SkUnflag f) => pret (KNot (KKeyword (bs f)))
  | Some (SkHdr h) => p_sp ;;; v <- p_lower_astring ;; pret (KHeader (bs h) v)
  | Some (SkDate w) => p_sp ;;; dt <- p_date ;; pret (KDate w dt)
  | Some SkBody => p_sp ;;; v <- p_lower_astring ;; pret (KBody v)
  | Some SkText => p_sp ;;; v <- p_lower_astring ;; pret (KText v)
  | Some SkHeader => p_sp ;;; h <- p_lower_astring ;; p_sp ;;; v <- p_lower_astring ;; pret (KHeader h v)
  | Some SkKeyword => p_sp ;;; f <- p_atom ;; pret (KKeyword f)
  | Some SkUnkeyword => p_sp ;;; f <- p_atom ;; pret (KNot (KKeyword f))
  | Some SkLarger => p_sp ;;; n <- p_number ;; pret (KLarger n)
  | Some SkSmaller => p_sp ;;; n <- p_number ;; pret (KSmaller n)
  | Some SkNew => pret (KAnd [KKeyword (bs "\Recent"); KNot (KKeyword (bs "\Seen"))])
  | Some SkOld => pret (KNot (KKeyword (bs "\Recent")))
  | Some SkNot => p_sp ;;; k <- nested ;; pret (KNot k)
  | Some SkOr => p_sp ;;; a <- nested ;; p_sp ;;; b <- nested ;; pret (KOr a b)
  | Some SkUid => p_sp ;;; l <- p_msg_set ;; pret (KUid l)
  end.

(* _p_search_key; `nested` parses a key one level further down (_p_nested_search_key) *)
Definition search_key_body (nested : parser skey) : parser skey :=
  fun s =>
    if peek_lit [40] s then
      match p_paren_list_of nested s with
      | ROk [k] r => ROk k r
      | ROk l r => ROk (KAnd l) r
      | RBad => RBad
      | RCrash k => RCrash k
      end
    else
      match try_many1 search_char s with
      | Some (tok, r) => search_dispatch nested (lookup search_toks (lower_s tok)) r
      | None => pmap KMsgSet p_msg_set s
      end.

(* with `d` levels of nesting still allowed *)
Fixpoint p_search_key (d : nat) : parser skey :=
  search_key_body (match d with O => pfail | S d' => p_search_key d' end).

(* ------------------------------------------------------------------ LIST *)
Inductive seltok := SelSubscribed | SelRemote | SelRecursive | SelSpecial.
Definition sel_toks : list (list Z * seltok) :=
  [(bs "subscribed", SelSubscribed); (bs "remote", SelRemote); (bs "recursivematch", SelRecursive);
   (bs "special-use", SelSpecial)].
Definition sel_add (o : sel_opts) (t : seltok) : sel_opts :=
  match t with
  | SelSubscribed => mkSel true (so_remote o) (so_recursive o) (so_special o)
  | SelRemote => mkSel (so_subscribed o) true (so_recursive o) (so_special o)
  | SelRecursive => mkSel (so_subscribed o) (so_remote o) true (so_special o)
  | SelSpecial => mkSel (so_subscribed o) (so_remote o) (so_recursive o) true
  end.
Definition sel_none : sel_opts := mkSel false false false false.

(* one selection option *)
Definition p_sel_item : parser seltok :=
  a <- p_atom ;; match lookup sel_toks (lower_s a) with Some t => pret t | None => pfail end.
(* _p_list_select_options: "(" [option *(SP option)] ")" is the loop of _p_paren_list_of; the options are
   added to a set; RECURSIVEMATCH needs an option that filters (SUBSCRIBED or SPECIAL-USE) *)
Definition p_select_options : parser sel_opts :=
  l <- p_paren_list_of p_sel_item ;;
  let o := fold_left sel_add l sel_none in
  if so_recursive o && negb (so_subscribed o || so_special o) then pfail else pret o.

Inductive rettok := RetSubscribed | RetChildren | RetSpecial.
Definition ret_toks : list (list Z * rettok) :=
  [(bs "subscribed", RetSubscribed); (bs "children", RetChildren); (bs "special-use", RetSpecial)].
Definition ret_add (o : ret_opts) (t : rettok) : ret_opts :=
  match t with
  | RetSubscribed => mkRet true (ro_children o) (ro_status o) (ro_special o)
  | RetChildren => mkRet (ro_subscribed o) true (ro_status o) (ro_special o)
  | RetSpecial => mkRet (ro_subscribed o) (ro_children o) (ro_status o) true
  end.
Definition ret_none : ret_opts := mkRet false false false false.

(* one return option; STATUS is followed by a non-empty list of status attributes *)
Inductive retitem := RtOpt (t : rettok) | RtStatus (st : list status_att).
Definition p_ret_item : parser retitem :=
  a <- p_atom ;;
  if beq (lower_s a) (bs "status")
  then p_sp ;;; st <- p_paren_list_of p_status_att ;;
       match st with [] => pfail | _ => pret (RtStatus st) end
  else match lookup ret_toks (lower_s a) with Some t => pret (RtOpt t) | None => pfail end.
Definition ret_apply (acc : ret_opts * list status_att) (i : retitem) : ret_opts * list status_att :=
  match i with
  | RtOpt t => (ret_add (fst acc) t, snd acc)
  | RtStatus st => (mkRet (ro_subscribed (fst acc)) (ro_children (fst acc)) true (ro_special (fst acc)), st)
  end.
(* _p_list_return_options *)
Definition p_return_options : parser (ret_opts * list status_att) :=
  l <- p_paren_list_of p_ret_item ;; pret (fold_left ret_apply l (ret_none, [])).

(* the pieces of _p_list_extended *)
Definition p_list_sel : parser sel_opts :=
  fun s => if peek_lit [40] s then (o <- p_select_options ;; p_sp ;;; pret o) s else ROk sel_none s.
Definition p_list_pats : parser (list Z * list (list Z)) :=
  fun s => if peek_lit [40] s
           then pmap (fun l => ([], l)) (p_paren_list_of p_list_mailbox_pattern) s
           else pmap (fun p => (p, [])) p_list_mailbox s.
Definition p_list_ret : parser (ret_opts * list status_att) :=
  fun s => match try_lit sp s with
           | Some r => (p_lit (bs "return") ;;; p_sp ;;; p_return_options) r
           | None => ROk (ret_none, []) s
           end.
(* _p_list_extended *)
Definition p_list (lsub : bool) : parser cmd :=
  p_sp ;;;
  sel <- p_list_sel ;;
  ref <- p_mailbox ;;
  p_sp ;;;
  pp <- p_list_pats ;;
  rr <- p_list_ret ;;
  pret (CList lsub sel ref (fst pp) (snd pp) (fst rr) (snd rr)).

(* ------------------------------------------------------------------ ID *)
(* d[k] = v on a dict kept as an association list in insertion order *)
Fixpoint dict_put {V} (d : list (list Z * V)) (k : list Z) (v : V) : list (list Z * V) :=
  match d with
  | [] => [(k, v)]
  | (k', v') :: d' => if beq k k' then (k', v) :: d' else (k', v') :: dict_put d' k v
  end.
(* _p_string_nstring_pairs *)
Definition p_id_pair : parser (list Z * option (list Z)) :=
  k <- p_string ;; p_sp ;;;
  (fun s => match try_lit (bs "nil") s with
            | Some r => ROk (k, None) r
            | None => pmap (fun v => (k, Some v)) p_string s
            end).
(* _p_id *)
Definition p_id_params : parser cmd :=
  fun s => match try_lit (bs "nil") s with
           | Some r => ROk (CId []) r
           | None =>
               if peek_lit [40] s
               then pmap (fun l => CId (fold_left (fun d kv => dict_put d (fst kv) (snd kv)) l []))
                         (p_paren_list_of p_id_pair) s
               else RBad
           end.
Definition p_id : parser cmd := p_sp ;;; p_id_params.

(* ------------------------------------------------------------------ APPEND, STORE *)
(* the pieces of _p_append *)
Definition p_append_flags : parser (list (list Z)) :=
  fun s => if peek_lit [40] s then (l <- p_paren_list_of p_flag ;; p_sp ;;; pret l) s else ROk [] s.
Definition p_append_date : parser (option date_time) :=
  fun s => if peek_lit [34] s then (t <- p_date_time ;; p_sp ;;; pret (Some t)) s else ROk None s.
(* _p_append *)
Definition p_append : parser cmd :=
  p_sp ;;; mbox <- p_mailbox ;; p_sp ;;;
  flags <- p_append_flags ;;
  dt <- p_append_date ;;
  msg <- p_string ;;
  pret (CAppend mbox flags dt msg).

(* the pieces of _p_store *)
Definition p_store_action : parser store_action :=
  fun s => match s with
           | c :: r => if c =? 45 then ROk SRemove r else if c =? 43 then ROk SAdd r else ROk SReplace s
           | [] => ROk SReplace s
           end.
Definition p_store_silent : parser bool :=
  fun s => match try_lit (bs ".silent") s with Some r => ROk true r | None => ROk false s end.
Definition p_store_flags : parser (list (list Z)) :=
  fun s => if peek_lit [40] s then p_paren_list_of p_flag s else p_list_of p_flag s.
(* _p_store *)
Definition p_store (uid : bool) : parser cmd :=
  p_sp ;;; set <- p_msg_set ;; p_sp ;;;
  act <- p_store_action ;;
  p_lit (bs "flags") ;;;
  silent <- p_store_silent ;;
  p_sp ;;;
  flags <- p_store_flags ;;
  pret (CStore uid set act silent flags).

(* _p_search *)
Definition p_search_charset : parser (list Z) :=
  fun s => match try_lit (bs "charset") s with
           | Some r => (p_sp ;;; c <- p_lower_astring ;; p_sp ;;; pret c) r
           | None => ROk (bs "us-ascii") s
           end.
Definition p_search (uid : bool) : parser cmd :=
  p_sp ;;;
  charset <- p_search_charset ;;
  keys <- p_list_of (p_search_key MAX_SEARCH_KEY_DEPTH) ;;
  pret (CSearch uid charset keys).

(* ------------------------------------------------------------------ commands *)
Inductive ctok :=
| TNoArg (c : noarg) | TExpunge | TAuthenticate | TLogin | TMbox (c : mboxcmd) | TRename | TList | TLsub
| TStatus | TId | TAppend | TSearch | TFetch | TStore | TCopy | TMove | TUid.
(* IMAPCommand *)
Definition cmd_toks : list (list Z * ctok) :=
  [(bs "capability", TNoArg NCapability); (bs "noop", TNoArg NNoop); (bs "namespace", TNoArg NNamespace);
   (bs "idle", TNoArg NIdle); (bs "logout", TNoArg NLogout); (bs "check", TNoArg NCheck);
   (bs "close", TNoArg NClose); (bs "unselect", TNoArg NUnselect);
   (bs "expunge", TExpunge); (bs "authenticate", TAuthenticate); (bs "login", TLogin);
   (bs "select", TMbox MSelect); (bs "examine", TMbox MExamine); (bs "create", TMbox MCreate);
   (bs "delete", TMbox MDelete); (bs "subscribe", TMbox MSubscribe); (bs "unsubscribe", TMbox MUnsubscribe);
   (bs "rename", TRename); (bs "list", TList); (bs "lsub", TLsub); (bs "status", TStatus); (bs "id", TId);
   (bs "append", TAppend); (bs "search", TSearch); (bs "fetch", TFetch); (bs "store", TStore);
   (bs "copy", TCopy); (bs "move", TMove); (bs "uid", TUid)].

(* uid_commands = ("copy", "fetch", "move", "search", "store", "expunge") *)
Definition is_uid_command (t : ctok) : bool :=
  match t with TCopy | TFetch | TMove | TSearch | TStore | TExpunge => true | _ => false end.

(* _parse_command for everything but UID *)
Definition p_command_body (uid : bool) (t : ctok) : parser cmd :=
  match t with
  | TNoArg c => pret (CNoArg c)
  | TExpunge => if uid then (p_sp ;;; set <- p_msg_set ;; pret (CUidExpunge set)) else pret CExpunge
  | TAuthenticate => p_sp ;;; m <- p_atom ;; pret (CAuthenticate m)
  | TLogin => p_sp ;;; u <- p_astring ;; p_sp ;;; p <- p_astring ;; pret (CLogin u p)
  | TMbox c => p_sp ;;; m <- p_mailbox ;; pret (CMbox c m)
  | TRename => p_sp ;;; a <- p_mailbox ;; p_sp ;;; b <- p_mailbox ;; pret (CRename a b)
  | TList => p_list false
  | TLsub => p_list true
  | TStatus => p_sp ;;; m <- p_mailbox ;; p_sp ;;; atts <- p_paren_list_of p_status_att ;; pret (CStatus m atts)
  | TId => p_id
  | TAppend => p_append
  | TSearch => p_search uid
  | TFetch => p_sp ;;; set <- p_msg_set ;; p_sp ;;; atts <- p_fetch_atts ;; pret (CFetch uid set atts)
  | TStore => p_store uid
  | TCopy => p_sp ;;; set <- p_msg_set ;; p_sp ;;; m <- p_mailbox ;; pret (CCopy uid set m)
  | TMove => p_sp ;;; set <- p_msg_set ;; p_sp ;;; m <- p_mailbox ;; pret (CMove uid set m)
  | TUid => pfail   (* handled by p_command *)
  end.

(* _parse_command / _p_uid *)
Definition p_command (t : ctok) : parser cmd :=
  match t with
  | TUid =>
      p_sp ;;; c <- p_atom ;;
      match lookup cmd_toks (lower_s c) with
      | Some t' => if is_uid_command t' then p_command_body true t' else pfail
      | None => pfail
      end
  | _ => p_command_body false t
  end.

(* _parse: tag SP command ...; returns the AST and the text the parser did not look at *)
Definition parse_core : parser ast :=
  tag <- p_many1 tag_char ;;
  p_sp ;;;
  c <- p_atom ;;
  match lookup cmd_toks (lower_s c) with
  | None => pfail
  | Some t => body <- p_command t ;; pret (mkAst tag body)
  end.

(* ------------------------------------------------------------------ top level *)
Inductive presult := POk (a : ast) | PBad | PCrash.

(* IMAPClientCommand(text).parse(): BadCommand, or the object — whatever is left of the input is
   ignored (known finding C08-trailing-text); ValueError is reported as BadSyntax *)
Definition parse (s : list Z) : presult :=
  match parse_core s with
  | ROk a _ => POk a
  | RBad => PBad
  | RCrash CValue => PBad
  | RCrash _ => PCrash
  end.

(* what the parser left unread *)
Definition parse_rest (s : list Z) : list Z :=
  match parse_core s with ROk _ r => r | _ => [] end.

(* the end of a command: nothing, or the CRLF the framing layer normally removes *)
Definition at_end (r : list Z) : bool := beq r [] || beq r [13; 10].

(* specification helper, NOT the code: the parser with an end-of-input check *)
Definition parse_strict (s : list Z) : presult :=
  match parse_core s with
  | ROk a r => if at_end r then POk a else PBad
  | RBad => PBad
  | RCrash CValue => PBad
  | RCrash _ => PCrash
  end.
