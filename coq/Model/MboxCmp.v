(* Model/MboxCmp.v — comparison of the model's output with what the implementation sent
   (used by the correspondence check only).  Ghost fields are ignored, flag lists are
   compared as sets, and runs of adjacent plain FLAGS notifications are ordered by
   sequence number on both sides (the implementation iterates over a Python set there). *)
From Asimap Require Import Base.Res Spec.SetSem Model.Mbox.
Open Scope Z_scope.

Definition sset_eqb (a b : list string) : bool := forallb (fun x => smem x b) a && forallb (fun x => smem x a) b.
Fixpoint zl_eqb (a b : list Z) : bool :=
  match a, b with [], [] => true | x :: a', y :: b' => (x =? y) && zl_eqb a' b' | _, _ => false end.
Definition oz_eqb (a b : option Z) : bool :=
  match a, b with None, None => true | Some x, Some y => x =? y | _, _ => false end.
Definition code_eqb (a b : rcode) : bool :=
  match a, b with
  | CNone, CNone | CReadWrite, CReadWrite | CReadOnly, CReadOnly => true
  | CAppendUid v u, CAppendUid v' u' => (v =? v') && (u =? u')
  | CCopyUid v s d, CCopyUid v' s' d' => (v =? v') && zl_eqb s s' && zl_eqb d d'
  | _, _ => false
  end.
Definition resp_eqb (a b : resp) : bool :=
  match a, b with
  | RExists n _, RExists m _ => n =? m
  | RRecent n, RRecent m => n =? m
  | RExpunge n, RExpunge m => n =? m
  | RFetch n f u _, RFetch m f' u' _ => (n =? m) && sset_eqb f f' && oz_eqb u u'
  | RBody n u c d _, RBody m u' c' d' _ => (n =? m) && oz_eqb u u' && (c =? c') && (d =? d')
  | RSearch l, RSearch l' => zl_eqb l l'
  | RSelInfo a1 v1 n1 k1, RSelInfo a2 v2 n2 k2 => oz_eqb a1 a2 && (v1 =? v2) && (n1 =? n2) && sset_eqb k1 k2
  | RMoveOk c, RMoveOk c' => code_eqb c c'
  | RIdling, RIdling => true
  | ROk c, ROk c' => code_eqb c c'
  | RNo, RNo => true
  | RBad, RBad => true
  | _, _ => false
  end.
Fixpoint resps_eqb (a b : list resp) : bool :=
  match a, b with [], [] => true | x :: a', y :: b' => resp_eqb x y && resps_eqb a' b' | _, _ => false end.

Definition plain_note (r : resp) : option Z := match r with RFetch n _ None _ => Some n | _ => None end.
Fixpoint ins_note (r : resp) (n : Z) (run : list resp) : list resp :=
  match run with
  | [] => [r]
  | x :: run' => match plain_note x with
                 | Some m => if n <? m then r :: run else x :: ins_note r n run'
                 | None => r :: run
                 end
  end.
(* [run] is the current (sorted) run of plain notes, kept separately; ins_note is stable *)
Fixpoint canon_aux (l : list resp) (run : list resp) : list resp :=
  match l with
  | [] => run
  | r :: l' => match plain_note r with
               | Some n => canon_aux l' (ins_note r n run)
               | None => run ++ r :: canon_aux l' []
               end
  end.
Definition canon (l : list resp) : list resp := canon_aux l [].

Definition out_of (s : Z) (o : out) : list resp := map snd (filter (fun p => fst p =? s) o).
Definition out_eqb (model obs : out) : bool :=
  forallb (fun s => resps_eqb (canon (out_of s model)) (canon (out_of s obs))) (map fst model ++ map fst obs).

Fixpoint first_diff (w : world) (ops : list op) (obs : list out) (i : Z) : Z * world :=
  match ops, obs with
  | o :: ops', ob :: obs' =>
      let '(w', mo) := step w o in
      if out_eqb mo ob then first_diff w' ops' obs' (i + 1) else (i, w)
  | _, _ => (-1, w)
  end.

Definition canon_out (o : out) : list (Z * list resp) :=
  map (fun s => (s, canon (out_of s o))) (nodup Z.eq_dec (map fst o)).
