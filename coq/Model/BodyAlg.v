(* Model/BodyAlg.v — the algebra of the message data items (C16), definitions only.

   What is modelled (asimap/fetch.py FetchAtt.body, asimap/generator.py _msg_as_bytes,
   get_msg_size, asimap/parse.py RFC822* desugaring):

     msg_as_bytes(m)                       = ensure_crlf (hdr m ++ body m)
     msg_headers_as_bytes(m)               = hdr m
     msg_as_bytes(m, render_headers=False) = ensure_crlf (body m)
     FetchAtt.body  = literal (partial p (ensure_crlf (section bytes)))
     get_msg_size   = len (msg_as_bytes m)

   `hdr m` / `body m` are what Python's email generator writes for the header block
   (every header line plus the blank line) and for the rest of the message.  They are
   Section variables: the generator is an oracle, its decomposition is measured on every
   run by harness/props/c16.py, not proved. *)
From Asimap Require Import Base.Res.
From Asimap Require Export Base.Bytes.   (* uint_bytes is shared with the generated code *)
From Coq Require Import Decimal DecimalN NArith.
Open Scope Z_scope.

Definition CRLF : list Z := [13; 10].

(* bytes.endswith(b"\r\n") *)
Fixpoint ends_crlf (l : list Z) : bool :=
  match l with
  | [] => false
  | a :: t =>
      match t with
      | [] => false
      | [b] => (a =? 13) && (b =? 10)
      | _ :: _ :: _ => ends_crlf t
      end
  end.

(* `text if text.endswith(b"\r\n") else text + b"\r\n"`  (generator._msg_as_bytes and
   FetchAtt.body both do this; note that the empty text becomes CRLF) *)
Definition ensure_crlf (l : list Z) : list Z :=
  if ends_crlf l then l else l ++ CRLF.

(* Python's l[o:] and l[:n] for non-negative o, n — by recursion on the list so that huge
   offsets cost nothing *)
Fixpoint zskip (o : Z) (l : list Z) : list Z :=
  match l with
  | [] => []
  | _ :: t => if o <=? 0 then l else zskip (o - 1) t
  end.

Fixpoint ztake (n : Z) (l : list Z) : list Z :=
  match l with
  | [] => []
  | x :: t => if n <=? 0 then [] else x :: ztake (n - 1) t
  end.

(* `end = partial[0] + partial[1]; text[partial[0]:end]` *)
Definition pyslice (a b : Z) (l : list Z) : list Z := ztake (b - a) (zskip a l).

Definition partial (p : option (Z * Z)) (l : list Z) : list Z :=
  match p with
  | None => l
  | Some (o, n) => pyslice o (o + n) l
  end.

(* str(n).encode() for n >= 0: uint_bytes is in Base/Bytes.v (shared with the generated code) *)
Definition dec (n : N) : list Z := uint_bytes (N.to_uint n).

Definition blen (l : list Z) : N := N.of_nat (List.length l).

(* f"{{{len(text)}}}\r\n".encode() + text *)
Definition literal (l : list Z) : list Z := 123 :: dec (blen l) ++ 125 :: 13 :: 10 :: l.

Inductive sect := SFull | SHeader | SText.

(* the data items of RFC 3501 that name (part of) the message text *)
Inductive item :=
| IBody (s : sect) (p : option (Z * Z))    (* BODY[...]<o.n> / BODY.PEEK[...]<o.n> *)
| IRfc822 | IRfc822Header | IRfc822Text    (* parse.py turns these into BODY[...] *)
| IRfc822Size.

Definition desugar (i : item) : option (sect * option (Z * Z)) :=
  match i with
  | IBody s p => Some (s, p)
  | IRfc822 => Some (SFull, None)
  | IRfc822Header => Some (SHeader, None)
  | IRfc822Text => Some (SText, None)
  | IRfc822Size => None
  end.

Section Rendering.
  Variable msg : Type.
  Variables hdr body : msg -> list Z.

  (* FetchAtt._body for the three top-level sections *)
  Definition section_bytes (s : sect) (m : msg) : list Z :=
    match s with
    | SFull => ensure_crlf (hdr m ++ body m)
    | SHeader => hdr m
    | SText => ensure_crlf (body m)
    end.

  (* the octets a BODY[s]<p> item carries *)
  Definition body_data (s : sect) (p : option (Z * Z)) (m : msg) : list Z :=
    partial p (ensure_crlf (section_bytes s m)).

  (* FetchAtt.body: what follows the item name in the FETCH response *)
  Definition fetch_body (s : sect) (p : option (Z * Z)) (m : msg) : list Z :=
    literal (body_data s p m).

  (* get_msg_size / SearchContext.msg_size *)
  Definition msg_size (m : msg) : N := blen (ensure_crlf (hdr m ++ body m)).

  Definition fetch_item (i : item) (m : msg) : list Z :=
    match desugar i with
    | Some (s, p) => fetch_body s p m
    | None => dec (msg_size m)
    end.
End Rendering.
