(* Model/Lex.v — scanners of asimap/parse.py: one Gallina scanner per regular expression /
   per _p_simple_string use, the parser monad, and the Python primitives the parser relies on
   (str.lower on latin-1, int() with its 4300-digit limit, os.path.normpath, datetime.date,
   email.utils.parsedate_to_datetime on the language of _date_time_re).
   Definitions only; proofs are in Proofs/LexP.v.

   Input: a command as list Z, one element per octet (the server decodes with latin-1, so a str
   character is an octet). *)
From Asimap Require Import Base.Res Base.Bytes.
From Coq Require Import Ascii.
Open Scope Z_scope.

(* ------------------------------------------------------------------ results *)
(* non-BadCommand exceptions the Python can raise:
   CValue  = ValueError (datetime.date, parsedate_to_datetime, int() beyond 4300 digits);
             IMAPClientCommand.parse turns it into BadSyntax (fix C08-valueerror)
   CAssert = AssertionError (`assert r` after a successful \d+ match etc.)
   CFuel   = the model ran out of fuel (no Python counterpart; proved unreachable) *)
Inductive crash := CValue | CAssert | CFuel.

Inductive pres (A : Type) :=
| ROk (a : A) (rest : list Z)
| RBad
| RCrash (k : crash).
Arguments ROk {A} a rest.
Arguments RBad {A}.
Arguments RCrash {A} k.

Definition parser (A : Type) := list Z -> pres A.

Definition pret {A} (a : A) : parser A := fun s => ROk a s.
Definition pfail {A} : parser A := fun _ => RBad.
Definition pcrash {A} (k : crash) : parser A := fun _ => RCrash k.
Definition pbind {A B} (p : parser A) (f : A -> parser B) : parser B :=
  fun s => match p s with ROk a r => f a r | RBad => RBad | RCrash k => RCrash k end.
Definition pmap {A B} (f : A -> B) (p : parser A) : parser B := pbind p (fun a => pret (f a)).

Declare Scope parser_scope.
Delimit Scope parser_scope with parser.
Notation "x <- p ;; q" := (pbind p (fun x => q)) (at level 61, p at next level, right associativity) : parser_scope.
Notation "p ;;; q" := (pbind p (fun _ => q)) (at level 61, right associativity) : parser_scope.
Open Scope parser_scope.

(* ------------------------------------------------------------------ bytes from string literals *)
Fixpoint bs (s : string) : list Z :=
  match s with
  | EmptyString => []
  | String a s' => Z.of_nat (nat_of_ascii a) :: bs s'
  end.

Fixpoint beq (a b : list Z) : bool :=
  match a, b with
  | [], [] => true
  | x :: a', y :: b' => (x =? y) && beq a' b'
  | _, _ => false
  end.

(* ------------------------------------------------------------------ character classes *)
Definition in_range (lo hi c : Z) : bool := (lo <=? c) && (c <=? hi).
Definition is_digit (c : Z) : bool := in_range 48 57 c.
Definition is_upper (c : Z) : bool := in_range 65 90 c.
Definition is_lower (c : Z) : bool := in_range 97 122 c.
Definition is_alpha (c : Z) : bool := is_upper c || is_lower c.

(* str.lower() of one latin-1 character (Unicode simple lower-casing restricted to U+0000..U+00FF) *)
Definition py_lower (c : Z) : Z :=
  if is_upper c then c + 32
  else if in_range 192 222 c && negb (c =? 215) then c + 32
  else c.
Definition lower_s (s : list Z) : list Z := map py_lower s.

(* _atom: any character except ( ) { } SP CTL DEL % * DQUOTE backslash, one or more *)
Definition atom_char (c : Z) : bool :=
  negb ((c =? 40) || (c =? 41) || (c =? 123) || (c =? 125) || (c =? 32) || in_range 0 31 c
        || (c =? 127) || (c =? 37) || (c =? 42) || (c =? 34) || (c =? 92)).
(* _tag:  as _atom, and no '+' *)
Definition tag_char (c : Z) : bool := atom_char c && negb (c =? 43).
(* _list_atom: as _atom but % and * are allowed *)
Definition list_char (c : Z) : bool :=
  negb ((c =? 40) || (c =? 41) || (c =? 123) || (c =? 125) || (c =? 32) || in_range 0 31 c
        || (c =? 127) || (c =? 34) || (c =? 92)).
(* _msg_set: digits, comma, colon and star, one or more *)
Definition msgset_char (c : Z) : bool := is_digit c || (c =? 44) || (c =? 58) || (c =? 42).
(* _fetch_att_atom:  [a-zA-Z82\.]+ *)
Definition fetch_att_char (c : Z) : bool := is_alpha c || (c =? 56) || (c =? 50) || (c =? 46).
(* _search_atom:  [a-zA-Z]+ *)
Definition search_char (c : Z) : bool := is_alpha c.

(* ------------------------------------------------------------------ regexp X+ at the start of the input *)
Fixpoint span (p : Z -> bool) (s : list Z) : list Z * list Z :=
  match s with
  | [] => ([], [])
  | c :: s' => if p c then let (a, r) := span p s' in (c :: a, r) else ([], s)
  end.

(* _p_re(X+): the longest non-empty prefix of class p; NoMatch otherwise *)
Definition p_many1 (p : Z -> bool) : parser (list Z) :=
  fun s => match span p s with
           | ([], _) => RBad
           | (a, r) => ROk a r
           end.

(* _p_re(X+, silent=True): None instead of NoMatch *)
Definition try_many1 (p : Z -> bool) (s : list Z) : option (list Z * list Z) :=
  match span p s with
  | ([], _) => None
  | (a, r) => Some (a, r)
  end.

(* ------------------------------------------------------------------ _p_simple_string *)
(* case-insensitive comparison of the first len(kw) characters with kw *)
Fixpoint match_ci (kw s : list Z) : option (list Z) :=
  match kw with
  | [] => Some s
  | k :: kw' => match s with
                | c :: s' => if py_lower c =? py_lower k then match_ci kw' s' else None
                | [] => None
                end
  end.

(* _p_simple_string(kw): swallow or NoMatch *)
Definition p_lit (kw : list Z) : parser unit :=
  fun s => match match_ci kw s with Some r => ROk tt r | None => RBad end.
(* _p_simple_string(kw, silent=True, swallow=False): a look-ahead *)
Definition peek_lit (kw : list Z) (s : list Z) : bool :=
  match match_ci kw s with Some _ => true | None => false end.
(* _p_simple_string(kw, silent=True): swallow if it is there *)
Definition try_lit (kw : list Z) (s : list Z) : option (list Z) := match_ci kw s.

Definition sp : list Z := [32].
Definition p_sp : parser unit := p_lit sp.

(* ------------------------------------------------------------------ int() *)
Definition digit_val (c : Z) : Z := c - 48.
Definition digits_val (ds : list Z) : Z := fold_left (fun a d => a * 10 + digit_val d) ds 0.
Definition MAX_STR_DIGITS : Z := 4300.   (* sys.get_int_max_str_digits() *)
(* int(ds) for a non-empty string of ASCII digits: ValueError beyond 4300 characters *)
Definition int_ok (ds : list Z) : bool := Z.of_nat (List.length ds) <=? MAX_STR_DIGITS.
Definition p_int (ds : list Z) : parser Z :=
  fun s => if int_ok ds then ROk (digits_val ds) s else RCrash CValue.

(* _number = \d+ followed by int() *)
Definition p_number : parser Z := ds <- p_many1 is_digit ;; p_int ds.

(* ------------------------------------------------------------------ strings *)
(* _quoted = DQUOTE ( [^ CR LF backslash DQUOTE] | backslash [DQUOTE backslash] )* DQUOTE
   returns the DECODED content (fix C08-quoted-escapes) *)
Fixpoint scan_quoted_body (s : list Z) : option (list Z * list Z) :=
  match s with
  | [] => None
  | c :: r =>
      if c =? 34 then Some ([], r)
      else if c =? 92 then
             match r with
             | e :: r' => if (e =? 34) || (e =? 92)
                          then match scan_quoted_body r' with
                               | Some (b, r'') => Some (e :: b, r'')
                               | None => None
                               end
                          else None
             | [] => None
             end
      else if (c =? 13) || (c =? 10) then None
      else match scan_quoted_body r with
           | Some (b, r') => Some (c :: b, r')
           | None => None
           end
  end.
Definition scan_quoted (s : list Z) : option (list Z * list Z) :=
  match s with
  | c :: r => if c =? 34 then scan_quoted_body r else None
  | [] => None
  end.

(* _lit_ref = \{(\d+)\+?\}\015\012 : returns the digit string and the rest *)
Definition scan_lit_ref (s : list Z) : option (list Z * list Z) :=
  match s with
  | c :: r =>
      if c =? 123 then
        match span is_digit r with
        | ([], _) => None
        | (ds, r1) =>
            let r2 := match r1 with p :: r' => if p =? 43 then r' else r1 | [] => r1 end in
            match r2 with
            | c1 :: c2 :: c3 :: r3 => if (c1 =? 125) && (c2 =? 13) && (c3 =? 10) then Some (ds, r3) else None
            | _ => None
            end
        end
      else None
  | [] => None
  end.

(* _p_string: quoted string, else literal by octet count *)
Definition p_string : parser (list Z) :=
  fun s => match scan_quoted s with
           | Some (b, r) => ROk b r
           | None =>
               match scan_lit_ref s with
               | None => RBad
               | Some (ds, r) =>
                   match p_int ds r with
                   | ROk n r' => if Z.of_nat (List.length r') <? n then RBad
                                 else ROk (firstn (Z.to_nat n) r') (skipn (Z.to_nat n) r')
                   | RBad => RBad
                   | RCrash k => RCrash k
                   end
               end
           end.

(* _p_astring: atom, else string *)
Definition p_atom : parser (list Z) := p_many1 atom_char.
Definition p_astring : parser (list Z) :=
  fun s => match try_many1 atom_char s with
           | Some (a, r) => ROk a r
           | None => p_string s
           end.

(* ------------------------------------------------------------------ os.path.normpath (posix, str) *)
Fixpoint split_on (sep : Z) (s : list Z) : list (list Z) :=
  match s with
  | [] => [[]]
  | c :: s' => if c =? sep then [] :: split_on sep s'
               else match split_on sep s' with
                    | h :: t => (c :: h) :: t
                    | [] => [[c]]
                    end
  end.

Definition dotdot : list Z := [46; 46].
(* the loop over the components; new_comps is kept reversed *)
Definition norm_step (initial : bool) (acc : list (list Z)) (comp : list Z) : list (list Z) :=
  if beq comp [] || beq comp [46] then acc
  else if negb (beq comp dotdot) then comp :: acc
       else match acc with
            | [] => if initial then acc else comp :: acc
            | top :: acc' => if beq top dotdot then comp :: acc else acc'
            end.
Fixpoint join_slash (l : list (list Z)) : list Z :=
  match l with
  | [] => []
  | [x] => x
  | x :: rest => x ++ 47 :: join_slash rest
  end.
(* POSIX: exactly two leading slashes are kept, three or more count as one *)
Definition initial_slashes (path : list Z) : nat :=
  match path with
  | a :: t =>
      if a =? 47 then
        match t with
        | b :: t2 => if b =? 47 then match t2 with c :: _ => if c =? 47 then 1%nat else 2%nat | [] => 2%nat end
                     else 1%nat
        | [] => 1%nat
        end
      else 0%nat
  | [] => 0%nat
  end.
Definition normpath (path : list Z) : list Z :=
  match path with
  | [] => [46]
  | _ =>
      let slashes := initial_slashes path in
      let comps := rev (fold_left (norm_step (negb (Nat.eqb slashes 0))) (split_on 47 path) []) in
      let p := repeat 47 slashes ++ join_slash comps in
      match p with [] => [46] | _ => p end
  end.

Definition inbox : list Z := bs "inbox".

(* _p_mailbox after fix C08-exact-inbox: astring, normpath unless empty, then the WHOLE name is
   compared with inbox without regard to case *)
Definition mailbox_norm (x : list Z) : list Z :=
  let y := match x with [] => [] | _ => normpath x end in
  if beq (lower_s y) inbox then inbox else y.
Definition p_mailbox : parser (list Z) := pmap mailbox_norm p_astring.

(* _p_list_mailbox: list atom, else string *)
Definition p_list_mailbox : parser (list Z) :=
  fun s => match try_many1 list_char s with
           | Some (a, r) => ROk a r
           | None => p_string s
           end.
(* _p_list_mailbox_pattern *)
Definition pattern_norm (p : list Z) : list Z := if beq (lower_s p) inbox then inbox else p.
Definition p_list_mailbox_pattern : parser (list Z) := pmap pattern_norm p_list_mailbox.

(* _p_flag: optional backslash, then an atom; the backslash stays in the result *)
Definition p_flag : parser (list Z) :=
  fun s => match try_lit [92] s with
           | Some r => pmap (fun a => 92 :: a) p_atom r
           | None => p_atom s
           end.

(* ------------------------------------------------------------------ message sets *)
(* is_seq_num: a non-empty string of digits or a star *)
Definition seq_atom_ok (piece : list Z) : bool :=
  match piece with
  | [] => false
  | _ => forallb is_digit piece || beq piece [42]
  end.
(* the value; int() may raise ValueError *)
Definition seq_atom_val (piece : list Z) : pres sset_atom :=
  if beq piece [42] then ROk AStar []
  else if int_ok piece then ROk (ANum (digits_val piece)) [] else RCrash CValue.

(* one comma separated piece *)
Definition seq_elt (piece : list Z) : pres sset_elt :=
  if seq_atom_ok piece then
    match seq_atom_val piece with
    | ROk AStar _ => ROk EStar []
    | ROk (ANum n) _ => ROk (ENum n) []
    | RBad => RBad
    | RCrash k => RCrash k
    end
  else
    (* _msg_set_pair: seq-atom COLON seq-atom, anchored; the piece has no comma so split at the colon *)
    match split_on 58 piece with
    | [a; b] =>
        if seq_atom_ok a && seq_atom_ok b then
          match seq_atom_val a with
          | ROk x _ => match seq_atom_val b with
                       | ROk y _ => ROk (ERange x y) []
                       | RBad => RBad
                       | RCrash k => RCrash k
                       end
          | RBad => RBad
          | RCrash k => RCrash k
          end
        else RBad
    | _ => RBad
    end.

Fixpoint seq_elts (pieces : list (list Z)) : pres (list sset_elt) :=
  match pieces with
  | [] => ROk [] []
  | p :: ps => match seq_elt p with
               | ROk e _ => match seq_elts ps with
                            | ROk es _ => ROk (e :: es) []
                            | RBad => RBad
                            | RCrash k => RCrash k
                            end
               | RBad => RBad
               | RCrash k => RCrash k
               end
  end.

(* _p_msg_set *)
Definition p_msg_set : parser (list sset_elt) :=
  fun s => match span msgset_char s with
           | ([], _) => RBad
           | (txt, r) => match seq_elts (split_on 44 txt) with
                         | ROk l _ => ROk l r
                         | RBad => RBad
                         | RCrash k => RCrash k
                         end
           end.

(* ------------------------------------------------------------------ dates *)
Definition months : list (list Z) :=
  map bs ["jan"; "feb"; "mar"; "apr"; "may"; "jun"; "jul"; "aug"; "sep"; "oct"; "nov"; "dec"]%string.

(* (Jan)|(Feb)|... case-insensitively: month number and rest *)
Fixpoint scan_month_from (i : Z) (ms : list (list Z)) (s : list Z) : option (Z * list Z) :=
  match ms with
  | [] => None
  | m :: ms' => match match_ci m s with
                | Some r => Some (i, r)
                | None => scan_month_from (i + 1) ms' s
                end
  end.
Definition scan_month (s : list Z) : option (Z * list Z) := scan_month_from 1 months s.

Definition is_leap (y : Z) : bool := ((y mod 4 =? 0) && negb (y mod 100 =? 0)) || (y mod 400 =? 0).
Definition days_in_month (y m : Z) : Z :=
  if m =? 2 then (if is_leap y then 29 else 28)
  else if (m =? 4) || (m =? 6) || (m =? 9) || (m =? 11) then 30 else 31.
(* what datetime.date(y, m, d) accepts (m is always 1..12 here) *)
Definition date_ok (y m d : Z) : bool := (1 <=? y) && (y <=? 9999) && (1 <=? d) && (d <=? days_in_month y m).

Definition two (a b : Z) : Z := digit_val a * 10 + digit_val b.
Definition four (a b c d : Z) : Z := ((digit_val a * 10 + digit_val b) * 10 + digit_val c) * 10 + digit_val d.

(* the part  day "-" month "-" year  shared by both regexps; day_p says how the day is scanned *)
Definition scan_mon_year (s : list Z) : option (Z * Z * list Z) :=
  match s with
  | h :: s1 =>
      if h =? 45 then
        match scan_month s1 with
        | Some (m, s2) =>
            match s2 with
            | h2 :: a :: b :: c :: d :: s3 =>
                if (h2 =? 45) && is_digit a && is_digit b && is_digit c && is_digit d
                then Some (m, four a b c d, s3) else None
            | _ => None
            end
        | None => None
        end
      else None
  | [] => None
  end.

(* \d?\d followed by the rest of _date: two digits if the regexp can go on after them, else one *)
Definition scan_date_text (s : list Z) : option (Z * Z * Z * list Z) :=
  let one := match s with
             | a :: s1 => if is_digit a
                          then match scan_mon_year s1 with
                               | Some (m, y, r) => Some (digit_val a, m, y, r)
                               | None => None
                               end
                          else None
             | [] => None
             end in
  match s with
  | a :: b :: s2 =>
      if is_digit a && is_digit b
      then match scan_mon_year s2 with
           | Some (m, y, r) => Some (two a b, m, y, r)
           | None => one
           end
      else one
  | _ => one
  end.

(* _date = (DQUOTE)? day(\d?\d) - month - year(\d\d\d\d) (?(1)DQUOTE) ; result (d, m, y) *)
Definition scan_date (s : list Z) : option (Z * Z * Z * list Z) :=
  match s with
  | q :: s1 =>
      if q =? 34 then
        match scan_date_text s1 with
        | Some (d, m, y, q2 :: r) => if q2 =? 34 then Some (d, m, y, r) else None
        | _ => None
        end
      else scan_date_text s
  | [] => None
  end.

(* _p_date: datetime.date raises ValueError for an impossible date *)
Definition p_date : parser (Z * Z * Z) :=
  fun s => match scan_date s with
           | None => RBad
           | Some (d, m, y, r) => if date_ok y m d then ROk (y, m, d) r else RCrash CValue
           end.

(* _date_time = DQUOTE [ \d]\d-Mon-\d\d\d\d \d\d:\d\d:\d\d [-+]\d\d\d\d DQUOTE
   result: day, month, year, hour, minute, second, sign (true = '-'), tz hours, tz minutes *)
Definition scan_date_time (s : list Z) : option (Z * Z * Z * Z * Z * Z * bool * Z * Z * list Z) :=
  match s with
  | q :: d1 :: d2 :: s1 =>
      if (q =? 34) && ((d1 =? 32) || is_digit d1) && is_digit d2 then
        match scan_mon_year s1 with
        | Some (m, y, s2) =>
            match s2 with
            | sp1 :: h1 :: h2 :: c1 :: m1 :: m2 :: c2 :: x1 :: x2 :: sp2 :: sg :: z1 :: z2 :: z3 :: z4 :: q2 :: r =>
                if (sp1 =? 32) && is_digit h1 && is_digit h2 && (c1 =? 58) && is_digit m1 && is_digit m2
                   && (c2 =? 58) && is_digit x1 && is_digit x2 && (sp2 =? 32) && ((sg =? 45) || (sg =? 43))
                   && is_digit z1 && is_digit z2 && is_digit z3 && is_digit z4 && (q2 =? 34)
                then Some ((if d1 =? 32 then digit_val d2 else two d1 d2), m, y,
                           two h1 h2, two m1 m2, two x1 x2, (sg =? 45), two z1 z2, two z3 z4, r)
                else None
            | _ => None
            end
        | None => None
        end
      else None
  | _ => None
  end.

(* email.utils.parsedate_to_datetime on that language (utils.parsedate): a year below 100 is taken
   as a two-digit year; the offset must be strictly inside one day; -0000 is UTC.
   Result (y, m, d, h, mi, s, offset in seconds). *)
Definition fix_year (y : Z) : Z := if y <? 100 then (if 68 <? y then y + 1900 else y + 2000) else y.
Definition p_date_time : parser (Z * Z * Z * Z * Z * Z * Z) :=
  fun s => match scan_date_time s with
           | None => RBad
           | Some (d, m, y, h, mi, sec, neg, zh, zm, r) =>
               let y' := fix_year y in
               let off := zh * 3600 + zm * 60 in
               if date_ok y' m d && (h <=? 23) && (mi <=? 59) && (sec <=? 59) && (off <? 86400)
               then ROk (y', m, d, h, mi, sec, if neg then - off else off) r
               else RCrash CValue
           end.

(* ------------------------------------------------------------------ lists *)
(* _p_paren_list_of(func): ( [func *(SP func)] )  — fuel bounds the number of elements *)
Fixpoint paren_list_loop {A} (elem : parser A) (fuel : nat) (s : list Z) : pres (list A) :=
  match fuel with
  | O => RCrash CFuel
  | S f =>
      match elem s with
      | ROk a r =>
          match try_lit [41] r with
          | Some r' => ROk [a] r'
          | None =>
              match p_sp r with
              | ROk _ r' => match paren_list_loop elem f r' with
                            | ROk l r'' => ROk (a :: l) r''
                            | RBad => RBad
                            | RCrash k => RCrash k
                            end
              | RBad => RBad
              | RCrash k => RCrash k
              end
          end
      | RBad => RBad
      | RCrash k => RCrash k
      end
  end.
Definition p_paren_list_of {A} (elem : parser A) : parser (list A) :=
  fun s => match p_lit [40] s with
           | ROk _ r => match try_lit [41] r with
                        | Some r' => ROk [] r'
                        | None => paren_list_loop elem (S (List.length r)) r
                        end
           | RBad => RBad
           | RCrash k => RCrash k
           end.

(* _p_list_of(func): func *(SP func), at least one *)
Fixpoint list_loop {A} (elem : parser A) (fuel : nat) (s : list Z) : pres (list A) :=
  match fuel with
  | O => RCrash CFuel
  | S f =>
      match elem s with
      | ROk a r =>
          match try_lit sp r with
          | None => ROk [a] r
          | Some r' => match list_loop elem f r' with
                       | ROk l r'' => ROk (a :: l) r''
                       | RBad => RBad
                       | RCrash k => RCrash k
                       end
          end
      | RBad => RBad
      | RCrash k => RCrash k
      end
  end.
Definition p_list_of {A} (elem : parser A) : parser (list A) :=
  fun s => list_loop elem (S (List.length s)) s.
