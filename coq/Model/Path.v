(* Model/Path.v — C09: how a mailbox name becomes a file-system path.

   Mirrors (after the fix fixes/C09-confine-mailbox-names.patch):
     posixpath.normpath, posixpath.join, posixpath.dirname          (Python 3.13)
     asimap/mbox.py     canonical_mbox_name           (the validator)
     asimap/user_server IMAPUserServer.get_mailbox    (calls the validator, then MH.get_folder)
     asimap/mh.py       MH.get_folder / add_folder    (os.path.join(self._path, name))
     asimap/mbox.py     Mailbox.create (prefix chain, server.maildir / prefix),
                        Mailbox.delete, Mailbox.rename, Mailbox._mbox_pattern_to_re
   A Python str is a list of code points (Z).  Definitions only; proofs are in Proofs/PathP.v. *)
From Asimap Require Import Base.Res.
Open Scope Z_scope.

Notation str := (list Z) (only parsing).

Definition SLASH : Z := 47.
Definition DOT : Z := 46.
Definition s_dot : str := [DOT].
Definition s_dotdot : str := [DOT; DOT].
Definition s_inbox : str := [105; 110; 98; 111; 120].

Fixpoint str_eqb (a b : str) : bool :=
  match a, b with
  | [], [] => true
  | x :: a', y :: b' => (x =? y) && str_eqb a' b'
  | _, _ => false
  end.

(* s.startswith(p) *)
Fixpoint startswith (s p : str) {struct p} : bool :=
  match p, s with
  | [], _ => true
  | x :: p', y :: s' => (y =? x) && startswith s' p'
  | _ :: _, [] => false
  end.

(* s.endswith("/") *)
Definition endswith_slash (s : str) : bool :=
  match rev s with c :: _ => c =? SLASH | [] => false end.

(* s.split("/") *)
Fixpoint split_slash (s : str) : list str :=
  match s with
  | [] => [[]]
  | c :: r =>
      if c =? SLASH then [] :: split_slash r
      else match split_slash r with h :: t => (c :: h) :: t | [] => [[c]] end
  end.

(* "/".join(cs) *)
Fixpoint join_slash (cs : list str) : str :=
  match cs with
  | [] => []
  | [x] => x
  | x :: rest => x ++ SLASH :: join_slash rest
  end.

Definition c_empty (c : str) : bool := match c with [] => true | _ => false end.
Definition c_dot (c : str) : bool := str_eqb c s_dot.
Definition c_dotdot (c : str) : bool := str_eqb c s_dotdot.

(* ---------------------------------------------------------------- posixpath.normpath *)

(* initial_slashes: 0, 1, or 2 (exactly two leading slashes are kept, POSIX) *)
Definition initial_slashes (s : str) : nat :=
  if startswith s [SLASH] then
    if startswith s [SLASH; SLASH] && negb (startswith s [SLASH; SLASH; SLASH]) then 2%nat else 1%nat
  else 0%nat.

(* one round of `for comp in comps:`; the stack is new_comps REVERSED (head = new_comps[-1]) *)
Definition np_step (isabs : bool) (st : list str) (c : str) : list str :=
  if c_empty c || c_dot c then st
  else if negb (c_dotdot c) then c :: st
  else match st with
       | [] => if isabs then [] else [c]
       | t :: st' => if c_dotdot t then c :: st else st'
       end.

Definition np_comps (isabs : bool) (cs : list str) : list str :=
  rev (fold_left (np_step isabs) cs []).

Definition or_dot (p : str) : str := match p with [] => s_dot | _ => p end.

Definition normpath (s : str) : str :=
  match s with
  | [] => s_dot
  | _ =>
      let k := initial_slashes s in
      let comps := np_comps (negb (Nat.eqb k 0)) (split_slash s) in
      or_dot (repeat SLASH k ++ join_slash comps)
  end.

(* ---------------------------------------------------------------- posixpath.join(a, b), dirname *)
Definition path_join (a b : str) : str :=
  if startswith b [SLASH] || c_empty a then b
  else if endswith_slash a then a ++ b
  else a ++ SLASH :: b.

(* os.path.dirname(p): head = p[:p.rfind('/')+1]; strip trailing slashes unless head is all slashes *)
Fixpoint drop_last_comp (cs : list str) : list str :=
  match cs with [] => [] | [_] => [] | c :: r => c :: drop_last_comp r end.
Fixpoint rstrip_slash_rev (r : str) : str :=
  match r with c :: r' => if c =? SLASH then rstrip_slash_rev r' else r | [] => [] end.
Definition dirname (p : str) : str :=
  match split_slash p with
  | [] | [_] => []
  | cs => let head := join_slash (drop_last_comp cs) ++ [SLASH] in
          if forallb (fun c => c =? SLASH) head then head else rev (rstrip_slash_rev (rev head))
  end.

(* ---------------------------------------------------------------- the validator *)

(* name[1:] if name.startswith("/") else name *)
Definition strip1 (s : str) : str :=
  match s with c :: r => if c =? SLASH then r else s | [] => [] end.

(* name.startswith("/") or name == ".." or name.startswith("../") *)
Definition escapes (n : str) : bool :=
  startswith n [SLASH] || str_eqb n s_dotdot || startswith n [DOT; DOT; SLASH].

(* name.lower() == "inbox": only the ASCII letters lower-case to i,n,b,o,x (checked by the harness
   over all of Unicode on every run) *)
Definition lower_ascii (c : Z) : Z := if (65 <=? c) && (c <=? 90) then c + 32 else c.
Definition is_inbox (n : str) : bool := str_eqb (map lower_ascii n) s_inbox.

(* asimap.mbox.canonical_mbox_name; Err ENo = raise InvalidMailbox *)
Definition canonical_mbox_name (name : str) : res str :=
  let n := strip1 name in
  let n := match n with [] => n | _ => normpath n end in
  if escapes n then Err ENo
  else
    let n := if str_eqb n s_dot then [] else n in
    Ok (if is_inbox n then s_inbox else n).

(* ---------------------------------------------------------------- paths derived from names *)

(* MH.get_folder / add_folder / remove_folder, mbox_msg_path(server.mailbox, name),
   server.maildir / name  (pathlib's `/` is modelled as os.path.join; the harness compares them) *)
Definition folder_path (root name : str) : str := path_join root name.

(* IMAPUserServer.get_mailbox(name): validator, then folder_exists / Mailbox.new on the canonical name *)
Definition get_mailbox_paths (root name : str) : res (list str) :=
  bind (canonical_mbox_name name) (fun c => Ok [folder_path root c]).

(* Mailbox.create: for chain_name in name.split("/"): mbox_chain.append(..); "/".join(mbox_chain) *)
Fixpoint chain_from (pre : list str) (cs : list str) : list str :=
  match cs with
  | [] => []
  | c :: r => join_slash (pre ++ [c]) :: chain_from (pre ++ [c]) r
  end.
Definition create_chain (name : str) : list str := chain_from [] (split_slash name).

(* the paths of get_mailbox(n) for each n of a list of internally derived names; a refused name
   derives no path *)
Definition sub_mailbox_paths (root : str) (names : list str) : list str :=
  flat_map (fun n => match get_mailbox_paths root n with Ok ps => ps | Err _ => [] end) names.

(* parent mailbox, looked up only when dirname is not empty *)
Definition parent_paths (root c : str) : list str :=
  match dirname c with [] => [] | d => sub_mailbox_paths root [d] end.

Inductive cmd :=
| CSelect (n : str) | CExamine (n : str) | CCreate (n : str) | CDelete (n : str)
| CRename (o n : str) | CSubscribe (n : str) | CUnsubscribe (n : str) | CStatus (n : str)
| CAppend (n : str) | CCopy (n : str) | CMove (n : str)
| CList (ref pat : str) | CLsub (ref pat : str).

(* _mbox_pattern_to_re: strip one leading "/" of the pattern, normpath it when not empty, then the
   three validator calls; LIST/LSUB then only select database rows by a regex: no path is derived *)
Definition list_pattern (pat : str) : str :=
  match strip1 pat with [] => [] | p => normpath p end.
Definition list_paths (ref pat : str) : res (list str) :=
  let p := list_pattern pat in
  bind (canonical_mbox_name ref) (fun _ =>
  bind (canonical_mbox_name p) (fun _ =>
  bind (canonical_mbox_name (ref ++ p)) (fun _ => Ok []))).

(* Every file-system path a command derives from its mailbox-name arguments, or Err when the command
   is refused before deriving any.  An over-approximation: later refusals of the real code (mailbox
   does not exist, is the inbox, ...) only remove paths. *)
Definition cmd_paths (root : str) (c : cmd) : res (list str) :=
  match c with
  | CSelect n | CExamine n | CSubscribe n | CUnsubscribe n | CStatus n
  | CAppend n | CCopy n | CMove n => get_mailbox_paths root n
  | CCreate n =>
      bind (canonical_mbox_name n) (fun c =>
        Ok (folder_path root c                                  (* get_mailbox(name) *)
            :: map (folder_path root) (create_chain c)          (* MH(server.maildir / prefix) *)
            ++ sub_mailbox_paths root (create_chain c)))        (* get_mailbox(prefix) *)
  | CDelete n =>
      bind (get_mailbox_paths root n) (fun ps =>                (* do_delete: get_mailbox *)
      bind (canonical_mbox_name n) (fun c =>                    (* Mailbox.delete *)
        Ok (ps ++ sub_mailbox_paths root [c]                    (* get_mailbox(name) *)
               ++ [folder_path root c]                          (* remove_folder / rmtree *)
               ++ parent_paths root c)))
  | CRename o n =>
      bind (get_mailbox_paths root o) (fun ps =>                (* do_rename: get_mailbox(src) *)
      bind (canonical_mbox_name n) (fun cn =>                   (* Mailbox.rename: destination first *)
      bind (canonical_mbox_name o) (fun co =>                   (* get_mailbox(old_name) -> mbox.name *)
        Ok (ps ++ [folder_path root co; folder_path root cn]    (* symlink, rename, get_folder *)
               ++ map (folder_path root) (create_chain cn)      (* renaming INBOX: Mailbox.create(new) *)
               ++ sub_mailbox_paths root (create_chain cn)
               ++ parent_paths root co ++ parent_paths root cn))))
  | CList r p | CLsub r p => list_paths r p
  end.

(* the names a command hands to the validator: its mailbox-name arguments as the handler receives
   them; for LIST/LSUB the reference, the normalised pattern and their concatenation *)
Definition cmd_names (c : cmd) : list str :=
  match c with
  | CSelect n | CExamine n | CSubscribe n | CUnsubscribe n | CStatus n
  | CAppend n | CCopy n | CMove n | CCreate n | CDelete n => [n]
  | CRename o n => [o; n]
  | CList r p | CLsub r p => [r; list_pattern p; r ++ list_pattern p]
  end.

(* ---------------------------------------------------------------- the mailbox table over histories
   Which names become rows of the `mailboxes` table (LIST/LSUB only select rows of this table, and
   LIST-STATUS calls get_mailbox(row name)).
     OpGet n     any get_mailbox(n) that finds a folder (Mailbox.new inserts the row); also
                 find_all_folders, which calls get_mailbox on every directory found below the root
     OpCreate n  Mailbox.create: get_mailbox on every prefix of the canonical name (RENAME of the
                 inbox is Mailbox.create(new name) as far as rows are concerned)
     OpDelete n  removes the row
     OpRename o n sel   _helper_rename_folder: every selected row r becomes new + r[len(old):].
                 `sel` is an ARBITRARY predicate: SQLite's `name=? OR name LIKE 'old/%'` (wildcards in
                 old, ASCII case folding) is not modelled, any choice of rows is allowed.
   Over-approximation: rows are added even when the real code would refuse later. *)
Inductive db_op :=
| OpGet (n : str)
| OpCreate (n : str)
| OpDelete (n : str)
| OpRename (o n : str) (sel : str -> bool).

Definition rows_of (names : list str) : list str :=
  flat_map (fun n => match canonical_mbox_name n with Ok c => [c] | Err _ => [] end) names.

Definition db_step (d : list str) (o : db_op) : list str :=
  match o with
  | OpGet n => rows_of [n] ++ d
  | OpCreate n => match canonical_mbox_name n with
                  | Ok c => rows_of (create_chain c) ++ d
                  | Err _ => d
                  end
  | OpDelete n => match canonical_mbox_name n with
                  | Ok c => filter (fun r => negb (str_eqb r c)) d
                  | Err _ => d
                  end
  | OpRename o n sel =>
      match canonical_mbox_name n, canonical_mbox_name o with
      | Ok cn, Ok co =>
          if c_empty cn then d
          else map (fun r => if sel r then cn ++ skipn (List.length co) r else r) d
      | _, _ => d
      end
  end.

Definition db_run (ops : list db_op) : list str := fold_left db_step ops [].

