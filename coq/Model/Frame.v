(* Model/Frame.v — C19: the byte-level loops of the front-end and of the user process.
   Definitions only (proofs: Proofs/FrameP.v).

   Source modelled (asimap/server.py, asimap/user_server.py, asimap/pop3_server.py):
     IMAPClient.start                  -> body / loop / frame_loop
     IMAPSubprocessInterface.message   -> frame           ("{len}\n" + payload)
     IMAPClientProxy.run (de-framing)  -> deframe_loop / deframe
     msgs_to_client (both servers)     -> relay_loop / relay
     POP3Client.start                  -> pop_loop / pop_frame_loop
   asyncio.StreamReader is modelled by functions on the rest of the stream:
     readuntil(CRLF) -> readuntil_crlf, readexactly(n) -> readexactly, read()-and-discard of n
     octets -> readexactly with the data dropped.  "Eof" as a stop reason means: the loop is
     waiting for more input (and ends silently when the peer closes).
   The flags of [cfg] select the code with the proposed fixes (true) or the pinned tree (false):
     fix_resync    fixes/C19-overlimit-literal-resync.patch
     fix_longline  fixes/C19-long-line-bad.patch
   and [relay]'s flag fixes/C19-relay-long-line.patch. *)
From Asimap Require Import Base.Res Base.Bytes Spec.FrameSpec.
Open Scope Z_scope.

Definition POP_ERR_EMPTY : bytes := bytes_of_string "-ERR empty command" ++ CRLF.

(* ---------------------------------------------------------------- bytes methods *)
(* msg.rstrip() *)
Fixpoint rstrip (l : bytes) : bytes :=
  match l with
  | [] => []
  | x :: l' => match rstrip l' with
               | [] => if is_ws x then [] else [x]
               | r => x :: r
               end
  end.

Fixpoint span_digits (l : bytes) : bytes * bytes :=
  match l with
  | x :: l' => if is_digit x then let (a, b) := span_digits l' in (x :: a, b) else ([], l)
  | [] => ([], [])
  end.

(* re.compile(rb"\{(\d+)(\+)?\}$").search(msg), on the REVERSED text that must end the match:
   '}' , optional '+', a maximal run of digits (at least one), '{'.  Result: group(1), group(2)
   present.  (The digits of a match are always preceded by '{', hence a maximal run; the leftmost
   match that `search` returns is therefore the only one.) *)
Definition lit_match_rev (r0 : bytes) : option (bytes * bool) :=
  match r0 with
  | c :: r =>
      if c =? 125 then
        let plus := match r with p :: _ => p =? 43 | [] => false end in
        let r1 := if plus then tl r else r in
        let (dr, r2) := span_digits r1 in
        match dr, r2 with
        | _ :: _, o :: _ => if o =? 123 then Some (rev dr, plus) else None
        | _, _ => None
        end
      else None
  | [] => None
  end.
Definition lit_match (msg : bytes) : option (bytes * bool) := lit_match_rev (rev msg).
(* `$` also matches just before a newline that ends the string *)
Definition re_search (msg : bytes) : option (bytes * bool) :=
  match rev msg with
  | c :: r => if c =? 10 then lit_match_rev r else lit_match_rev (c :: r)
  | [] => None
  end.

(* ---------------------------------------------------------------- StreamReader *)
(* split at the first CRLF: text before it, stream after it *)
Fixpoint split_crlf (s : bytes) : option (bytes * bytes) :=
  match s with
  | [] => None
  | x :: s' =>
      match s' with
      | y :: s'' =>
          if (x =? 13) && (y =? 10) then Some ([], s'')
          else match split_crlf s' with Some (l, r) => Some (x :: l, r) | None => None end
      | [] => None
      end
  end.
Fixpoint split_lf (s : bytes) : option (bytes * bytes) :=
  match s with
  | [] => None
  | x :: s' => if x =? 10 then Some ([], s')
               else match split_lf s' with Some (l, r) => Some (x :: l, r) | None => None end
  end.

Inductive rd := RdOk (chunk rest : bytes) | RdEof | RdLimit.
(* readuntil(b"\r\n") with the reader's limit: LimitOverrunError when the separator is further
   than lim octets away or is not among more than lim+1 buffered octets; otherwise, without a
   separator, the reader waits and raises IncompleteReadError at EOF *)
Definition readuntil_crlf (lim : Z) (s : bytes) : rd :=
  match split_crlf s with
  | Some (l, r) => if blen l >? lim then RdLimit else RdOk (l ++ CRLF) r
  | None => if blen s - 1 >? lim then RdLimit else RdEof
  end.
Definition readexactly (n : Z) (s : bytes) : option (bytes * bytes) :=
  if n <=? blen s then Some (firstn (Z.to_nat n) s, skipn (Z.to_nat n) s) else None.

(* ---------------------------------------------------------------- IMAPClient.start *)
Inductive stop := Eof | Closed | NoFuel.
Definition outp := (list ev * stop)%type.
Definition emit (e : ev) (o : outp) : outp := (e :: fst o, snd o).
Definition emits (es : list ev) (o : outp) : outp := (es ++ fst o, snd o).

Record cfg := { maxin : Z; rlimit : Z; maxdigits : Z; fix_resync : bool; fix_longline : bool }.

Definition isnil (l : bytes) : bool := match l with [] => true | _ :: _ => false end.
(* if msg: self.ibuffer.append(msg); self.ibuffer_size += len(msg) *)
Definition buf_add (buf msg : bytes) : bytes := if isnil msg then buf else buf ++ msg.
Definition size_add (size : Z) (msg : bytes) : Z := if isnil msg then size else size + blen msg.

Section Body.
  Variable c : cfg.
  (* the next iteration of `while client_connected`: ibuffer (joined), ibuffer_size, stream *)
  Variable k : bytes -> Z -> bytes -> outp.

  (* after "* BAD literal size exceeds ..." *)
  Definition after_big_literal (n : Z) (plus : bool) (rest : bytes) : outp :=
    if fix_resync c then
      if plus then
        match readexactly n rest with          (* skip_octets(n) *)
        | Some (_, rest') => k [] 0 rest'
        | None => ([], Eof)
        end
      else k [] 0 rest
    else
      match readuntil_crlf (rlimit c) rest with   (* the extra readuntil of the pinned tree *)
      | RdOk _ rest' => k [] 0 rest'
      | RdEof => ([], Eof)
      | RdLimit => ([], Closed)
      end.

  (* `if m:` branch *)
  Definition on_literal (buf1 : bytes) (size1 : Z) (ds : bytes) (plus : bool) (rest : bytes) : outp :=
    if blen ds >? maxdigits c then ([], Closed)      (* int(): ValueError, connection dropped *)
    else
      let n := dec_val ds in
      if n >? maxin c then emit (Wr BAD_LIT) (after_big_literal n plus rest)
      else
        emits (if plus then [] else [Wr CONT])
          match readexactly n rest with
          | None => ([], Eof)
          | Some (data, rest') =>
              let buf2 := buf1 ++ CRLF ++ data in
              let size2 := size1 + (blen data + 2) in
              if size2 >? maxin c then emit (Wr BAD_CMD) (k [] 0 rest')
              else k buf2 size2 rest'
          end.

  (* no literal announced: the command is complete *)
  Definition on_line (buf1 : bytes) (size1 : Z) (rest : bytes) : outp :=
    if size1 >? maxin c then emit (Wr BAD_CMD) (k [] 0 rest)
    else emit (Msg buf1) (k [] 0 rest).

  Definition body (buf : bytes) (size : Z) (s : bytes) : outp :=
    match readuntil_crlf (rlimit c) s with
    | RdEof => ([], Eof)
    | RdLimit => if fix_longline c then ([Wr BAD_LINE], Closed) else ([], Closed)
    | RdOk chunk rest =>
        let msg := rstrip chunk in
        let buf1 := buf_add buf msg in
        let size1 := size_add size msg in
        if isnil buf1 then emit (Wr BAD_EMPTY) (k buf1 size1 rest)
        else
          match re_search msg with
          | Some (ds, plus) => on_literal buf1 size1 ds plus rest
          | None => on_line buf1 size1 rest
          end
    end.
End Body.

Fixpoint loop (c : cfg) (fuel : nat) (buf : bytes) (size : Z) (s : bytes) : outp :=
  match fuel with
  | O => ([], NoFuel)
  | S f => body c (loop c f) buf size s
  end.

(* every iteration consumes at least the two octets of a CRLF: fuel = length + 1 never runs out
   (Proofs/FrameP.v: loop_fuel, frame_loop_fuel_free) *)
Definition run (c : cfg) (buf : bytes) (size : Z) (s : bytes) : outp := loop c (S (List.length s)) buf size s.
Definition frame_loop (c : cfg) (s : bytes) : outp := run c [] 0 s.

Definition msgs_of (o : outp) : list bytes :=
  flat_map (fun e => match e with Msg m => [m] | Wr _ => [] end) (fst o).
Definition writes_of (o : outp) : list bytes :=
  flat_map (fun e => match e with Wr w => [w] | Msg _ => [] end) (fst o).

(* the constants of the source; pinned on every run by harness/props/c19.py *)
Definition real_cfg : cfg :=
  {| maxin := 10485760; rlimit := 65536; maxdigits := 4300; fix_resync := true; fix_longline := true |}.
Definition pinned_cfg (m : Z) : cfg :=
  {| maxin := m; rlimit := 65536; maxdigits := 4300; fix_resync := false; fix_longline := false |}.
Definition fixed_cfg (m lim : Z) : cfg :=
  {| maxin := m; rlimit := lim; maxdigits := 4300; fix_resync := true; fix_longline := true |}.

(* ---------------------------------------------------------------- IPC framing *)
(* str(n) for n >= 0 *)
Fixpoint dec_fuel (fuel : nat) (n : Z) (acc : bytes) : bytes :=
  match fuel with
  | O => acc
  | S f => if n <? 10 then (48 + n) :: acc else dec_fuel f (n / 10) ((48 + n mod 10) :: acc)
  end.
Definition dec (n : Z) : bytes := dec_fuel (S (Z.to_nat (Z.log2 n))) n [].

(* IMAPSubprocessInterface.message: push(f"{{{len(msg)}}}\n", msg) *)
Definition frame (m : bytes) : bytes := [123] ++ dec (blen m) ++ [125; 10] ++ m.

Inductive dstop := DEof | DBadHeader | DTooBig | DPop3 | DNoFuel.
Definition POP3_MARK : bytes := bytes_of_string "POP3".
Fixpoint bytes_eqb (a b : bytes) : bool :=
  match a, b with
  | [], [] => true
  | x :: a', y :: b' => (x =? y) && bytes_eqb a' b'
  | _, _ => false
  end.

(* IMAPClientProxy.run up to the point where the message text is handed to the parser *)
Fixpoint deframe_loop (mx : Z) (fuel : nat) (first : bool) (s : bytes) : list bytes * dstop :=
  match fuel with
  | O => ([], DNoFuel)
  | S f =>
      match split_lf s with                      (* readuntil(b"\n") *)
      | None => ([], DEof)
      | Some (l, r) =>
          match re_search (l ++ [10]) with
          | None => ([], DBadHeader)
          | Some (ds, _) =>
              let n := dec_val ds in
              if n >? mx then ([], DTooBig)
              else match readexactly n r with
                   | None => ([], DEof)
                   | Some (m, r') =>
                       if first && bytes_eqb m POP3_MARK then ([], DPop3)
                       else let (ms, st) := deframe_loop mx f false r' in (m :: ms, st)
                   end
          end
      end
  end.
Definition deframe (mx : Z) (s : bytes) : list bytes * dstop := deframe_loop mx (S (List.length s)) true s.

(* ---------------------------------------------------------------- msgs_to_client *)
(* the chunks pushed to the client up to the last CRLF of s; fx: with
   fixes/C19-relay-long-line.patch (on LimitOverrunError pass on exc.consumed octets).  The
   boundaries between chunks of an over-long run depend on the read boundaries; only the
   concatenation is compared with the implementation. *)
Fixpoint relay_loop (lim : Z) (fx : bool) (fuel : nat) (s : bytes) : list bytes * stop :=
  match fuel with
  | O => ([], NoFuel)
  | S f =>
      if isnil s then ([], Eof)
      else
        match split_crlf s with
        | Some (l, r) =>
            if blen l >? lim then
              if fx then let (o, st) := relay_loop lim fx f (CRLF ++ r) in (l :: o, st)
              else ([], Closed)
            else let (o, st) := relay_loop lim fx f r in ((l ++ CRLF) :: o, st)
        | None =>
            (* an unterminated tail: how much of it is passed on depends on the read boundaries
               (with the fix), it is never more than the tail; not modelled beyond "stops" *)
            if fx then ([], Eof)
            else if blen s - 1 >? lim then ([], Closed) else ([], Eof)
        end
  end.
Definition relay (lim : Z) (fx : bool) (s : bytes) : list bytes * stop := relay_loop lim fx (S (List.length s)) s.

(* ---------------------------------------------------------------- POP3Client.start *)
Fixpoint pop_loop (lim : Z) (fuel : nat) (s : bytes) : outp :=
  match fuel with
  | O => ([], NoFuel)
  | S f =>
      match readuntil_crlf lim s with
      | RdEof => ([], Eof)
      | RdLimit => ([], Closed)
      | RdOk chunk rest =>
          let msg := rstrip chunk in
          if isnil msg then emit (Wr POP_ERR_EMPTY) (pop_loop lim f rest)
          else emit (Msg msg) (pop_loop lim f rest)
      end
  end.
Definition pop_frame_loop (lim : Z) (s : bytes) : outp := pop_loop lim (S (List.length s)) s.
