(* Model/CodecText.v — utils.compact_sequence / expand_sequence at the level of the persisted TEXT
   ("1-3,6,9-10": the mailboxes.uids / msg_keys / sequences columns of the SQLite table), on byte
   strings.  Model/Codec.v is the run-list core; this file adds what Python's str/int/split do
   around it, so that nothing but the function calls themselves remains on the Python side of the
   correspondence.  Definitions only.

     def compact_sequence(keys):                          def expand_sequence(contents):
         keys = sorted(keys)                                  if not contents.strip(): return []
         ",".join(as_range(g) for _, g in                     keys = set()
                  groupby(keys, n - index))                   for spec in contents.split(","):
     as_range(g): "a-b" if len(g) > 1 else "a"                    if spec.isdigit(): keys.add(int(spec))
                                                                  else: start, stop = (int(x) for x in spec.split("-"))
                                                                        keys.update(range(start, stop + 1))
                                                              return sorted(keys)

   Domain of the model: non-negative integers (message keys and UIDs are positive) and texts over
   bytes.  `int()` is modelled on non-empty strings of ASCII digits only (what compact_sequence
   can emit); on anything else the model says "raises".  Python's int() also accepts surrounding
   white space, a sign and underscores, so for texts outside the alphabet {0-9 , -} the model may
   say "raises" where Python returns a list; the correspondence's malformed stream stays inside
   that alphabet (where the model is exact), and no caller feeds expand_sequence anything that
   compact_sequence did not write.  The 4300-digit limit of str()/int() is not modelled. *)
From Asimap Require Import Base.Res Base.Bytes Model.Lex Spec.Grammar Model.Codec.
Open Scope Z_scope.

(* sorted(keys): insertion sort that keeps duplicates *)
Fixpoint zins (x : Z) (l : list Z) : list Z :=
  match l with
  | [] => [x]
  | y :: l' => if x <=? y then x :: l else y :: zins x l'
  end.
Definition zsort (l : list Z) : list Z := fold_right zins [] l.

(* s.split(c) for a one-character separator *)
Fixpoint split1 (sep : Z) (l : list Z) : list (list Z) :=
  match l with
  | [] => [[]]
  | x :: l' =>
      if x =? sep then [] :: split1 sep l'
      else match split1 sep l' with h :: t => (x :: h) :: t | [] => [[x]] end
  end.

Definition COMMA : Z := 44.
Definition DASH : Z := 45.

(* as_range *)
Definition as_range (r : Z * Z) : list Z :=
  if fst r =? snd r then r_number (fst r) else r_number (fst r) ++ [DASH] ++ r_number (snd r).

Definition compact_text (keys : list Z) : list Z :=
  bytes_join [COMMA] (map as_range (compact_runs (zsort keys))).

(* str.strip() white space among the bytes: \t \n \v \f \r, \x1c-\x1f, space *)
Definition is_space (c : Z) : bool := (c =? 32) || in_range 9 13 c || in_range 28 31 c.
Definition blank (s : list Z) : bool := forallb is_space s.
(* str.isdigit() on a byte string: non-empty, all ASCII digits *)
Definition all_digits (s : list Z) : bool := match s with [] => false | _ => forallb is_digit s end.
(* int(x): see the header for the domain *)
Definition py_int (s : list Z) : option Z := if all_digits s then Some (digits_val s) else None.

(* the keys one spec contributes; None = the function raises (ValueError) *)
Definition spec_keys (spec : list Z) : option (list Z) :=
  if all_digits spec then Some [digits_val spec]
  else match split1 DASH spec with
       | [a; b] => match py_int a, py_int b with
                   | Some x, Some y => Some (py_range x (y + 1))
                   | _, _ => None
                   end
       | _ => None
       end.

Fixpoint collect (specs : list (list Z)) : option (list Z) :=
  match specs with
  | [] => Some []
  | sp :: rest => match spec_keys sp, collect rest with
                  | Some k, Some ks => Some (k ++ ks)
                  | _, _ => None
                  end
  end.

Definition expand_text (contents : list Z) : option (list Z) :=
  if blank contents then Some []
  else match collect (split1 COMMA contents) with
       | Some ks => Some (sorted_set ks)
       | None => None
       end.
