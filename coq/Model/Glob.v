(* Model/Glob.v — the matcher LIST/LSUB use (asimap/mbox.py: Mailbox._mbox_pattern_to_re + re).

   The code builds a regular expression from  reference ++ pattern :
       "^" + re.escape(s) + "$"   then   .replace(r"\*", ".*").replace("%", r"[^\/]*")
   re.escape leaves '%' and '/' alone and puts a backslash before '*' (and before every other
   regex metacharacter, which makes it a literal), so the image of the translation is a sequence of
       literal character | .*  | [^/]*
   [pattern_to_re] is that translation, [re_match] the meaning Python's backtracking `re` gives
   to such a sequence anchored at both ends (a match exists iff some split exists).
   Restriction (stated in the correspondence check): names and patterns without LF
   ('.' does not match LF and '$' also matches before a final LF).

   Definitions only; proofs in Proofs/NamespaceP.v. *)
From Coq Require Import List Ascii Bool.
Import ListNotations.

Definition c_star : ascii := "*"%char.
Definition c_pct : ascii := "%"%char.
Definition c_slash : ascii := "/"%char.

Inductive retok := RLit (c : ascii) | RAny (* .* *) | RSeg (* [^/]* *).

Definition tok_of (c : ascii) : retok :=
  if Ascii.eqb c c_star then RAny else if Ascii.eqb c c_pct then RSeg else RLit c.

Definition pattern_to_re (p : list ascii) : list retok := map tok_of p.

(* f holds of some suffix of n  (what  .*  followed by the rest amounts to) *)
Fixpoint any_tail (f : list ascii -> bool) (n : list ascii) : bool :=
  f n || match n with [] => false | _ :: n' => any_tail f n' end.
(* f holds of some suffix of n reached without stepping over a '/'  ( [^/]*  followed by the rest) *)
Fixpoint seg_tail (f : list ascii -> bool) (n : list ascii) : bool :=
  f n || match n with [] => false | x :: n' => negb (Ascii.eqb x c_slash) && seg_tail f n' end.

Fixpoint re_match (r : list retok) : list ascii -> bool :=
  match r with
  | [] => fun n => match n with [] => true | _ :: _ => false end
  | RLit c :: r' => fun n => match n with x :: n' => Ascii.eqb x c && re_match r' n' | [] => false end
  | RAny :: r' => any_tail (re_match r')
  | RSeg :: r' => seg_tail (re_match r')
  end.

(* does the mailbox name n (a string with '/' between the levels) match the pattern p *)
Definition glob (p n : list ascii) : bool := re_match (pattern_to_re p) n.

