(* Model/Fmt.v — the response formatters of asimap (C07), definitions only.

   Modelled code (after the fixes C07-*.patch):
     utils.imap_string / imap_quote     -> enc_string   (quoted string, or a literal when the
                                                         value has CR, LF or NUL)
     fetch.encode_header, header_or_nil -> enc_string / enc_nstring on the encoded header value
     fetch.encode_addrs, envelope       -> address, addr_list, envelope
     client._fmt_list_response, LSUB, STATUS, SEARCH, do_fetch line assembly
     BaseClientHandler.command tagged lines (NO / BAD arms: resp_text; exception arm: white
     space collapsed, repo commit 9972da4)

   Which octets Python's email package extracts as a header value, which names a mailbox has
   and which text an exception carries are inputs: arbitrary byte lists, universally quantified
   in the theorems. *)
From Asimap Require Import Base.Res Model.BodyAlg.
Open Scope Z_scope.

Definition SP : Z := 32.
Definition DQ : Z := 34.
Definition BSL : Z := 92.
Definition NIL : list Z := [78; 73; 76].

Definition forbidden (c : Z) : bool := (c =? 13) || (c =? 10) || (c =? 0).
Definition needs_literal (b : list Z) : bool := existsb forbidden b.

(* value.replace(b"\\", b"\\\\").replace(b'"', b'\\"') *)
Definition esc (c : Z) : list Z := if (c =? DQ) || (c =? BSL) then [BSL; c] else [c].
Definition escape (b : list Z) : list Z := flat_map esc b.
Definition quoted (b : list Z) : list Z := DQ :: escape b ++ [DQ].

(* the one function every string goes through *)
Definition enc_string (b : list Z) : list Z :=
  if needs_literal b then literal b else quoted b.

Definition enc_nstring (o : option (list Z)) : list Z :=
  match o with None => NIL | Some b => enc_string b end.

(* the unrepaired encode_header: b'"' + value + b'"' *)
Definition enc_string_old (b : list Z) : list Z := DQ :: b ++ [DQ].

(* sep.join(parts) *)
Fixpoint join (sep : list Z) (ps : list (list Z)) : list Z :=
  match ps with
  | [] => []
  | [p] => p
  | p :: rest => p ++ sep ++ join sep rest
  end.

Definition paren (p : list Z) : list Z := 40 :: p ++ [41].

(* (name adl mailbox host) — encode_addrs: name or NIL, NIL, mailbox, host or NIL *)
Definition address (name : option (list Z)) (mbox : list Z) (host : option (list Z)) : list Z :=
  paren (join [SP] [enc_nstring name; NIL; enc_string mbox; enc_nstring host]).

Definition addr_list (l : list (option (list Z) * list Z * option (list Z))) : list Z :=
  match l with
  | [] => NIL
  | _ => paren (join [SP] (map (fun a => let '(n, m, h) := a in address n m h) l))
  end.

Record env := {
  e_date : option (list Z); e_subject : option (list Z);
  e_from : list (option (list Z) * list Z * option (list Z));
  e_sender : list (option (list Z) * list Z * option (list Z));
  e_reply_to : list (option (list Z) * list Z * option (list Z));
  e_to : list (option (list Z) * list Z * option (list Z));
  e_cc : list (option (list Z) * list Z * option (list Z));
  e_bcc : list (option (list Z) * list Z * option (list Z));
  e_in_reply_to : option (list Z); e_message_id : option (list Z) }.

Definition envelope (e : env) : list Z :=
  paren (join [SP] [enc_nstring (e_date e); enc_nstring (e_subject e); addr_list (e_from e);
                    addr_list (e_sender e); addr_list (e_reply_to e); addr_list (e_to e);
                    addr_list (e_cc e); addr_list (e_bcc e); enc_nstring (e_in_reply_to e);
                    enc_nstring (e_message_id e)]).

(* ("K1" "v1" "K2" "v2") — body_parameters / body_disposition parameter lists *)
Definition param_list (ps : list (list Z * list Z)) : list Z :=
  match ps with
  | [] => NIL
  | _ => paren (join [SP] (flat_map (fun kv => [enc_string (fst kv); enc_string (snd kv)]) ps))
  end.

(* "* LIST (" attrs ") "/" " name [ ("CHILDINFO" (...))] CRLF *)
Definition star_sp : list Z := [42; 32].
Definition list_head (word : list Z) (attrs : list (list Z)) : list Z :=
  star_sp ++ word ++ [SP] ++ paren (join [SP] attrs) ++ [SP; DQ; 47; DQ; SP].

Definition W_LIST : list Z := [76; 73; 83; 84].
Definition W_LSUB : list Z := [76; 83; 85; 66].
Definition W_STATUS : list Z := [83; 84; 65; 84; 85; 83].
Definition W_SEARCH : list Z := [83; 69; 65; 82; 67; 72].
Definition W_FETCH : list Z := [70; 69; 84; 67; 72].
Definition W_CHILDINFO : list Z := [67; 72; 73; 76; 68; 73; 78; 70; 79].

Definition list_line (attrs : list (list Z)) (name : list Z) (childinfo : list (list Z)) : list Z :=
  list_head W_LIST attrs ++ enc_string name ++
  match childinfo with
  | [] => []
  | _ => SP :: paren (quoted W_CHILDINFO ++ [SP] ++ paren (join [SP] (map quoted childinfo)))
  end ++ CRLF.

Definition lsub_line (attrs : list (list Z)) (name : list Z) : list Z :=
  list_head W_LSUB attrs ++ enc_string name ++ CRLF.

(* the unrepaired LIST line: f'* LIST ({attrs}) "/" "{name}"\r\n' *)
Definition list_line_old (attrs : list (list Z)) (name : list Z) : list Z :=
  list_head W_LIST attrs ++ enc_string_old name ++ CRLF.

(* "* STATUS " name " (" att SP n ... ")" CRLF *)
Definition status_line (name : list Z) (atts : list (list Z * N)) : list Z :=
  star_sp ++ W_STATUS ++ [SP] ++ enc_string name ++ [SP] ++
  paren (join [SP] (map (fun a => fst a ++ [SP] ++ dec (snd a)) atts)) ++ CRLF.

(* f"* SEARCH {' '.join(str(x) for x in results)}\r\n" *)
Definition search_line (nums : list N) : list Z :=
  star_sp ++ W_SEARCH ++ [SP] ++ join [SP] (map dec nums) ++ CRLF.

(* b"* %d FETCH (%b)\r\n" % (idx, b" ".join(results)) *)
Definition fetch_line (idx : N) (parts : list (list Z)) : list Z :=
  star_sp ++ dec idx ++ [SP] ++ W_FETCH ++ [SP] ++ paren (join [SP] parts) ++ CRLF.

(* one FETCH part: NAME SP value *)
Definition fetch_part (name value : list Z) : list Z := name ++ [SP] ++ value.

(* text of a tagged NO/BAD line: CR, LF and NUL of the exception text become spaces *)
Definition clean_text (t : list Z) : list Z := map (fun c => if forbidden c then SP else c) t.

Definition tagged_line (tag status text : list Z) : list Z :=
  tag ++ [SP] ++ status ++ [SP] ++ clean_text text ++ CRLF.

(* the exception arm of BaseClientHandler.command: text = " ".join(str(e).split()) — runs of
   Python whitespace (here: the code points < 256 that str.split() treats as white space)
   become one space, leading and trailing white space goes *)
Definition is_ws (c : Z) : bool :=
  ((9 <=? c) && (c <=? 13)) || ((28 <=? c) && (c <=? 32)) || (c =? 133) || (c =? 160).

Fixpoint collapse (nonempty pending : bool) (l : list Z) : list Z :=
  match l with
  | [] => []
  | c :: t =>
      if is_ws c then collapse nonempty true t
      else (if nonempty && pending then [SP; c] else [c]) ++ collapse true false t
  end.
Definition ws_collapse (l : list Z) : list Z := collapse false false l.

Definition EXC_PREFIX : list Z :=   (* "BAD Unhandled exception: " *)
  [66; 65; 68; 32; 85; 110; 104; 97; 110; 100; 108; 101; 100; 32; 101; 120; 99; 101; 112; 116; 105; 111; 110; 58; 32].

Definition exc_line (tag text : list Z) : list Z :=
  tag ++ [SP] ++ EXC_PREFIX ++ ws_collapse text ++ CRLF.

(* the two arms of BaseClientHandler.command as they were before 9972da4: no CRLF *)
Definition tagged_line_old_nocrlf (tag status text : list Z) : list Z :=
  tag ++ [SP] ++ status ++ [SP] ++ text.
