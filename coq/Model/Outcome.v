(* Model/Outcome.v — BaseClientHandler.command (client.py) as a function from what the do_*
   handler did to what is pushed to the client and whether the connection survives.
   Definitions only. *)
From Asimap Require Import Base.Res.
Open Scope Z_scope.

Inductive houtcome :=
  | HNone            (* handler returned None *)
  | HStr             (* handler returned a response-code string *)
  | HFalse           (* handler returned False: the tagged reply is deferred (IDLE) *)
  | HNo | HBad       (* raised No / Bad *)
  | HTimeout         (* the command watchdog fired *)
  | HOther           (* any other exception *)
  | HMissing.        (* no do_<command> method *)

Inductive tline := TOk | TNo | TBad.
Definition tag_code (t : tline) : Z := match t with TOk => 0 | TNo => 1 | TBad => 2 end.

(* the tagged lines command() pushes, in order (each one complete, CRLF terminated) *)
Definition pushed (o : houtcome) : list tline :=
  match o with
  | HNone => [TOk] | HStr => [TOk] | HFalse => []
  | HNo => [TNo] | HBad => [TBad] | HTimeout => [TBad] | HOther => [TBad] | HMissing => [TBad]
  end.
(* command() returns normally (the connection loop goes on) *)
Definition keeps_connection (o : houtcome) : bool := true.
