(* Model/Namespace.v — model of asimap's mailbox namespace code (after the C17 fixes):
     asimap/mbox.py    Mailbox.create / delete / rename, _helper_rename_folder, _helper_rename_inbox,
                       list, _list_simple, _list_with_recursivematch
     asimap/client.py  do_create do_delete do_rename do_subscribe do_unsubscribe do_select do_append,
                       do_list / do_lsub (post-processing of \HasChildren, INBOX, SUBSCRIBED,
                       SPECIAL-USE, STATUS)
     asimap/user_server.py  get_mailbox (INBOX folding), find_all_folders (RFC 6154 auto-creation)

   State: the rows of the `mailboxes` table, in insertion order (a list: duplicates are
   representable, their absence is an invariant proved in Proofs/NamespaceP.v), and the server's
   UIDVALIDITY counter.  The directory tree is not a separate component: the correspondence check
   compares both the table and the directories on disk with these rows after every command.
   Not modelled (projected away by the check): \Marked / \Unmarked.

   Definitions only. *)
From Coq Require Import List Ascii String Bool ZArith.
From Asimap Require Import Spec.NsSpec Model.Glob.
Import ListNotations.
Open Scope Z_scope.

Record row := {
  r_name : name;
  r_nosel : bool;
  r_sub : bool;
  r_spec : list string;
  r_vv : Z;
  r_nuid : Z;
  r_msgs : list msg }.

Record state := { rows : list row; vv_ctr : Z }.

Definition with_name (n : name) (r : row) : row :=
  {| r_name := n; r_nosel := r_nosel r; r_sub := r_sub r; r_spec := r_spec r; r_vv := r_vv r;
     r_nuid := r_nuid r; r_msgs := r_msgs r |}.
Definition with_nosel (b : bool) (r : row) : row :=
  {| r_name := r_name r; r_nosel := b; r_sub := r_sub r; r_spec := r_spec r; r_vv := r_vv r;
     r_nuid := r_nuid r; r_msgs := r_msgs r |}.
Definition with_sub (b : bool) (r : row) : row :=
  {| r_name := r_name r; r_nosel := r_nosel r; r_sub := b; r_spec := r_spec r; r_vv := r_vv r;
     r_nuid := r_nuid r; r_msgs := r_msgs r |}.
Definition with_msgs (u : Z) (l : list msg) (r : row) : row :=
  {| r_name := r_name r; r_nosel := r_nosel r; r_sub := r_sub r; r_spec := r_spec r; r_vv := r_vv r;
     r_nuid := u; r_msgs := l |}.
Definition deleted_row (vv : Z) (r : row) : row :=
  {| r_name := r_name r; r_nosel := true; r_sub := r_sub r; r_spec := r_spec r; r_vv := vv;
     r_nuid := r_nuid r; r_msgs := [] |}.

Definition find_row (st : state) (n : name) : option row :=
  find (fun r => neqb (r_name r) n) (rows st).

(* UPDATE mailboxes SET ... WHERE name = n *)
Definition update (n : name) (f : row -> row) (l : list row) : list row :=
  map (fun r => if neqb (r_name r) n then f r else r) l.
(* DELETE FROM mailboxes WHERE name = n *)
Definition remove (n : name) (l : list row) : list row :=
  filter (fun r => negb (neqb (r_name r) n)) l.

(* a is a prefix of m, level by level *)
Fixpoint is_prefix (a m : name) : bool :=
  match a, m with
  | [], _ => true
  | x :: a', y :: m' => ceqb x y && is_prefix a' m'
  | _ :: _, [] => false
  end.
(* m strictly below a   (SQL: substr(name, 1, len(a)+1) = a || '/') *)
Definition belowb (a m : name) : bool := is_prefix a m && Nat.ltb (List.length a) (List.length m).

(* list_folders() non-empty / some row lies below *)
Definition has_kids (st : state) (n : name) : bool := existsb (fun r => belowb n (r_name r)) (rows st).

(* name.split("/") prefixes: the name and its superior names, shortest first *)
Fixpoint inits (n : name) : list name :=
  match n with
  | [] => []
  | c :: r => [c] :: map (cons c) (inits r)
  end.

Definition new_row (n : name) (vv : Z) : row :=
  {| r_name := n; r_nosel := false; r_sub := false; r_spec := special_for n; r_vv := vv;
     r_nuid := 1; r_msgs := [] |}.

(* get_mailbox on a directory without a row: _restore_from_db inserts one with the next UIDVALIDITY *)
Definition add_if_missing (st : state) (p : name) : state :=
  match find_row st p with
  | Some _ => st
  | None => {| rows := rows st ++ [new_row p (vv_ctr st + 1)]; vv_ctr := vv_ctr st + 1 |}
  end.

(* Mailbox.create, second half: make the directories, then visit the chain deepest first *)
Definition create_chain (st : state) (n : name) : state := fold_left add_if_missing (rev (inits n)) st.

Definition create (st : state) (n : name) : state * result :=
  if negb (name_ok n) then (st, NO)
  else if negb (new_name_ok n) then (st, NO)
  else match find_row st n with
       | Some r => if r_nosel r
                   then ({| rows := update n (with_nosel false) (rows st); vv_ctr := vv_ctr st |}, OK)
                   else (st, NO)
       | None => (create_chain st n, OK)
       end.

Definition delete (st : state) (n0 : name) : state * result :=
  if negb (name_ok n0) then (st, NO)
  else if is_inbox n0 then (st, NO)
  else let n := canon n0 in
       match find_row st n with
       | None => (st, NO)
       | Some r =>
           let kids := has_kids st n in
           if r_nosel r && kids then (st, NO)
           else if r_nosel r && r_sub r then (st, NO)
           else if kids || r_sub r
                then ({| rows := update n (deleted_row (vv_ctr st + 1)) (rows st); vv_ctr := vv_ctr st + 1 |}, OK)
                else ({| rows := remove n (rows st); vv_ctr := vv_ctr st |}, OK)
       end.

(* _helper_rename_folder: the rows named o or below o get n in place of o *)
Definition rename_rows (o n : name) (l : list row) : list row :=
  map (fun r => if is_prefix o (r_name r)
                then with_name (n ++ skipn (List.length o) (r_name r)) r else r) l.

(* Mailbox.rename: "create any superior hierarchical names that are needed" *)
Definition ensure_parent (st : state) (n : name) : state * result :=
  match removelast n with
  | [] => (st, OK)
  | p => match find_row st p with Some _ => (st, OK) | None => create st p end
  end.

Definition rename (st : state) (o0 n : name) : state * result :=
  if negb (name_ok o0) || negb (name_ok n) then (st, NO)
  else let o := canon o0 in
       match find_row st o with
       | None => (st, NO)
       | Some ro =>
           match find_row st n with
           | Some _ => (st, NO)
           | None =>
               if is_inbox o0 then
                 (* _helper_rename_inbox: create the mailbox, move the messages into it *)
                 match create st n with
                 | (st1, OK) =>
                     let k := Z.of_nat (List.length (r_msgs ro)) in
                     ({| rows := update inbox (with_msgs (r_nuid ro) [])
                                   (update n (with_msgs (1 + k) (renumber 1 (r_msgs ro))) (rows st1));
                         vv_ctr := vv_ctr st1 |}, OK)
                 | (_, NO) => (st, NO)
                 end
               else if negb (new_name_ok n) then (st, NO)
               else if belowb o n then (st, NO)
               else
                 match ensure_parent st n with
                 | (st1, OK) => ({| rows := rename_rows o n (rows st1); vv_ctr := vv_ctr st1 |}, OK)
                 | (_, NO) => (st, NO)
                 end
           end
       end.

Definition subscribe (b : bool) (st : state) (n0 : name) : state * result :=
  if negb (name_ok n0) then (st, NO)
  else let n := canon n0 in
       match find_row st n with
       | None => (st, NO)
       | Some _ => ({| rows := update n (with_sub b) (rows st); vv_ctr := vv_ctr st |}, OK)
       end.

Definition select (st : state) (n0 : name) : state * result :=
  if negb (name_ok n0) then (st, NO)
  else match find_row st (canon n0) with
       | None => (st, NO)
       | Some r => if r_nosel r then (st, NO) else (st, OK)
       end.

(* the appended message gets next_uid *)
Definition append_row (cid fl : Z) (r : row) : row :=
  with_msgs (r_nuid r + 1) (r_msgs r ++ [{| m_uid := r_nuid r; m_cid := cid; m_flags := fl |}]) r.

(* NOTE: APPEND to a \Noselect placeholder is outside the modelled domain (the code stores the
   message and then fails); the correspondence check does not send it *)
Definition append (st : state) (n0 : name) (cid fl : Z) : state * result :=
  if negb (name_ok n0) then (st, NO)
  else let n := canon n0 in
       match find_row st n with
       | None => (st, NO)
       | Some r =>
           if r_nosel r then (st, NO)
           else ({| rows := update n (append_row cid fl) (rows st); vv_ctr := vv_ctr st |}, OK)
       end.

(* IMAPUserServer.find_all_folders at start-up: every RFC 6154 mailbox that is missing is created *)
Definition ensure_special (st : state) (n : name) : state :=
  match find_row st n with Some _ => st | None => fst (create st n) end.
Definition restart (st : state) : state := fold_left ensure_special special_names st.

Definition step (st : state) (o : op) : state * result :=
  match o with
  | Create n => create st n
  | Delete n => delete st n
  | Rename o n => rename st o n
  | Subscribe n => subscribe true st n
  | Unsubscribe n => subscribe false st n
  | Append n c f => append st n c f
  | Select n => select st n
  | Restart => (restart st, OK)
  end.

Fixpoint run (st : state) (os : list op) : state * list result :=
  match os with
  | [] => (st, [])
  | o :: os' => let (st1, r) := step st o in let (st2, rs) := run st1 os' in (st2, r :: rs)
  end.

(* a new mail directory: the inbox, then find_all_folders *)
Definition init : state := restart {| rows := [new_row inbox 1]; vv_ctr := 1 |}.

(* ------------------------------------------------------------------ LIST / LSUB *)
Record query := {
  q_lsub : bool;                    (* LSUB *)
  q_ref : list ascii;               (* the reference, as sent *)
  q_pats : list (list ascii);       (* the pattern, or the patterns of the LIST-EXTENDED form *)
  q_sel_sub : bool;                 (* selection options: SUBSCRIBED *)
  q_sel_rec : bool;                 (*   RECURSIVEMATCH *)
  q_sel_special : bool;             (*   SPECIAL-USE *)
  q_ret_sub : bool;                 (* return options: SUBSCRIBED (CHILDREN and SPECIAL-USE change nothing) *)
  q_ret_status : bool }.            (*   STATUS (MESSAGES UIDNEXT UIDVALIDITY) *)

Record entry := {
  e_name : list ascii;
  e_attrs : list attr;
  e_childinfo : bool;                    (* ("CHILDINFO" ("SUBSCRIBED")) *)
  e_status : option (Z * Z * Z) }.       (* MESSAGES UIDNEXT UIDVALIDITY *)

(* Mailbox.list: one regular expression per pattern from  reference + pattern *)
Definition q_ips (q : query) : list (list ascii) := map (fun p => q_ref q ++ p) (q_pats q).

(* name regexp ?  OR  (name = 'inbox' AND name regexp '(?i)' || ?) *)
Definition row_matches (ips : list (list ascii)) (r : row) : bool :=
  if is_inbox (r_name r) then existsb (fun ip => glob (lower ip) (la "inbox")) ips
  else existsb (fun ip => glob ip (flat (r_name r))) ips.

Definition has_special (r : row) : bool := match r_spec r with [] => false | _ :: _ => true end.

(* the rows answered, with the flag "answered only because of RECURSIVEMATCH" *)
Definition selected (st : state) (q : query) : list (row * bool) :=
  let ips := q_ips q in
  let sel :=
    if q_sel_rec q then
      let subs := filter r_sub (rows st) in
      let normal := filter (row_matches ips) subs in
      let nonm := filter (fun r => negb (row_matches ips r)) subs in
      let anc := filter (fun a => row_matches ips a && negb (r_sub a) &&
                                  existsb (fun x => belowb (r_name a) (r_name x)) nonm) (rows st) in
      map (fun r => (r, false)) normal ++ map (fun r => (r, true)) anc
    else
      map (fun r => (r, false))
          (filter (fun r => row_matches ips r && implb (q_lsub q || q_sel_sub q) (r_sub r)) (rows st)) in
  if q_sel_special q then filter (fun rc => has_special (fst rc)) sel else sel.

Definition row_attrs (st : state) (q : query) (r : row) : list attr :=
  (if r_nosel r then [Noselect] else []) ++
  map Special (r_spec r) ++
  [if has_kids st (r_name r) then HasChildren else HasNoChildren] ++
  (if r_sub r then
     if q_sel_sub q then Subscribed :: (if r_nosel r then [NonExistent] else [])
     else if q_ret_sub q then [Subscribed] else []
   else []).

Definition mk_entry (st : state) (q : query) (rc : row * bool) : entry :=
  let (r, child) := rc in
  {| e_name := shown (r_name r);
     e_attrs := row_attrs st q r;
     e_childinfo := child && q_sel_sub q;
     e_status := if q_ret_status q && negb (r_nosel r) && negb child
                 then Some (Z.of_nat (List.length (r_msgs r)), r_nuid r, r_vv r) else None |}.

Definition q_extended (q : query) : bool :=
  q_sel_sub q || q_sel_rec q || q_sel_special q || Nat.ltb 1 (List.length (q_pats q)).

(* do_list *)
Definition list_cmd (st : state) (q : query) : list entry :=
  match q_ref q, q_pats q with
  | [], [[]] =>   (* the hierarchy delimiter probe  LIST "" "" *)
      if q_extended q then []
      else [{| e_name := []; e_attrs := [Noselect]; e_childinfo := false; e_status := None |}]
  | _, _ => map (mk_entry st q) (selected st q)
  end.

(* plain  LIST reference pattern  /  LSUB reference pattern *)
Definition plain (lsub : bool) (ref pat : list ascii) : query :=
  {| q_lsub := lsub; q_ref := ref; q_pats := [pat]; q_sel_sub := false; q_sel_rec := false;
     q_sel_special := false; q_ret_sub := false; q_ret_status := false |}.

(* ------------------------------------------------------------------ the view the reference model has *)
Definition info_of (r : row) : info :=
  {| i_placeholder := r_nosel r; i_subscribed := r_sub r; i_special := r_spec r;
     i_uidvalidity := r_vv r; i_uidnext := r_nuid r; i_msgs := r_msgs r |}.
Definition abs (st : state) : tree := fun n => option_map info_of (find_row st n).

(* ------------------------------------------------------------------ reading names written by a client *)
(* s.split("/") *)
Fixpoint split_slash (acc : list ascii) (s : list ascii) : name :=
  match s with
  | [] => [rev acc]
  | c :: s' => if Ascii.eqb c "/"%char then rev acc :: split_slash [] s' else split_slash (c :: acc) s'
  end.
Definition nm (s : string) : name := split_slash [] (la s).
