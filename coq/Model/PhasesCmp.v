(* Model/PhasesCmp.v — ties Model/Phases.v to Model/Mbox.v by computation: on every world reached by a history, a
   FETCH/STORE/SEARCH of the atomic model sends what `arrive` followed at once by `execute` sends and leaves the same
   messages, UIDs, flags and views.  Evaluated by the correspondence checks on all the histories they generate (a
   test of the two-step model against the atomic one, which is itself tested against the implementation).
   Definitions only. *)
From Asimap Require Import Base.Res Spec.SetSem Model.Mbox Model.MboxCmp Model.Phases.
Open Scope Z_scope.

Definition split_of (o : op) : option (Z * pcmd) :=
  match o with
  | OStore s u st a si fl => Some (s, PStore u st a si fl)
  | OFetch s u st k => Some (s, PFetch u st k)
  | OSearch s u f => Some (s, PSearch u f)
  | _ => None
  end.

Definition box_sig (b : mbox) : list (Z * list string) * Z * list (Z * (bool * list Z * list resp)) :=
  (map (fun m => (m_uid m, m_seqs m)) (b_msgs b), b_next b,
   map (fun p => (fst p, (c_idle (snd p), c_view (snd p), c_pend (snd p)))) (b_clients b)).
Fixpoint zl_eq (a b : list Z) : bool :=
  match a, b with [], [] => true | x :: a', y :: b' => (x =? y) && zl_eq a' b' | _, _ => false end.
Fixpoint msl_eq (a b : list (Z * list string)) : bool :=
  match a, b with [], [] => true | (u, f) :: a', (v, g) :: b' => (u =? v) && sset_eqb f g && msl_eq a' b' | _, _ => false end.
Fixpoint cl_eq (a b : list (Z * (bool * list Z * list resp))) : bool :=
  match a, b with
  | [], [] => true
  | (s, (i, v, p)) :: a', (t, (j, x, q)) :: b' => (s =? t) && Bool.eqb i j && zl_eq v x && resps_eqb p q && cl_eq a' b'
  | _, _ => false
  end.
Definition box_eq (a b : mbox) : bool :=
  let '(m1, n1, c1) := box_sig a in let '(m2, n2, c2) := box_sig b in msl_eq m1 m2 && (n1 =? n2) && cl_eq c1 c2.
Definition world_eq (a b : world) : bool :=
  forallb (fun nb => match get_box b (fst nb) with Some bb => box_eq (snd nb) bb | None => false end) (w_boxes a) &&
  (Nat.eqb (List.length (w_boxes a)) (List.length (w_boxes b))).

Definition agree (w : world) (o : op) : bool :=
  match split_of o with
  | None => true
  | Some (s, c) =>
      let '(wa, oa) := step w o in
      let '(w1, o1, go) := arrive w s c in
      let '(w2, o2) := if go then execute w1 s c else (w1, []) in
      out_eqb oa (o1 ++ o2) && world_eq wa w2
  end.
(* index of the first op of the history on which they disagree, -1 if none *)
Fixpoint first_disagreement (w : world) (ops : list op) (i : Z) : Z :=
  match ops with
  | [] => -1
  | o :: ops' => if agree w o then first_disagreement (fst (step w o)) ops' (i + 1) else i
  end.
