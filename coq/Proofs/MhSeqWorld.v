(* Proofs/MhSeqWorld.v — Model/MhSeq.v meets the world model (Model/Mbox.v): the sequences the
   server holds are the transpose of the per-message sequence names of the world model; after the
   server has written `.mh_sequences`, an MH tool reads, for every message the server knows, exactly
   the sequence names the world model gives that message (C13: "MH tools see IMAP flag changes"). *)
From Asimap Require Import Base.Res Spec.SetSem Model.Mbox Model.MhSeq Proofs.MhSeqP Proofs.MboxKeys.
From Coq Require Import Lia ZArith List Bool String Sorting.Sorted.
Open Scope Z_scope.

(* name -> keys of the messages that carry the name *)
Definition seqs_of_msgs (names : list string) (msgs : list msg) : seqs :=
  map (fun n => (n, map m_key (filter (has_seq n) msgs))) names.

Lemma seq_of_map (f : string -> list Z) names name :
  In name names -> seq_of (map (fun n => (n, f n)) names) name = f name.
Proof.
  unfold seq_of. induction names as [|n names IH]; [intros []|]. intros Hin. cbn [map dict_get].
  destruct (String.eqb_spec name n) as [->|NE]; [reflexivity|].
  destruct Hin as [E|Hin]; [congruence|]. apply IH. exact Hin.
Qed.
Lemma seq_of_map_out (f : string -> list Z) names name :
  ~ In name names -> seq_of (map (fun n => (n, f n)) names) name = [].
Proof.
  unfold seq_of. induction names as [|n names IH]; [reflexivity|]. intros Hn. cbn [map dict_get].
  destruct (String.eqb_spec name n) as [->|NE]; [exfalso; apply Hn; left; reflexivity|].
  apply IH. intros H. apply Hn. right. exact H.
Qed.

Theorem transpose_spec names msgs name m :
  NoDup (map m_key msgs) -> In m msgs -> In name names ->
  (In (m_key m) (seq_of (seqs_of_msgs names msgs) name) <-> has_seq name m = true).
Proof.
  intros Hnd Hm Hn. unfold seqs_of_msgs. rewrite (seq_of_map (fun n => map m_key (filter (has_seq n) msgs))) by exact Hn.
  rewrite in_map_iff. split.
  - intros [m' [Hk Hf]]. apply filter_In in Hf as [Hin' Hs].
    assert (m' = m); [|subst; exact Hs].
    clear Hs Hn. induction msgs as [|a msgs IH]; [destruct Hm|]. cbn [map] in Hnd. inversion Hnd as [|? ? Hna Hnd']; subst.
    destruct Hm as [->|Hm], Hin' as [->|Hin'].
    + reflexivity.
    + exfalso. apply Hna. rewrite <- Hk. apply in_map. exact Hin'.
    + exfalso. apply Hna. rewrite Hk. apply in_map. exact Hm.
    + apply IH; assumption.
  - intros Hs. exists m. split; [reflexivity|]. apply filter_In. split; assumption.
Qed.

(* a sequence name nobody carries is not invented *)
Theorem transpose_only_names names msgs name k :
  In k (seq_of (seqs_of_msgs names msgs) name) -> exists m, In m msgs /\ m_key m = k /\ has_seq name m = true.
Proof.
  intros H. unfold seqs_of_msgs in H.
  destruct (in_dec String.string_dec name names) as [Hn|Hn].
  - rewrite (seq_of_map (fun n => map m_key (filter (has_seq n) msgs))) in H by exact Hn.
    apply in_map_iff in H as [m [Hk Hf]]. apply filter_In in Hf as [Hin Hs]. exists m. repeat split; assumption.
  - rewrite (seq_of_map_out (fun n => map m_key (filter (has_seq n) msgs))) in H by exact Hn. destruct H.
Qed.

(* the end-to-end statement: whatever the folder's file said before (deliveries not taken in yet,
   stale entries), whatever the server has just removed, after the write the file lists a message
   the server knows under a name exactly when the world model's message carries that name *)
Theorem mh_tool_reads_world_flags names msgs forget folder name m :
  StronglySorted Z.lt (map m_key msgs) -> Forall (fun k => 0 <= k) (map m_key msgs) ->
  In m msgs -> In name names ->
  (In (m_key m) (seq_of (written (map m_key msgs) (seqs_of_msgs names msgs) forget folder) name)
   <-> has_seq name m = true).
Proof.
  intros Hs Hp Hm Hn.
  rewrite (written_known_exact (map m_key msgs) _ forget folder name (m_key m)).
  - apply transpose_spec; [|exact Hm|exact Hn].
    clear -Hs. induction (map m_key msgs) as [|a l IH]; [constructor|].
    inversion Hs as [|? ? Hs' Ha]; subst. constructor; [|apply IH; exact Hs'].
    intros Hin. rewrite Forall_forall in Ha. specialize (Ha a Hin). lia.
  - apply highest_is_max; [exact Hs|exact Hp|apply in_map; exact Hm].
Qed.

(* ... and in every reachable world the hypotheses hold (Proofs/MboxKeys.v), so the statement is about
   every mailbox after any history of commands, deliveries, packs and restarts *)
Theorem reachable_mh_tool_reads_world_flags ps pn pd ops n b names forget folder name m :
  get_box (fst (run (init_world ps pn pd) ops)) n = Some b ->
  In m (b_msgs b) -> In name names ->
  (In (m_key m) (seq_of (written (map m_key (b_msgs b)) (seqs_of_msgs names (b_msgs b)) forget folder) name)
   <-> has_seq name m = true).
Proof.
  intros H Hm Hn. destruct (reachable_keys_ascending ps pn pd ops n b H) as [Hs Hp].
  apply mh_tool_reads_world_flags; assumption.
Qed.
