(* Proofs/OutcomeP.v — C06: exactly one tagged response per command, in command() and in every
   step of the world model. *)
From Asimap Require Import Base.Res Spec.SetSem Model.Mbox Model.Outcome Proofs.MboxInv Proofs.MboxStep Proofs.MboxOut.
From Coq Require Import ZifyBool.
Open Scope Z_scope.

Lemma one_tagged o : o <> HFalse -> List.length (pushed o) = 1%nat.
Proof. destruct o; intros H; try reflexivity. congruence. Qed.
Lemma deferred_nothing : pushed HFalse = []. Proof. reflexivity. Qed.
Lemma survives o : keeps_connection o = true. Proof. reflexivity. Qed.

(* ------------------------------------------------------------------ the world model *)
Definition is_tagged (r : resp) : bool := match r with ROk _ | RNo | RBad => true | _ => false end.
Definition is_note (r : resp) : bool :=
  match r with RExists _ _ | RRecent _ | RExpunge _ | RFetch _ _ _ _ => true | _ => false end.
Definition issuer (o : op) : option Z :=
  match o with
  | OSelect s _ _ | OUnselect s | OClose s | ONoop s | OCheck s | OIdle s | ODone s | OAppend s _ _ _ _
  | OStore s _ _ _ _ _ | OFetch s _ _ _ | OSearch s _ _ | OExpunge s _ | OCopy s _ _ _ | OMove s _ _ _ => Some s
  | _ => None
  end.
Definition o_is_idle (o : op) : bool := match o with OIdle _ => true | _ => false end.

(* what s receives contains no tagged response *)
Definition quiet_for (s : Z) (o : out) : Prop := forall r, In (s, r) o -> is_tagged r = false.
(* ... and then exactly one, as the last thing *)
Definition answered_once (s : Z) (o : out) : Prop :=
  exists pre t, o = pre ++ [(s, t)] /\ is_tagged t = true /\ quiet_for s pre.

Definition notes_only (o : out) : Prop := forall p, In p o -> is_note (snd p) = true.
Definition bQ (b : mbox) : Prop := forall s c, In (s, c) (b_clients b) -> forall r, In r (c_pend c) -> is_note r = true.
Definition wQ (w : world) : Prop := forall n b, get_box w n = Some b -> bQ b.

Lemma note_untagged r : is_note r = true -> is_tagged r = false. Proof. destruct r; cbn; congruence. Qed.
Lemma notes_quiet s o : notes_only o -> quiet_for s o.
Proof. intros H r Hin. apply note_untagged. apply (H (s, r) Hin). Qed.
Lemma quiet_app s a b : quiet_for s a -> quiet_for s b -> quiet_for s (a ++ b).
Proof. intros Ha Hb r Hin. apply in_app_or in Hin. destruct Hin; auto. Qed.
Lemma quiet_nil s : quiet_for s []. Proof. intros r []. Qed.
Lemma notes_app a b : notes_only a -> notes_only b -> notes_only (a ++ b).
Proof. intros Ha Hb p Hin. apply in_app_or in Hin. destruct Hin; auto. Qed.
Lemma notes_nil : notes_only []. Proof. intros p []. Qed.
Lemma notes_tag s rs : (forall r, In r rs -> is_note r = true) -> notes_only (tag s rs).
Proof. intros H p Hin. unfold tag in Hin. apply in_map_iff in Hin. destruct Hin as [r [<- Hr]]. cbn. auto. Qed.

Lemma once_intro s pre t : quiet_for s pre -> is_tagged t = true -> answered_once s (pre ++ [(s, t)]).
Proof. intros H1 H2. exists pre, t. auto. Qed.
Lemma once_single s t : is_tagged t = true -> answered_once s [(s, t)].
Proof. intros H. exists [], t. repeat split; trivial. apply quiet_nil. Qed.

(* ---- primitives keep the queues made of notes and emit only notes *)
Lemma deliver_pend' c rs : c_pend (deliver c rs) = c_pend c. Proof. apply deliver_pend. Qed.

Lemma dispatch_Q b d rs : (forall r, In r rs -> is_note r = true) -> bQ b ->
  bQ (fst (dispatch b d rs)) /\ notes_only (snd (dispatch b d rs)).
Proof.
  intros Hrs Hb. split.
  - intros s c Hin r Hr. apply dispatch_in in Hin. destruct Hin as [c0 [Hin0 [->|Hc]]]; [apply (Hb s c0 Hin0 r Hr)|].
    unfold dispatch1 in Hc. destruct (match d with Some d0 => s =? d0 | None => false end);
      [apply (f_equal snd) in Hc; cbn [fst snd] in Hc; subst c; apply (Hb s c0 Hin0 r Hr)|].
    destruct (c_idle c0); apply (f_equal snd) in Hc; cbn [fst snd] in Hc; subst c.
    + rewrite deliver_pend' in Hr. apply (Hb s c0 Hin0 r Hr).
    + cbn [pend c_pend] in Hr. apply in_app_or in Hr. destruct Hr; [apply (Hb s c0 Hin0 r); trivial|auto].
  - intros [s r] Hin. cbn [snd]. apply dispatch_out in Hin. auto.
Qed.
Lemma announce_Q b rs : (forall r, In r rs -> is_note r = true) -> bQ b ->
  bQ (fst (announce b rs)) /\ notes_only (snd (announce b rs)).
Proof.
  intros Hrs Hb. split.
  - intros s c Hin r Hr. apply announce_in in Hin. destruct Hin as [c0 [Hin0 Hc]]. unfold announce1 in Hc.
    destruct (c_pend c0) eqn:Ep; [|destruct (c_idle c0)]; apply (f_equal snd) in Hc; cbn [fst snd] in Hc; subst c.
    + rewrite deliver_pend', Ep in Hr. destruct Hr.
    + rewrite deliver_pend' in Hr. apply (Hb s c0 Hin0 r Hr).
    + cbn [pend c_pend] in Hr. apply in_app_or in Hr. destruct Hr; [apply (Hb s c0 Hin0 r); trivial|auto].
  - intros [s r] Hin. cbn [snd]. apply announce_out in Hin. auto.
Qed.

Lemma notes_from_note want l pos show r : In r (notes_from l pos want show) -> is_note r = true.
Proof.
  revert pos; induction l as [|m l IH]; intros pos H; cbn [notes_from] in H; [destruct H|].
  apply in_app_or in H. destruct H as [H|H]; [|apply (IH _ H)]. destruct (want m); [destruct H as [<-|[]]; reflexivity|destruct H].
Qed.
Lemma notes_at_note sl l pos show r : In r (notes_at sl l pos show) -> is_note r = true.
Proof.
  revert pos; induction l as [|m l IH]; intros pos H; cbn [notes_at] in H; [destruct H|].
  apply in_app_or in H. destruct H as [H|H]; [|apply (IH _ H)]. destruct (zmem pos sl); [destruct H as [<-|[]]; reflexivity|destruct H].
Qed.

Lemma resync_Q b : bQ b -> bQ (fst (resync b)) /\ notes_only (snd (resync b)).
Proof.
  intros Hb. unfold resync. destruct (b_disk b); [split; [exact Hb|apply notes_nil]|].
  match goal with |- context [announce ?B ?R] => destruct (announce_Q B R) as [A1 A2];
    [intros r [<-|[<-|[]]]; reflexivity|exact Hb|destruct (announce B R) as [b2 o1]] end.
  match goal with |- context [dispatch ?B ?D ?R] => destruct (dispatch_Q B D R) as [D1 D2];
    [intros r Hr; apply (notes_from_note _ _ _ _ _ Hr)|exact A1|destruct (dispatch B D R) as [b3 o2]] end.
  cbn [fst snd] in *. split; [exact D1|apply notes_app; trivial].
Qed.

Lemma flush_Q b s : bQ b -> bQ (fst (flush b s)) /\ notes_only (snd (flush b s)).
Proof.
  intros Hb. unfold flush. destruct (get_client b s) as [c|] eqn:G; [|split; [exact Hb|apply notes_nil]].
  unfold flush1. cbn [fst snd]. split.
  - intros s0 c0 Hin r Hr. apply upd_client_in in Hin. destruct Hin as [c1 [Hin1 Hc]].
    destruct (s0 =? s); subst c0; [cbn in Hr; destruct Hr|apply (Hb s0 c1 Hin1 r Hr)].
  - apply notes_tag. intros r Hr. apply (Hb s c (get_client_in _ _ _ G) r Hr).
Qed.

Lemma upd_Q b s f : (forall c, c_pend (f c) = c_pend c) -> bQ b -> bQ (upd_client b s f).
Proof.
  intros Hf Hb s0 c0 Hin r Hr. apply upd_client_in in Hin. destruct Hin as [c1 [Hin1 Hc]].
  destruct (s0 =? s); subst c0; [rewrite Hf in Hr|]; apply (Hb s0 c1 Hin1 r Hr).
Qed.
Lemma same_clients_Q b b' : b_clients b' = b_clients b -> bQ b -> bQ b'.
Proof. unfold bQ. intros ->. trivial. Qed.

Lemma expunge_loop_Q ps : forall b i, bQ b -> bQ (fst (expunge_loop b ps i)) /\ notes_only (snd (expunge_loop b ps i)).
Proof.
  induction ps as [|p ps IH]; intros b i Hb; cbn [expunge_loop]; [split; [exact Hb|apply notes_nil]|].
  match goal with |- context [dispatch ?B ?D ?R] => destruct (dispatch_Q B D R) as [D1 D2];
    [intros r [<-|[]]; reflexivity|apply (same_clients_Q b); [reflexivity|exact Hb]|destruct (dispatch B D R) as [b2 o]] end.
  cbn [fst snd] in *. destruct (IH b2 i D1) as [I1 I2]. destruct (expunge_loop b2 ps i) as [b3 o']. cbn [fst snd] in *.
  split; [exact I1|apply notes_app; trivial].
Qed.

Lemma wQ_set w n b : wQ w -> bQ b -> wQ (set_box w n b).
Proof. intros Hw Hb n' b' H. rewrite get_set_box in H. destruct (String.eqb n' n); [inversion H; subst; exact Hb|apply (Hw _ _ H)]. Qed.

Lemma in_mbox_once w s k :
  (forall n b, get_box w n = Some b -> answered_once s (snd (k n b))) -> answered_once s (snd (in_mbox w s k)).
Proof.
  intros H. unfold in_mbox. destruct (sel w s) as [n|]; [|apply once_single; reflexivity].
  destruct (get_box w n) as [b|] eqn:E; [apply H; exact E|apply once_single; reflexivity].
Qed.

Ltac pairQ L b o H1 H2 := destruct L as [H1 H2]; [try assumption..|]; match type of H1 with bQ (fst ?t) => destruct t as [b o] end; cbn [fst snd] in H1, H2.
