(* Proofs/PhasesTie2.v — the world after an atomic FETCH/STORE/SEARCH of Model/Mbox.v is the world after `arrive`
   followed at once by `execute` (Model/Phases.v): equal when the command is carried out or refused, and - when the
   message set is out of range (BAD) - equal up to the second flush of a queue that is already empty, which leaves
   every message, counter and session entry as it was. *)
From Asimap Require Import Base.Res Spec.SetSem Model.Mbox Model.Phases Proofs.MboxInv Proofs.MboxStep Proofs.MboxOut Proofs.PhasesTie.
Open Scope Z_scope.

Lemma alist_set_twice {V} (l : list (string * V)) k a b : alist_set (alist_set l k a) k b = alist_set l k b.
Proof.
  induction l as [|[k' v] l IH]; cbn [alist_set]; [rewrite String.eqb_refl; reflexivity|].
  destruct (String.eqb k k') eqn:E; cbn [alist_set]; [rewrite String.eqb_refl; reflexivity|].
  rewrite E, IH. reflexivity.
Qed.
Lemma set_box_twice w n a b : set_box (set_box w n a) n b = set_box w n b.
Proof. unfold set_box. cbn [w_boxes w_vv w_pack_size w_pack_num w_pack_den]. rewrite alist_set_twice. reflexivity. Qed.

(* what the two worlds may differ in: nothing a session or a later step can observe *)
Definition box_same (a b : mbox) : Prop :=
  b_msgs a = b_msgs b /\ b_next a = b_next b /\ b_vv a = b_vv b /\ b_disk a = b_disk b /\
  forall s, get_client a s = get_client b s.
Definition world_same (a b : world) : Prop :=
  w_vv a = w_vv b /\ forall n, match get_box a n, get_box b n with
                               | Some x, Some y => box_same x y
                               | None, None => True
                               | _, _ => False
                               end.
Lemma box_same_refl b : box_same b b.
Proof. repeat split. Qed.
Lemma world_same_refl w : world_same w w.
Proof. split; [reflexivity|]. intros n. destruct (get_box w n); [apply box_same_refl|exact I]. Qed.

Lemma clear_deliver_nil c : c_pend c = [] -> clear_pend (deliver c []) = c.
Proof. intros H. destruct c as [i e p v o]. cbn in H. subst p. reflexivity. Qed.

Lemma zget_upd_other {V} (l : list (Z * V)) s s' (f : V -> V) :
  s' <> s -> zalist_get (map (fun p => if fst p =? s then (fst p, f (snd p)) else p) l) s' = zalist_get l s'.
Proof.
  intros Hne. induction l as [|[k x] l IH]; cbn [zalist_get map fst snd]; [reflexivity|].
  destruct (k =? s) eqn:E; cbn [zalist_get].
  - apply Z.eqb_eq in E. subst k. destruct (s' =? s) eqn:E2; [apply Z.eqb_eq in E2; congruence|exact IH].
  - destruct (s' =? k); [reflexivity|exact IH].
Qed.

(* flushing a queue that is empty changes no session's entry *)
Lemma flush_clean_same b s c : get_client b s = Some c -> c_pend c = [] -> box_same (fst (flush b s)) b.
Proof.
  intros G P. unfold flush. rewrite G. unfold flush1. cbn [fst]. rewrite P.
  repeat split. intros s'. unfold get_client, upd_client. cbn [set_clients b_clients].
  destruct (Z.eq_dec s' s) as [->|Hne].
  - rewrite (zget_upd (b_clients b) s (fun _ => clear_pend (deliver c [])) c G).
    rewrite (clear_deliver_nil c P). symmetry. exact G.
  - apply (zget_upd_other (b_clients b) s s' (fun _ => clear_pend (deliver c []))). exact Hne.
Qed.

Lemma world_same_set w n a b : box_same a b -> world_same (set_box w n a) (set_box w n b).
Proof.
  intros H. split; [reflexivity|]. intros n'. rewrite !get_set_box.
  destruct (String.eqb n' n); [exact H|]. destruct (get_box w n'); [apply box_same_refl|exact I].
Qed.

Theorem step_world_is_arrive_then_execute w s c :
  winv w ->
  world_same (let '(w1, _, go) := arrive w s c in if go then fst (execute w1 s c) else w1)
             (fst (step w (to_op s c))).
Proof.
  intros Hw. unfold arrive. destruct c as [u st act silent flags|u st k|u flag]; cbn [to_op p_uid]; unfold step, in_mbox;
    destruct (sel w s) as [n|] eqn:Es; try apply world_same_refl;
    destruct (get_box w n) as [b|] eqn:Eb; try apply world_same_refl.
  - (* STORE *)
    destruct (get_client b s) as [cl|] eqn:Ec; [|apply world_same_refl].
    destruct (c_exam cl) eqn:Ex; [apply world_same_refl|].
    destruct (gate b s u true) as [[b0 o0]|] eqn:G; [|apply world_same_refl].
    pose proof (gate_true _ _ _ _ _ G) as Eb0. assert (Hb : boxinv b) by apply (Hw _ _ Eb).
    assert (Hk0 : keys b0 = keys b) by (subst b0; apply keys_flush).
    destruct (flush_issuer b s cl Ec) as [c0 [G0 [P0 [X0 _]]]]. rewrite <- Eb0 in G0.
    unfold execute, execute_gen, in_mbox.
    rewrite (sel_set_box w n b b0 s Eb Hk0), Es, get_set_box, String.eqb_refl, G0. cbv zeta. cbn [p_uid].
    rewrite (admit_set_w (set_box w n b0) w).
    destruct (admit_set w n b0 u st) as [[[b1a o1a] sl]|] eqn:A.
    + pose proof (admit_set_ok _ _ _ _ _ _ _ _ A) as E1. subst b0.
      pose proof (second_gate_passes b s u cl (proj1 Hb) Ec) as G2. cbv zeta in G2. rewrite <- E1 in G2. rewrite G2.
      destruct (flush b1a s) as [b1 o1b]. unfold store_body.
      destruct (smem "\Recent" flags || existsb reserved_kw flags); [cbn [fst]; rewrite set_box_twice; apply world_same_refl|].
      match goal with |- context [dispatch ?B ?D ?R] => destruct (dispatch B D R) as [b3 o2] end.
      cbn [fst]. rewrite set_box_twice. apply world_same_refl.
    + destruct (flush_issuer b0 s c0 G0) as [c1 [G1 [P1 _]]].
      rewrite (gate_passes b0 s u c0 G0) by (unfold pending_expunges; rewrite P0; reflexivity).
      destruct (flush b0 s) as [b0' ox] eqn:Ef. cbn [fst]. rewrite set_box_twice.
      apply world_same_set. replace b0' with (fst (flush b0 s)) by (rewrite Ef; reflexivity).
      apply (flush_clean_same b0 s c0 G0 P0).
  - (* FETCH *)
    destruct (get_client b s) as [cl|] eqn:Ec; [|apply world_same_refl].
    destruct (gate b s u true) as [[b0 o0]|] eqn:G; [|apply world_same_refl].
    pose proof (gate_true _ _ _ _ _ G) as Eb0. assert (Hb : boxinv b) by apply (Hw _ _ Eb).
    assert (Hk0 : keys b0 = keys b) by (subst b0; apply keys_flush).
    destruct (flush_issuer b s cl Ec) as [c0 [G0 [P0 [X0 _]]]]. rewrite <- Eb0 in G0.
    unfold execute, execute_gen, in_mbox.
    rewrite (sel_set_box w n b b0 s Eb Hk0), Es, get_set_box, String.eqb_refl, G0. cbv zeta. cbn [p_uid].
    rewrite (admit_set_w (set_box w n b0) w).
    destruct (admit_set w n b0 u st) as [[[b1a o1a] sl]|] eqn:A.
    + pose proof (admit_set_ok _ _ _ _ _ _ _ _ A) as E1. subst b0.
      pose proof (second_gate_passes b s u cl (proj1 Hb) Ec) as G2. cbv zeta in G2. rewrite <- E1 in G2. rewrite G2.
      destruct (flush b1a s) as [b1 o1b]. unfold fetch_body, fetch_items, fetch_touch, fetch_changed. rewrite X0.
      match goal with |- context [dispatch ?B ?D ?R] => destruct (dispatch B D R) as [b3 o2] end.
      destruct (flush b3 s) as [b4 o3]. cbn [fst]. rewrite set_box_twice. apply world_same_refl.
    + rewrite (gate_passes b0 s u c0 G0) by (unfold pending_expunges; rewrite P0; reflexivity).
      destruct (flush b0 s) as [b0' ox] eqn:Ef. cbn [fst]. rewrite set_box_twice.
      apply world_same_set. replace b0' with (fst (flush b0 s)) by (rewrite Ef; reflexivity).
      apply (flush_clean_same b0 s c0 G0 P0).
  - (* SEARCH *)
    destruct (get_client b s) as [cl|] eqn:Ec.
    2:{ unfold gate. rewrite Ec. apply world_same_refl. }
    destruct (gate b s u true) as [[b0 o0]|] eqn:G; [|apply world_same_refl].
    pose proof (gate_true _ _ _ _ _ G) as Eb0. assert (Hb : boxinv b) by apply (Hw _ _ Eb).
    assert (Hk0 : keys b0 = keys b) by (subst b0; apply keys_flush).
    destruct (flush_issuer b s cl Ec) as [c0 [G0 [P0 [X0 _]]]]. rewrite <- Eb0 in G0.
    unfold execute, execute_gen, in_mbox.
    rewrite (sel_set_box w n b b0 s Eb Hk0), Es, get_set_box, String.eqb_refl, G0. cbv zeta. cbn [p_uid].
    rewrite !admit_is_resync. destruct (resync b0) as [b1a o1a] eqn:E1.
    assert (E1' : b1a = fst (resync b0)) by (rewrite E1; reflexivity). subst b0.
    pose proof (second_gate_passes b s u cl (proj1 Hb) Ec) as G2. cbv zeta in G2. rewrite <- E1' in G2. rewrite G2.
    destruct (flush b1a s) as [b1 o1b]. unfold search_body. cbn [fst]. rewrite set_box_twice. apply world_same_refl.
Qed.
