(* Proofs/CodecTextP.v — the persisted text round-trips: expand_text (compact_text l) = Some l for
   every strictly ascending list of non-negative integers, and what compact_text writes is
   canonical (C12, C02). *)
From Asimap Require Import Base.Res Base.Bytes Model.Lex Spec.Grammar Model.Codec Model.CodecText Proofs.LexP Proofs.CodecP.
From Coq Require Import Sorting.Sorted Lia ZArith List Bool.
Open Scope Z_scope.

(* ------------------------------------------------------------------ sorted() *)
Lemma zins_sorted_head x l : Forall (fun y => x < y) l -> zins x l = x :: l.
Proof.
  destruct l as [|y l]; [reflexivity|]. intros H. cbn [zins].
  apply Forall_inv in H. destruct (Z.leb_spec x y); [reflexivity|lia].
Qed.
Lemma zsort_sorted l : StronglySorted Z.lt l -> zsort l = l.
Proof.
  induction 1 as [|x l Hs IH Hx]; [reflexivity|].
  unfold zsort in *. cbn [fold_right]. rewrite IH. apply zins_sorted_head. exact Hx.
Qed.

(* ------------------------------------------------------------------ split / join *)
Definition no_sep (sep : Z) (p : list Z) : Prop := Forall (fun c => c <> sep) p.

Lemma split1_nonempty sep l : split1 sep l <> [].
Proof.
  destruct l as [|x l]; [discriminate|]. cbn [split1].
  destruct (x =? sep); [discriminate|]. destruct (split1 sep l); discriminate.
Qed.
Lemma split1_nosep sep p : no_sep sep p -> split1 sep p = [p].
Proof.
  induction 1 as [|x p Hx Hp IH]; [reflexivity|]. cbn [split1].
  destruct (Z.eqb_spec x sep) as [E|_]; [contradiction|]. rewrite IH. reflexivity.
Qed.
Lemma split1_app sep p rest : no_sep sep p -> split1 sep (p ++ sep :: rest) = p :: split1 sep rest.
Proof.
  induction 1 as [|x p Hx Hp IH]; cbn [app split1].
  - rewrite Z.eqb_refl. reflexivity.
  - destruct (Z.eqb_spec x sep) as [E|_]; [contradiction|]. rewrite IH. reflexivity.
Qed.
Lemma split1_join sep parts : parts <> [] -> Forall (no_sep sep) parts ->
  split1 sep (bytes_join [sep] parts) = parts.
Proof.
  induction parts as [|p parts IH]; [intros H; contradiction|]. intros _ Hall.
  pose proof (Forall_inv Hall) as Hp. pose proof (Forall_inv_tail Hall) as Hrest.
  destruct parts as [|q parts].
  - cbn [bytes_join]. apply split1_nosep. exact Hp.
  - change (bytes_join [sep] (p :: q :: parts)) with (p ++ [sep] ++ bytes_join [sep] (q :: parts)).
    cbn [app]. rewrite split1_app by exact Hp. rewrite IH; [reflexivity|discriminate|exact Hrest].
Qed.

(* ------------------------------------------------------------------ decimal numbers *)
Lemma digits_no_sep sep ds : is_digit sep = false -> forallb is_digit ds = true -> no_sep sep ds.
Proof.
  intros Hs. induction ds as [|d ds IH]; [constructor|]. cbn [forallb]. intros H.
  apply andb_true_iff in H as [Hd Hr]. constructor; [|apply IH; exact Hr].
  intros E. subst d. rewrite Hs in Hd. discriminate.
Qed.
Lemma all_digits_number n : 0 <= n -> all_digits (r_number n) = true.
Proof.
  intros H. unfold all_digits. pose proof (r_number_nonempty n) as Hne.
  destruct (r_number n) eqn:E; [contradiction|]. rewrite <- E. apply r_number_digits. exact H.
Qed.
Lemma py_int_number n : 0 <= n -> py_int (r_number n) = Some n.
Proof. intros H. unfold py_int. rewrite all_digits_number, r_number_val by exact H. reflexivity. Qed.
Lemma all_digits_app_dash a b : all_digits (a ++ DASH :: b) = false.
Proof.
  unfold all_digits. destruct (a ++ DASH :: b) eqn:E; [reflexivity|]. rewrite <- E.
  rewrite forallb_app. cbn [forallb]. replace (is_digit DASH) with false by reflexivity.
  cbn [andb]. apply andb_false_r.
Qed.

(* ------------------------------------------------------------------ one spec *)
Definition run_ok (r : Z * Z) : Prop := 0 <= fst r /\ fst r <= snd r.

Lemma spec_keys_as_range r : run_ok r -> spec_keys (as_range r) = Some (py_range (fst r) (snd r + 1)).
Proof.
  intros [H0 Hle]. unfold as_range. destruct (Z.eqb_spec (fst r) (snd r)) as [E|NE].
  - unfold spec_keys. rewrite all_digits_number by exact H0. rewrite r_number_val by exact H0.
    rewrite <- E. rewrite py_range_one. reflexivity.
  - unfold spec_keys. cbn [app]. rewrite all_digits_app_dash.
    rewrite split1_app by (apply digits_no_sep; [reflexivity|apply r_number_digits; exact H0]).
    rewrite split1_nosep by (apply digits_no_sep; [reflexivity|apply r_number_digits; lia]).
    rewrite !py_int_number by lia. reflexivity.
Qed.

Lemma as_range_no_comma r : run_ok r -> no_sep COMMA (as_range r).
Proof.
  intros [H0 Hle]. unfold as_range, no_sep.
  assert (Hd : forall n, 0 <= n -> Forall (fun c => c <> COMMA) (r_number n))
    by (intros n Hn; apply (digits_no_sep COMMA); [reflexivity|apply r_number_digits; exact Hn]).
  destruct (fst r =? snd r); [apply Hd; exact H0|].
  apply Forall_app. split; [apply Hd; exact H0|]. cbn [app]. constructor; [discriminate|apply Hd; lia].
Qed.

Lemma collect_runs rs : Forall run_ok rs ->
  collect (map as_range rs) = Some (flat_map (fun r => py_range (fst r) (snd r + 1)) rs).
Proof.
  induction 1 as [|r rs Hr Hrs IH]; [reflexivity|].
  cbn [map collect flat_map]. rewrite spec_keys_as_range by exact Hr. rewrite IH. reflexivity.
Qed.

(* ------------------------------------------------------------------ the runs of a list of non-negative keys *)
Lemma compact_aux_ok l : forall start prev, 0 <= start -> start <= prev -> Forall (fun x => 0 <= x) l ->
  Forall run_ok (compact_aux l start prev).
Proof.
  induction l as [|x l IH]; intros start prev H0 Hle Hl; cbn [compact_aux].
  - constructor; [split; assumption|constructor].
  - pose proof (Forall_inv Hl) as Hx. pose proof (Forall_inv_tail Hl) as Hl'.
    destruct (x =? prev + 1) eqn:E.
    + apply IH; [exact H0|apply Z.eqb_eq in E; lia|exact Hl'].
    + constructor; [split; assumption|]. apply IH; [exact Hx|lia|exact Hl'].
Qed.
Lemma compact_runs_ok l : Forall (fun x => 0 <= x) l -> Forall run_ok (compact_runs l).
Proof.
  destruct l as [|x l]; [constructor|]. intros H. unfold compact_runs.
  apply compact_aux_ok; [exact (Forall_inv H)|lia|exact (Forall_inv_tail H)].
Qed.
Lemma compact_aux_nonempty l : forall start prev, compact_aux l start prev <> [].
Proof.
  induction l as [|y l IH]; intros start prev; cbn [compact_aux]; [discriminate|].
  destruct (y =? prev + 1); [apply IH|discriminate].
Qed.
Lemma compact_runs_nonempty x l : compact_runs (x :: l) <> [].
Proof. unfold compact_runs. apply compact_aux_nonempty. Qed.

(* the text of a non-empty list starts with a digit, so it is not blank *)
Lemma is_space_digit c : is_digit c = true -> is_space c = false.
Proof. intros H. unfold is_space. zb. zbool. zchar. Qed.
Lemma r_number_head n : 0 <= n -> exists d t, r_number n = d :: t /\ is_digit d = true.
Proof.
  intros H. pose proof (r_number_nonempty n) as Hne. pose proof (r_number_digits n H) as Hd.
  destruct (r_number n) as [|d t]; [contradiction|]. exists d, t. split; [reflexivity|].
  cbn [forallb] in Hd. apply andb_true_iff in Hd. apply Hd.
Qed.
Lemma as_range_head r : run_ok r -> exists d t, as_range r = d :: t /\ is_digit d = true.
Proof.
  intros [H0 _]. unfold as_range. destruct (r_number_head (fst r) H0) as [d [t [E Hd]]].
  destruct (fst r =? snd r); rewrite E; [exists d, t|exists d, (t ++ [DASH] ++ r_number (snd r))]; split; auto.
Qed.
Lemma join_not_blank rs : rs <> [] -> Forall run_ok rs -> blank (bytes_join [COMMA] (map as_range rs)) = false.
Proof.
  destruct rs as [|r rs]; [intros H; contradiction|]. intros _ H.
  destruct (as_range_head r (Forall_inv H)) as [d [t [E Hd]]].
  assert (Hs : exists t', bytes_join [COMMA] (map as_range (r :: rs)) = d :: t').
  { cbn [map]. destruct (map as_range rs) as [|q qs]; cbn [bytes_join]; rewrite E; eexists; reflexivity. }
  destruct Hs as [t' Ht]. rewrite Ht. unfold blank. cbn [forallb]. rewrite is_space_digit by exact Hd. reflexivity.
Qed.

(* ------------------------------------------------------------------ the round trip *)
Theorem expand_compact_text l : StronglySorted Z.lt l -> Forall (fun x => 0 <= x) l ->
  expand_text (compact_text l) = Some l.
Proof.
  intros Hs Hn. unfold compact_text. rewrite zsort_sorted by exact Hs.
  destruct l as [|x l]; [reflexivity|].
  pose proof (compact_runs_ok (x :: l) Hn) as Hok.
  pose proof (compact_runs_nonempty x l) as Hne.
  unfold expand_text. rewrite join_not_blank by assumption.
  rewrite split1_join.
  - rewrite collect_runs by exact Hok. f_equal. apply (expand_compact (x :: l)). exact Hs.
  - destruct (compact_runs (x :: l)); [contradiction|discriminate].
  - apply Forall_forall. intros p Hp. apply in_map_iff in Hp as [r [<- Hr]].
    apply as_range_no_comma. rewrite Forall_forall in Hok. apply Hok. exact Hr.
Qed.

(* nothing is lost whatever the order in which the keys are handed over: compact_sequence sorts *)
Lemma zins_perm_sorted x l : StronglySorted Z.le l -> StronglySorted Z.le (zins x l).
Proof.
  induction 1 as [|y l Hs IH Hy]; cbn [zins]; [repeat constructor|].
  destruct (Z.leb_spec x y) as [Hle|Hgt].
  - constructor; [constructor; assumption|]. constructor; [exact Hle|].
    eapply Forall_impl; [|exact Hy]. intros a Ha. cbn in Ha. lia.
  - constructor; [exact IH|].
    assert (Hin : forall a, In a (zins x l) -> a = x \/ In a l).
    { clear. induction l as [|z l IH]; cbn [zins]; intros a Ha.
      - destruct Ha as [<-|[]]. left; reflexivity.
      - destruct (x <=? z); cbn [In] in *.
        + destruct Ha as [<-|Ha]; [left; reflexivity|right; exact Ha].
        + destruct Ha as [<-|Ha]; [right; left; reflexivity|]. destruct (IH a Ha) as [->|H]; [left; reflexivity|right; right; exact H]. }
    apply Forall_forall. intros a Ha. destruct (Hin a Ha) as [->|Hl]; [lia|].
    rewrite Forall_forall in Hy. apply Hy. exact Hl.
Qed.
Theorem zsort_ascending l : StronglySorted Z.le (zsort l).
Proof. induction l as [|x l IH]; [constructor|]. unfold zsort in *. cbn [fold_right]. apply zins_perm_sorted. exact IH. Qed.

(* what comes back from the persisted text is always a strictly ascending list *)
Theorem expand_text_sorted s l : expand_text s = Some l -> StronglySorted Z.lt l.
Proof.
  unfold expand_text. destruct (blank s); [intros H; injection H as <-; constructor|].
  destruct (collect (split1 COMMA s)) as [ks|]; [|discriminate].
  intros H; injection H as <-. apply sorted_set_sorted.
Qed.

(* two different lists never get the same text *)
Theorem compact_text_injective l1 l2 :
  StronglySorted Z.lt l1 -> Forall (fun x => 0 <= x) l1 ->
  StronglySorted Z.lt l2 -> Forall (fun x => 0 <= x) l2 ->
  compact_text l1 = compact_text l2 -> l1 = l2.
Proof.
  intros S1 N1 S2 N2 E. pose proof (expand_compact_text l1 S1 N1) as H1.
  rewrite E, (expand_compact_text l2 S2 N2) in H1. injection H1 as ->. reflexivity.
Qed.

(* the text holds nothing but digits, commas and dashes *)
Definition seq_char (c : Z) : bool := is_digit c || (c =? COMMA) || (c =? DASH).
Lemma seq_chars_number n : 0 <= n -> forallb seq_char (r_number n) = true.
Proof.
  intros H. pose proof (r_number_digits n H) as Hd. induction (r_number n) as [|d t IH]; [reflexivity|].
  cbn [forallb] in *. apply andb_true_iff in Hd as [Hd Ht]. unfold seq_char at 1. rewrite Hd. cbn [orb]. apply IH. exact Ht.
Qed.
Lemma seq_chars_range r : run_ok r -> forallb seq_char (as_range r) = true.
Proof.
  intros [H0 Hle]. unfold as_range. destruct (fst r =? snd r); [apply seq_chars_number; exact H0|].
  rewrite !forallb_app. rewrite !seq_chars_number by lia. reflexivity.
Qed.
Lemma seq_chars_join ps : Forall (fun p => forallb seq_char p = true) ps -> forallb seq_char (bytes_join [COMMA] ps) = true.
Proof.
  induction 1 as [|p ps Hp Hps IH]; [reflexivity|]. destruct ps as [|q ps]; [exact Hp|].
  change (bytes_join [COMMA] (p :: q :: ps)) with (p ++ [COMMA] ++ bytes_join [COMMA] (q :: ps)).
  rewrite !forallb_app, Hp, IH. reflexivity.
Qed.
Theorem compact_text_alphabet l : Forall (fun x => 0 <= x) l -> StronglySorted Z.lt l ->
  forallb seq_char (compact_text l) = true.
Proof.
  intros Hn Hs. unfold compact_text. rewrite zsort_sorted by exact Hs. apply seq_chars_join.
  apply Forall_forall. intros p Hp. apply in_map_iff in Hp as [r [<- Hr]]. apply seq_chars_range.
  pose proof (compact_runs_ok l Hn) as Hok. rewrite Forall_forall in Hok. apply Hok. exact Hr.
Qed.

(* whatever order (and however often) the keys are handed over, what comes back is their set, ascending *)
Lemma in_zins x l a : In a (zins x l) <-> a = x \/ In a l.
Proof.
  induction l as [|y l IH]; cbn [zins]; [cbn; intuition|].
  destruct (x <=? y); cbn [In]; [intuition|]. rewrite IH. intuition.
Qed.
Lemma in_zsort l a : In a (zsort l) <-> In a l.
Proof.
  induction l as [|x l IH]; [reflexivity|]. unfold zsort in *. cbn [fold_right]. rewrite in_zins, IH. cbn [In]. intuition.
Qed.
Lemma zsort_nonneg l : Forall (fun x => 0 <= x) l -> Forall (fun x => 0 <= x) (zsort l).
Proof. rewrite !Forall_forall. intros H x Hx. apply H. apply in_zsort. exact Hx. Qed.

Theorem expand_compact_text_any l : Forall (fun x => 0 <= x) l ->
  expand_text (compact_text l) = Some (sorted_set l).
Proof.
  intros Hn. unfold compact_text.
  assert (Hset : sorted_set (zsort l) = sorted_set l).
  { apply sorted_ext; [apply sorted_set_sorted|apply sorted_set_sorted|]. intros a. rewrite !in_sorted_set. apply in_zsort. }
  pose proof (zsort_nonneg l Hn) as Hn'. destruct (zsort l) as [|x l'] eqn:E.
  - destruct l as [|y l]; [reflexivity|]. exfalso. assert (In y []) by (rewrite <- E; apply in_zsort; left; reflexivity). contradiction.
  - rewrite <- Hset.
    pose proof (compact_runs_ok (x :: l') Hn') as Hok. pose proof (compact_runs_nonempty x l') as Hne.
    unfold expand_text. rewrite join_not_blank by assumption. rewrite split1_join.
    + rewrite collect_runs by exact Hok. rewrite flat_compact. reflexivity.
    + destruct (compact_runs (x :: l')); [contradiction|discriminate].
    + apply Forall_forall. intros p Hp. apply in_map_iff in Hp as [r [<- Hr]].
      apply as_range_no_comma. rewrite Forall_forall in Hok. apply Hok. exact Hr.
Qed.
