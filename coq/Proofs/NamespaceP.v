(* Proofs/NamespaceP.v — proofs for property C17 (statements collected in Properties/C17.v).
   A  the wildcard matcher is RFC 3501's relation (also ignoring case, for INBOX)
   B  names: equality tests, prefixes, the flat form is injective
   C  the invariant of the mailboxes table over all histories
   D  the table refines the reference tree (Spec/NsSpec.v), command by command
   E  LIST / LSUB, \HasChildren, \Noselect, RENAME, INBOX, refused commands *)
From Coq Require Import List Ascii String Bool ZArith Lia Arith.
From Asimap Require Import Spec.NsSpec Model.Glob Model.Namespace.
Import ListNotations.
Open Scope Z_scope.

(* ================================================================== A  the matcher *)
Lemma ascii_eqb_true a b : Ascii.eqb a b = true <-> a = b.
Proof. apply Ascii.eqb_eq. Qed.
Lemma ascii_eqb_false a b : Ascii.eqb a b = false <-> a <> b.
Proof. apply Ascii.eqb_neq. Qed.

Lemma any_tail_spec f n : any_tail f n = true <-> exists n1 n2, n = n1 ++ n2 /\ f n2 = true.
Proof.
  induction n as [|x n IH]; cbn [any_tail].
  - rewrite orb_false_r. split.
    + intros H; exists [], []; auto.
    + intros (n1 & n2 & E & H). symmetry in E; apply app_eq_nil in E as [-> ->]; exact H.
  - rewrite orb_true_iff, IH. split.
    + intros [H|(n1 & n2 & -> & H)]; [exists [], (x :: n); auto|exists (x :: n1), n2; auto].
    + intros (n1 & n2 & E & H). destruct n1 as [|y n1]; cbn in E.
      * subst n2; left; exact H.
      * injection E as -> ->. right; exists n1, n2; auto.
Qed.

Lemma seg_tail_spec f n :
  seg_tail f n = true <-> exists n1 n2, n = n1 ++ n2 /\ ~ In c_slash n1 /\ f n2 = true.
Proof.
  induction n as [|x n IH]; cbn [seg_tail].
  - rewrite orb_false_r. split.
    + intros H; exists [], []; cbn; auto.
    + intros (n1 & n2 & E & _ & H). symmetry in E; apply app_eq_nil in E as [-> ->]; exact H.
  - rewrite orb_true_iff, andb_true_iff, negb_true_iff, ascii_eqb_false, IH. split.
    + intros [H|(Hx & n1 & n2 & -> & Hn & H)].
      * exists [], (x :: n); cbn; auto.
      * exists (x :: n1), n2; cbn; repeat split; auto. intros [E|E]; [congruence|auto].
    + intros (n1 & n2 & E & Hn & H). destruct n1 as [|y n1]; cbn in E.
      * subst n2; left; exact H.
      * injection E as -> ->. right. split; [intros ->; apply Hn; left; reflexivity|].
        exists n1, n2; repeat split; auto. intros Hi; apply Hn; right; exact Hi.
Qed.

Lemma tok_of_star : tok_of c_star = RAny. Proof. reflexivity. Qed.
Lemma tok_of_pct : tok_of c_pct = RSeg. Proof. reflexivity. Qed.
Lemma tok_of_lit c : c <> c_star -> c <> c_pct -> tok_of c = RLit c.
Proof.
  intros H1 H2. unfold tok_of.
  apply ascii_eqb_false in H1, H2. rewrite H1, H2. reflexivity.
Qed.

Lemma matches_star_inv p n : matches (c_star :: p) n -> exists n1 n2, n = n1 ++ n2 /\ matches p n2.
Proof.
  intros H; inversion H; subst.
  - exfalso; auto.
  - eauto.
Qed.
Lemma matches_pct_inv p n :
  matches (c_pct :: p) n -> exists n1 n2, n = n1 ++ n2 /\ ~ In c_slash n1 /\ matches p n2.
Proof.
  intros H; inversion H; subst.
  - exfalso; auto.
  - eauto.
Qed.
Lemma matches_lit_inv c p n : c <> c_star -> c <> c_pct ->
  matches (c :: p) n -> exists n', n = c :: n' /\ matches p n'.
Proof.
  intros H1 H2 H; inversion H; subst; try (exfalso; auto; fail). eauto.
Qed.

Theorem glob_correct : forall p n, glob p n = true <-> matches p n.
Proof.
  unfold glob, pattern_to_re. induction p as [|c p IH]; intros n; cbn [map re_match].
  - destruct n; split; intros H; try discriminate; try constructor. inversion H.
  - destruct (ascii_dec c c_star) as [->|Hs].
    + rewrite tok_of_star, any_tail_spec. split.
      * intros (n1 & n2 & -> & H). apply M_star, IH, H.
      * intros H; apply matches_star_inv in H as (n1 & n2 & -> & H). exists n1, n2; split; auto. apply IH, H.
    + destruct (ascii_dec c c_pct) as [->|Hp].
      * rewrite tok_of_pct, seg_tail_spec. split.
        -- intros (n1 & n2 & -> & Hn & H). apply M_pct; [exact Hn|apply IH, H].
        -- intros H; apply matches_pct_inv in H as (n1 & n2 & -> & Hn & H).
           exists n1, n2; repeat split; auto. apply IH, H.
      * rewrite (tok_of_lit c Hs Hp). destruct n as [|x n].
        -- split; [discriminate|]. intros H; apply matches_lit_inv in H as (n' & E & _); auto; discriminate.
        -- rewrite andb_true_iff, ascii_eqb_true, IH. split.
           ++ intros [-> H]; apply M_lit; auto.
           ++ intros H; apply matches_lit_inv in H as (n' & E & H); auto. injection E as -> ->; auto.
Qed.

(* ---- ignoring case *)
Lemma lower_ascii_special c k : In k [c_star; c_pct; c_slash] -> (lower_ascii c = k <-> c = k).
Proof.
  intros Hk.
  assert (Hfix : lower_ascii k = k) by (destruct Hk as [<-|[<-|[<-|[]]]]; reflexivity).
  split; [|intros ->; exact Hfix].
  destruct c as [[] [] [] [] [] [] [] []]; destruct Hk as [<-|[<-|[<-|[]]]];
    vm_compute; intros E; try reflexivity; discriminate E.
Qed.
Lemma lower_ascii_idem c : lower_ascii (lower_ascii c) = lower_ascii c.
Proof. destruct c as [[] [] [] [] [] [] [] []]; vm_compute; reflexivity. Qed.

Lemma lower_app a b : lower (a ++ b) = lower a ++ lower b.
Proof. apply map_app. Qed.
Lemma lower_slash n : In c_slash (lower n) <-> In c_slash n.
Proof.
  unfold lower; rewrite in_map_iff. split.
  - intros (x & E & H). apply (proj1 (lower_ascii_special x c_slash ltac:(cbn; auto))) in E. subst; exact H.
  - intros H; exists c_slash; split; [reflexivity|exact H].
Qed.

Lemma matches_lower p n : matches p n -> matches (lower p) (lower n).
Proof.
  induction 1 as [|c p n H1 H2 H IH|p n1 n2 H IH|p n1 n2 Hn H IH]; cbn [lower map].
  - constructor.
  - apply M_lit; [| |exact IH].
    + intros E; apply (proj1 (lower_ascii_special c c_star ltac:(cbn; auto))) in E; auto.
    + intros E; apply (proj1 (lower_ascii_special c c_pct ltac:(cbn; auto))) in E; auto.
  - fold (lower (n1 ++ n2)). rewrite lower_app. apply (M_star (lower p)), IH.
  - fold (lower (n1 ++ n2)). rewrite lower_app. apply (M_pct (lower p)); [|exact IH].
    rewrite lower_slash; exact Hn.
Qed.

Lemma app_eq_length {A} (a b c d : list A) :
  a ++ b = c ++ d -> List.length a = List.length c -> a = c /\ b = d.
Proof.
  revert c; induction a as [|x a IH]; intros [|y c] E L; cbn in *; try discriminate; auto.
  injection E as -> E. injection L as L. destruct (IH c E L) as [-> ->]; auto.
Qed.
Lemma lower_fix_app a b : lower (a ++ b) = a ++ b -> lower a = a /\ lower b = b.
Proof.
  rewrite lower_app. intros E. apply app_eq_length in E; [exact E|]. unfold lower; apply map_length.
Qed.

Lemma matches_unlower : forall p m, matches (lower p) m -> lower m = m ->
  exists s, lower s = m /\ matches p s.
Proof.
  induction p as [|c p IH]; intros m H Hm; cbn [lower map] in H.
  - inversion H; subst. exists []; split; [reflexivity|constructor].
  - fold (lower p) in H. destruct (ascii_dec c c_star) as [->|Hs].
    + change (lower_ascii c_star) with c_star in H.
      apply matches_star_inv in H as (n1 & n2 & -> & H).
      apply lower_fix_app in Hm as [H1 H2]. destruct (IH n2 H H2) as (s2 & E2 & M2).
      exists (n1 ++ s2). rewrite lower_app, H1, E2. split; [reflexivity|apply M_star, M2].
    + destruct (ascii_dec c c_pct) as [->|Hp].
      * change (lower_ascii c_pct) with c_pct in H.
        apply matches_pct_inv in H as (n1 & n2 & -> & Hn & H).
        apply lower_fix_app in Hm as [H1 H2]. destruct (IH n2 H H2) as (s2 & E2 & M2).
        exists (n1 ++ s2). rewrite lower_app, H1, E2. split; [reflexivity|apply M_pct; auto].
      * apply matches_lit_inv in H as (m' & -> & H).
        -- cbn [lower map] in Hm. injection Hm as _ Hm. destruct (IH m' H Hm) as (s' & E' & M').
           exists (c :: s'). cbn [lower map]. fold (lower s'). rewrite E'. split; [reflexivity|apply M_lit; auto].
        -- intros E; apply (proj1 (lower_ascii_special c c_star ltac:(cbn; auto))) in E; auto.
        -- intros E; apply (proj1 (lower_ascii_special c c_pct ltac:(cbn; auto))) in E; auto.
Qed.

(* the test the code makes for the row "inbox" is: the pattern matches INBOX in some spelling *)
Theorem glob_inbox_correct : forall ip,
  glob (lower ip) (la "inbox") = true <-> exists s, lower s = la "inbox" /\ matches ip s.
Proof.
  intros ip. rewrite glob_correct. split.
  - intros H. apply matches_unlower in H; [exact H|reflexivity].
  - intros (s & E & H). rewrite <- E. apply matches_lower, H.
Qed.

(* ================================================================== B  names *)
Lemma ceqb_eq a b : ceqb a b = true <-> a = b.
Proof.
  revert b; induction a as [|x a IH]; intros [|y b]; cbn [ceqb]; split; intros H; try discriminate; auto.
  - apply andb_true_iff in H as [H1 H2]. apply ascii_eqb_true in H1. apply IH in H2. congruence.
  - injection H as -> ->. apply andb_true_iff; split; [apply ascii_eqb_true; reflexivity|apply IH; reflexivity].
Qed.
Lemma neqb_eq a b : neqb a b = true <-> a = b.
Proof.
  revert b; induction a as [|x a IH]; intros [|y b]; cbn [neqb]; split; intros H; try discriminate; auto.
  - apply andb_true_iff in H as [H1 H2]. apply ceqb_eq in H1. apply IH in H2. congruence.
  - injection H as -> ->. apply andb_true_iff; split; [apply ceqb_eq; reflexivity|apply IH; reflexivity].
Qed.
Lemma neqb_refl a : neqb a a = true.
Proof. apply neqb_eq; reflexivity. Qed.
Lemma neqb_neq a b : neqb a b = false <-> a <> b.
Proof.
  split.
  - intros H E; apply neqb_eq in E; congruence.
  - intros H; destruct (neqb a b) eqn:E; [apply neqb_eq in E; contradiction|reflexivity].
Qed.
Lemma name_dec (a b : name) : {a = b} + {a <> b}.
Proof. destruct (neqb a b) eqn:E; [left; apply neqb_eq, E|right; apply neqb_neq, E]. Qed.

Lemma is_prefix_spec a m : is_prefix a m = true <-> exists s, m = a ++ s.
Proof.
  revert m; induction a as [|x a IH]; intros m; cbn [is_prefix].
  - split; [intros _; exists m; reflexivity|auto].
  - destruct m as [|y m].
    + split; [discriminate|intros (s & E); discriminate].
    + rewrite andb_true_iff, ceqb_eq, IH. split.
      * intros (-> & s & ->). exists s; reflexivity.
      * intros (s & E). injection E as -> ->. split; [reflexivity|exists s; reflexivity].
Qed.

Lemma belowb_spec a m : belowb a m = true <-> below a m.
Proof.
  unfold belowb, below. rewrite andb_true_iff, is_prefix_spec, Nat.ltb_lt. split.
  - intros ((s & ->) & L). exists s; split; [|reflexivity]. intros ->. rewrite app_nil_r in L; lia.
  - intros (s & Hs & ->). split; [exists s; reflexivity|].
    rewrite app_length. destruct s; [contradiction|cbn; lia].
Qed.

Lemma in_inits p n : In p (inits n) <-> on_path p n.
Proof.
  unfold on_path. revert p; induction n as [|c n IH]; intros p; cbn [inits In].
  - split; [contradiction|]. intros (Hp & s & E). symmetry in E; apply app_eq_nil in E as [-> _]; contradiction.
  - rewrite in_map_iff. split.
    + intros [<-|(q & <- & Hq)].
      * split; [discriminate|exists n; reflexivity].
      * apply IH in Hq as (_ & s & ->). split; [discriminate|exists s; reflexivity].
    + intros (Hp & s & E). destruct p as [|x p]; [contradiction|]. injection E as -> E.
      destruct p as [|y p]; [left; reflexivity|right].
      exists (y :: p); split; [reflexivity|]. apply IH. split; [discriminate|exists s; exact E].
Qed.

Lemma on_path_refl n : n <> [] -> on_path n n.
Proof. intros H; split; [exact H|exists []; symmetry; apply app_nil_r]. Qed.
Lemma on_path_trans a b c : on_path a b -> on_path b c -> on_path a c.
Proof.
  intros (Ha & s & ->) (_ & t & ->). split; [exact Ha|exists (s ++ t); symmetry; apply app_assoc].
Qed.

(* ---- the flat form *)
Definition comp_ok (c : comp) : Prop := c <> [] /\ ~ In c_slash c.

Lemma split_at_slash (a b u v : list ascii) :
  ~ In c_slash a -> ~ In c_slash b -> a ++ c_slash :: u = b ++ c_slash :: v -> a = b /\ u = v.
Proof.
  revert b; induction a as [|x a IH]; intros [|y b] Ha Hb E; cbn in E.
  - injection E as ->; auto.
  - injection E as <- _. exfalso; apply Hb; left; reflexivity.
  - injection E as -> _. exfalso; apply Ha; left; reflexivity.
  - injection E as -> E. destruct (IH b) as [-> ->]; auto.
    + intros H; apply Ha; right; exact H.
    + intros H; apply Hb; right; exact H.
Qed.

Lemma flat_cons c r : flat (c :: r) = match r with [] => c | _ :: _ => c ++ c_slash :: flat r end.
Proof. reflexivity. Qed.

Lemma flat_inj : forall n1 n2, Forall comp_ok n1 -> Forall comp_ok n2 -> flat n1 = flat n2 -> n1 = n2.
Proof.
  induction n1 as [|c1 r1 IH]; intros [|c2 r2] H1 H2 E.
  - reflexivity.
  - inversion H2 as [|? ? [Hc _] _]; subst. rewrite flat_cons in E. cbn [flat] in E.
    destruct r2; [subst; contradiction|]. destruct c2; [contradiction|discriminate].
  - inversion H1 as [|? ? [Hc _] _]; subst. rewrite flat_cons in E. cbn [flat] in E.
    destruct r1; [subst; contradiction|]. destruct c1; [contradiction|discriminate].
  - inversion H1 as [|? ? [Hc1 Hs1] Hr1]; inversion H2 as [|? ? [Hc2 Hs2] Hr2]; subst.
    rewrite !flat_cons in E. destruct r1 as [|d1 r1], r2 as [|d2 r2].
    + subst; reflexivity.
    + exfalso; apply Hs1; subst c1. apply in_or_app; right; left; reflexivity.
    + exfalso; apply Hs2; subst c2. apply in_or_app; right; left; reflexivity.
    + apply split_at_slash in E as [-> E]; auto. f_equal. apply IH; auto.
Qed.

Lemma name_ok_comps n : name_ok n = true -> n <> [] /\ Forall comp_ok n.
Proof.
  unfold name_ok. rewrite !andb_true_iff. intros [[H1 H2] _]. split; [destruct n; [discriminate|discriminate]|].
  rewrite forallb_forall in H2. apply Forall_forall. intros c Hc. specialize (H2 c Hc).
  apply andb_true_iff in H2 as [Ha Hb]. split; [destruct c; [discriminate|discriminate]|].
  apply negb_true_iff in Hb. intros Hi.
  assert (Hx : existsb (Ascii.eqb c_slash) c = true); [|unfold c_slash in Hx; rewrite Hx in Hb; discriminate].
  apply existsb_exists. exists c_slash; split; [exact Hi|apply ascii_eqb_true; reflexivity].
Qed.

Lemma is_inbox_inbox : is_inbox inbox = true.
Proof. reflexivity. Qed.
Lemma is_inbox_single n : is_inbox n = true -> exists c, n = [c].
Proof. destruct n as [|c [|d r]]; cbn; try discriminate. eauto. Qed.
Lemma canon_not_inbox n : is_inbox n = false -> canon n = n.
Proof. unfold canon; intros ->; reflexivity. Qed.
Lemma canon_inbox n : is_inbox n = true -> canon n = inbox.
Proof. unfold canon; intros ->; reflexivity. Qed.

(* ================================================================== C  the table *)
Definition findr (l : list row) (n : name) : option row := find (fun r => neqb (r_name r) n) l.
Definition lnames (l : list row) : list name := map r_name l.
Definition names (st : state) : list name := lnames (rows st).

Lemma find_row_findr st n : find_row st n = findr (rows st) n.
Proof. reflexivity. Qed.

Lemma findr_some l n r : findr l n = Some r -> In r l /\ r_name r = n.
Proof. intros H; apply find_some in H as [H1 H2]. apply neqb_eq in H2; auto. Qed.
Lemma findr_none l n : findr l n = None <-> ~ In n (lnames l).
Proof.
  unfold findr, lnames. split.
  - intros H Hi. apply in_map_iff in Hi as (r & E & Hr).
    pose proof (find_none _ _ H r Hr) as F. cbn in F. rewrite E, neqb_refl in F; discriminate.
  - intros H. destruct (find _ l) eqn:E; [|reflexivity].
    apply find_some in E as [E1 E2]. apply neqb_eq in E2. exfalso; apply H. apply in_map_iff; eauto.
Qed.
Lemma findr_in_names l n r : findr l n = Some r -> In n (lnames l).
Proof. intros H; apply findr_some in H as [H <-]. apply in_map; exact H. Qed.
Lemma findr_in l r : NoDup (lnames l) -> In r l -> findr l (r_name r) = Some r.
Proof.
  induction l as [|x l IH]; intros Hn Hi; [contradiction|]. cbn [lnames map] in Hn. inversion Hn as [|? ? Hx Hn']; subst.
  unfold findr; cbn [find]. destruct Hi as [->|Hi].
  - rewrite neqb_refl; reflexivity.
  - destruct (neqb (r_name x) (r_name r)) eqn:E.
    + apply neqb_eq in E. exfalso; apply Hx. rewrite E. apply in_map; exact Hi.
    + apply IH; auto.
Qed.
Lemma findr_cases l n : (exists r, findr l n = Some r /\ In r l /\ r_name r = n) \/ (findr l n = None /\ ~ In n (lnames l)).
Proof.
  destruct (findr l n) eqn:E; [left|right].
  - exists r; split; [reflexivity|apply findr_some, E].
  - split; [reflexivity|apply findr_none, E].
Qed.

Lemma findr_app l1 l2 n :
  findr (l1 ++ l2) n = match findr l1 n with Some r => Some r | None => findr l2 n end.
Proof.
  unfold findr. induction l1 as [|x l1 IH]; cbn [app find]; [reflexivity|].
  destruct (neqb (r_name x) n); [reflexivity|exact IH].
Qed.

(* ---- UPDATE ... WHERE name = n *)
Definition keeps_name (f : row -> row) : Prop := forall r, r_name (f r) = r_name r.

Lemma update_names n f l : keeps_name f -> lnames (update n f l) = lnames l.
Proof.
  intros Hf. unfold lnames, update. rewrite map_map. apply map_ext. intros r.
  destruct (neqb (r_name r) n); [apply Hf|reflexivity].
Qed.
Lemma neqb_sym a b : neqb a b = neqb b a.
Proof.
  destruct (neqb a b) eqn:E1, (neqb b a) eqn:E2; try reflexivity.
  - apply neqb_eq in E1; subst. rewrite neqb_refl in E2; discriminate.
  - apply neqb_eq in E2; subst. rewrite neqb_refl in E1; discriminate.
Qed.

Lemma findr_update n f l m : keeps_name f ->
  findr (update n f l) m = if neqb m n then option_map f (findr l n) else findr l m.
Proof.
  intros Hf. unfold findr, update. induction l as [|x l IH]; cbn [map find].
  - destruct (neqb m n); reflexivity.
  - destruct (neqb (r_name x) n) eqn:E1.
    + apply neqb_eq in E1. rewrite Hf, IH, E1. clear IH.
      generalize (find (fun r => neqb (r_name r) n) l) (find (fun r => neqb (r_name r) m) l). intros o1 o2.
      rewrite (neqb_sym n m). destruct (neqb m n); reflexivity.
    + rewrite IH. clear IH.
      generalize (find (fun r => neqb (r_name r) n) l) (find (fun r => neqb (r_name r) m) l). intros o1 o2.
      destruct (neqb (r_name x) m) eqn:E2; [|reflexivity].
      apply neqb_eq in E2; subst m. rewrite E1. reflexivity.
Qed.
Lemma in_update n f l r : In r (update n f l) -> exists r0, In r0 l /\ (r = r0 \/ (r = f r0 /\ r_name r0 = n)).
Proof.
  unfold update; rewrite in_map_iff. intros (r0 & E & H). exists r0; split; [exact H|].
  destruct (neqb (r_name r0) n) eqn:En; [right; split; [auto|apply neqb_eq, En]|left; auto].
Qed.

(* ---- DELETE ... WHERE name = n *)
Lemma remove_names n l : lnames (remove n l) = filter (fun m => negb (neqb m n)) (lnames l).
Proof.
  unfold lnames, remove. induction l as [|x l IH]; cbn [filter map]; [reflexivity|].
  destruct (negb (neqb (r_name x) n)); cbn [map]; rewrite IH; reflexivity.
Qed.
Lemma findr_remove n l m : findr (remove n l) m = if neqb m n then None else findr l m.
Proof.
  unfold findr, remove. induction l as [|x l IH]; cbn [filter find].
  - destruct (neqb m n); reflexivity.
  - destruct (neqb (r_name x) n) eqn:E1; cbn [negb find].
    + apply neqb_eq in E1. rewrite IH, E1. clear IH.
      generalize (find (fun r => neqb (r_name r) m) l). intros o2.
      rewrite (neqb_sym n m). destruct (neqb m n); reflexivity.
    + rewrite IH. clear IH.
      generalize (find (fun r => neqb (r_name r) m) l). intros o2.
      destruct (neqb (r_name x) m) eqn:E2; [|reflexivity].
      apply neqb_eq in E2; subst m. rewrite E1. reflexivity.
Qed.

(* ---- the invariant *)
Definition closed (ns : list name) : Prop := forall m p, In m ns -> on_path p m -> In p ns.

Record inv (st : state) : Prop := {
  inv_nodup : NoDup (names st);
  inv_closed : closed (names st);
  inv_ok : forall m, In m (names st) -> name_ok m = true;
  inv_inbox1 : forall m, In m (names st) -> is_inbox m = true -> m = inbox;
  inv_inbox : exists r, findr (rows st) inbox = Some r /\ r_nosel r = false }.

Lemma abs_findr st n : abs st n = option_map info_of (findr (rows st) n).
Proof. reflexivity. Qed.
Lemma abs_none st n : abs st n = None <-> ~ In n (names st).
Proof.
  rewrite abs_findr. unfold names. rewrite <- findr_none. destruct (findr (rows st) n); cbn; split; congruence.
Qed.
Lemma abs_some st n : abs st n <> None <-> In n (names st).
Proof.
  rewrite abs_none. destruct (in_dec name_dec n (names st)); tauto.
Qed.

(* ---- inserting the rows of a chain *)
Definition add_all (st : state) (L : list name) : state := fold_left add_if_missing L st.

Lemma add_if_missing_cases st p :
  (In p (names st) /\ add_if_missing st p = st) \/
  (~ In p (names st) /\ rows (add_if_missing st p) = rows st ++ [new_row p (vv_ctr st + 1)]).
Proof.
  unfold add_if_missing. rewrite find_row_findr.
  destruct (findr_cases (rows st) p) as [(r & -> & Hr & Hn)|[-> Hn]].
  - left; split; [|reflexivity]. rewrite <- Hn. apply in_map; exact Hr.
  - right; split; [exact Hn|reflexivity].
Qed.

Lemma lnames_app a b : lnames (a ++ b) = lnames a ++ lnames b.
Proof. apply map_app. Qed.

Lemma add_all_ext : forall L st, exists ext,
  rows (add_all st L) = rows st ++ ext /\
  (forall r, In r ext -> r = new_row (r_name r) (r_vv r) /\ In (r_name r) L /\ ~ In (r_name r) (names st)) /\
  NoDup (lnames ext) /\
  (forall p, In p L -> ~ In p (names st) -> In p (lnames ext)).
Proof.
  induction L as [|p L IH]; intros st; cbn [add_all fold_left].
  - exists []. rewrite app_nil_r. repeat split; try constructor; contradiction.
  - fold (add_all (add_if_missing st p) L).
    destruct (IH (add_if_missing st p)) as (ext1 & E1 & R1 & N1 & C1).
    destruct (add_if_missing_cases st p) as [[Hp Es]|[Hp Er]].
    + rewrite Es in *. exists ext1. repeat split; auto.
      * apply R1, H.
      * right; apply R1, H.
      * apply R1, H.
      * intros q [<-|Hq] Hn; [contradiction|apply C1; auto].
    + assert (Hnm : names (add_if_missing st p) = names st ++ [p]).
      { unfold names. rewrite Er, lnames_app. reflexivity. }
      exists (new_row p (vv_ctr st + 1) :: ext1). repeat split.
      * rewrite E1, Er, <- app_assoc. reflexivity.
      * destruct H as [<-|H]; [reflexivity|apply R1, H].
      * destruct H as [<-|H]; [left; reflexivity|right; apply R1, H].
      * destruct H as [<-|H]; [exact Hp|].
        intros Hi. apply (R1 r H). rewrite Hnm. apply in_or_app; left; exact Hi.
      * cbn [lnames map]. constructor; [|exact N1].
        intros Hi. apply in_map_iff in Hi as (r & Er' & Hr).
        apply (R1 r Hr). rewrite Hnm, Er'. apply in_or_app; right; left; reflexivity.
      * intros q [<-|Hq] Hn; [left; reflexivity|].
        destruct (name_dec p q) as [<-|Hpq]; [left; reflexivity|right].
        apply C1; [exact Hq|]. rewrite Hnm. intros Hi; apply in_app_or in Hi as [Hi|[Hi|[]]]; auto.
Qed.

Lemma NoDup_app_intro {A} (a b : list A) :
  NoDup a -> NoDup b -> (forall x, In x a -> ~ In x b) -> NoDup (a ++ b).
Proof.
  induction a as [|x a IH]; intros Ha Hb Hd; [exact Hb|]. cbn. inversion Ha; subst. constructor.
  - intros Hi; apply in_app_or in Hi as [Hi|Hi]; [contradiction|]. apply (Hd x); [left; reflexivity|exact Hi].
  - apply IH; auto. intros y Hy; apply Hd; right; exact Hy.
Qed.

(* what a chain insertion does, in terms of names and look-ups *)
Lemma add_all_spec L st : NoDup (names st) ->
  let st' := add_all st L in
  NoDup (names st') /\
  (forall m, In m (names st') <-> In m (names st) \/ In m L) /\
  (forall m, In m (names st) -> findr (rows st') m = findr (rows st) m) /\
  (forall m, ~ In m (names st) -> In m L -> exists vv, findr (rows st') m = Some (new_row m vv)) /\
  (forall m, ~ In m (names st) -> ~ In m L -> findr (rows st') m = None).
Proof.
  intros Hn st'. destruct (add_all_ext L st) as (ext & E & R & N & C). fold st' in E.
  assert (Hnm : names st' = names st ++ lnames ext) by (unfold names; rewrite E; apply lnames_app).
  assert (Hin : forall m, In m (names st') <-> In m (names st) \/ In m L).
  { intros m. rewrite Hnm, in_app_iff. split; intros [H|H]; auto.
    - apply in_map_iff in H as (r & <- & Hr). right; apply R, Hr.
    - destruct (in_dec name_dec m (names st)); [left; auto|right; apply C; auto]. }
  split; [|split; [exact Hin|split; [|split]]].
  - rewrite Hnm. apply NoDup_app_intro; auto.
    intros x Hx Hi. apply in_map_iff in Hi as (r & <- & Hr). apply (R r Hr); exact Hx.
  - intros m Hm. rewrite E, findr_app.
    destruct (findr_cases (rows st) m) as [(r & -> & _)|[_ Hx]]; [reflexivity|contradiction].
  - intros m Hm HL. rewrite E, findr_app.
    assert (findr (rows st) m = None) as -> by (apply findr_none; exact Hm).
    pose proof (C m HL Hm) as Hi.
    destruct (findr_cases ext m) as [(r & -> & Hr & Er)|[_ Hx]]; [|contradiction].
    exists (r_vv r). destruct (R r Hr) as (Eq & _). rewrite <- Er. congruence.
  - intros m Hm HL. apply findr_none. fold (names st'). rewrite Hin. tauto.
Qed.

Lemma fresh_new_row m vv : fresh m (info_of (new_row m vv)).
Proof. repeat split. Qed.

Lemma add_all_adds L st : NoDup (names st) ->
  adds (abs st) (abs (add_all st L)) (fun m => In m L).
Proof.
  intros Hn m. destruct (add_all_spec L st Hn) as (_ & _ & S1 & S2 & S3).
  rewrite !abs_findr. destruct (in_dec name_dec m (names st)) as [Hm|Hm].
  - right. split; [|rewrite (S1 m Hm); reflexivity].
    intros [_ H]. apply abs_none in H. contradiction.
  - destruct (in_dec name_dec m L) as [HL|HL].
    + left. destruct (S2 m Hm HL) as (vv & ->). split; [exact HL|]. split.
      * apply abs_none in Hm. rewrite abs_findr in Hm. exact Hm.
      * eexists; split; [reflexivity|apply fresh_new_row].
    + right. split; [tauto|]. rewrite (S3 m Hm HL).
      assert (findr (rows st) m = None) as -> by (apply findr_none; exact Hm). reflexivity.
Qed.

Lemma adds_ext T T' (P Q : name -> Prop) : (forall m, P m <-> Q m) -> adds T T' P -> adds T T' Q.
Proof.
  intros H A m. destruct (A m) as [(H1 & H2 & H3)|(H1 & H2)].
  - left; split; [apply H, H1|auto].
  - right; split; [|exact H2]. intros [Hq Hn]; apply H1; split; [apply H, Hq|exact Hn].
Qed.

Lemma name_ok_prefix n p : name_ok n = true -> on_path p n -> name_ok p = true.
Proof.
  intros Hn (Hp & s & ->). unfold name_ok in *. rewrite !andb_true_iff in *.
  destruct Hn as [[_ H2] H3]. rewrite forallb_app, andb_true_iff in H2. destruct H2 as [H2 _].
  repeat split; [destruct p; [contradiction|reflexivity]|exact H2|].
  destruct p as [|c [|c' r]]; try reflexivity. cbn [app] in H3.
  apply andb_true_iff in H3 as [H3 H4]. apply andb_true_iff; split; [exact H3|].
  apply negb_true_iff in H4. apply negb_true_iff.
  change (c :: c' :: r ++ s) with ((c :: c' :: r) ++ s) in H4. rewrite existsb_app in H4.
  apply orb_false_iff in H4 as [H4 _]. exact H4.
Qed.

Lemma on_path_inbox_case n p : name_ok n = true -> on_path p n -> is_inbox p = true ->
  p = inbox \/ p = n.
Proof.
  intros Hn (Hp & s & E) Hi. apply is_inbox_single in Hi as Hc. destruct Hc as (c & ->).
  destruct s as [|c' r]; [right; rewrite app_nil_r in E; auto|left]. subst n. cbn in Hn.
  unfold name_ok in Hn. rewrite !andb_true_iff in Hn. destruct Hn as [_ H3]. cbn in H3.
  cbn in Hi. rewrite Hi in H3. cbn in H3. destruct H3 as [H3 _]. apply ceqb_eq in H3. subst c. reflexivity.
Qed.

Lemma new_name_ok_not_inbox n : new_name_ok n = true -> is_inbox n = false.
Proof. unfold new_name_ok. rewrite !andb_true_iff, !negb_true_iff. tauto. Qed.

Lemma add_all_inv L st : inv st ->
  (forall p, In p L -> name_ok p = true) ->
  (forall p, In p L -> is_inbox p = true -> p = inbox) ->
  (forall p q, In p L -> on_path q p -> In q L \/ In q (names st)) ->
  inv (add_all st L).
Proof.
  intros I H1 H2 H3. destruct (add_all_spec L st (inv_nodup _ I)) as (S0 & Sin & S1 & _ & _).
  constructor.
  - exact S0.
  - intros m p Hm Hp. apply Sin. apply Sin in Hm as [Hm|Hm].
    + left. apply (inv_closed _ I m p Hm Hp).
    + destruct (H3 m p Hm Hp); auto.
  - intros m Hm. apply Sin in Hm as [Hm|Hm]; [apply (inv_ok _ I), Hm|apply H1, Hm].
  - intros m Hm. apply Sin in Hm as [Hm|Hm]; [apply (inv_inbox1 _ I), Hm|apply H2, Hm].
  - destruct (inv_inbox _ I) as (r & Hr & Hs). exists r. split; [|exact Hs].
    rewrite S1; [exact Hr|]. apply findr_in_names in Hr. exact Hr.
Qed.

Lemma in_chain n p : In p (rev (inits n)) <-> on_path p n.
Proof. rewrite <- in_rev. apply in_inits. Qed.

Lemma create_chain_inv st n : inv st -> name_ok n = true -> is_inbox n = false -> inv (create_chain st n).
Proof.
  intros I Hn Hi. unfold create_chain. fold (add_all st (rev (inits n))). apply add_all_inv; auto.
  - intros p Hp. apply in_chain in Hp. eapply name_ok_prefix; eauto.
  - intros p Hp Hb. apply in_chain in Hp. destruct (on_path_inbox_case n p Hn Hp Hb) as [E|E]; [exact E|].
    subst p. congruence.
  - intros p q Hp Hq. left. apply in_chain. apply in_chain in Hp. eapply on_path_trans; eauto.
Qed.

Lemma create_chain_adds st n : inv st -> adds (abs st) (abs (create_chain st n)) (fun m => on_path m n).
Proof.
  intros I. unfold create_chain. fold (add_all st (rev (inits n))).
  eapply adds_ext; [|apply add_all_adds, (inv_nodup _ I)]. intros m; apply in_chain.
Qed.

(* ---- updates *)
Lemma abs_update st n f vc m : keeps_name f ->
  abs {| rows := update n f (rows st); vv_ctr := vc |} m =
  if neqb m n then option_map (fun r => info_of (f r)) (findr (rows st) n) else abs st m.
Proof.
  intros Hf. rewrite !abs_findr. cbn [rows]. rewrite findr_update by exact Hf.
  destruct (neqb m n); [|reflexivity]. destruct (findr (rows st) n); reflexivity.
Qed.

Lemma update_inv st n f vc : inv st -> keeps_name f ->
  (n = inbox -> forall r, r_nosel (f r) = r_nosel r) ->
  inv {| rows := update n f (rows st); vv_ctr := vc |}.
Proof.
  intros I Hf Hi. assert (Hn : names {| rows := update n f (rows st); vv_ctr := vc |} = names st).
  { unfold names; cbn [rows]. apply update_names, Hf. }
  constructor; rewrite ?Hn; try apply I.
  cbn [rows]. destruct (inv_inbox _ I) as (r & Hr & Hs). rewrite findr_update by exact Hf.
  destruct (neqb inbox n) eqn:E.
  - apply neqb_eq in E. subst n. rewrite Hr. cbn. exists (f r); split; [reflexivity|]. rewrite Hi; auto.
  - exists r; auto.
Qed.

(* ---- has_kids *)
Lemma has_kids_spec st n : has_kids st n = true <-> exists m, In m (names st) /\ below n m.
Proof.
  unfold has_kids. rewrite existsb_exists. split.
  - intros (r & Hr & Hb). exists (r_name r); split; [apply in_map; exact Hr|apply belowb_spec, Hb].
  - intros (m & Hm & Hb). apply in_map_iff in Hm as (r & <- & Hr). exists r; split; [exact Hr|apply belowb_spec, Hb].
Qed.
Lemma has_kids_inferiors st n : has_kids st n = true <-> has_inferiors (abs st) n.
Proof.
  rewrite has_kids_spec. unfold has_inferiors. split; intros (m & H1 & H2); exists m.
  - split; [exact H2|apply abs_some, H1].
  - split; [apply abs_some, H2|exact H1].
Qed.

Lemma below_on_path n m : n <> [] -> below n m -> on_path n m.
Proof. intros Hn (s & _ & ->). split; [exact Hn|exists s; reflexivity]. Qed.

Lemma remove_inv st n : inv st -> has_kids st n = false -> n <> inbox ->
  inv {| rows := remove n (rows st); vv_ctr := vv_ctr st |}.
Proof.
  intros I Hk Hi.
  assert (Hn : forall m, In m (names {| rows := remove n (rows st); vv_ctr := vv_ctr st |}) <-> In m (names st) /\ m <> n).
  { intros m. unfold names; cbn [rows]. rewrite remove_names, filter_In, negb_true_iff, neqb_neq. reflexivity. }
  constructor.
  - unfold names; cbn [rows]. rewrite remove_names. apply NoDup_filter, I.
  - intros m p Hm Hp. apply Hn in Hm as [Hm Hne]. apply Hn. split; [apply (inv_closed _ I m p Hm Hp)|].
    intros ->. assert (has_kids st n = true); [|congruence].
    apply has_kids_spec. exists m; split; [exact Hm|].
    destruct Hp as (_ & s & ->). exists s; split; [|reflexivity]. intros ->. rewrite app_nil_r in Hne; auto.
  - intros m Hm. apply Hn in Hm as [Hm _]. apply (inv_ok _ I), Hm.
  - intros m Hm. apply Hn in Hm as [Hm _]. apply (inv_inbox1 _ I), Hm.
  - cbn [rows]. destruct (inv_inbox _ I) as (r & Hr & Hs). exists r. rewrite findr_remove.
    assert (neqb inbox n = false) as -> by (apply neqb_neq; congruence). auto.
Qed.

Lemma abs_remove st n vc m : abs {| rows := remove n (rows st); vv_ctr := vc |} m = if neqb m n then None else abs st m.
Proof. rewrite !abs_findr. cbn [rows]. rewrite findr_remove. destruct (neqb m n); reflexivity. Qed.

(* ================================================================== D  command by command *)
Lemma only_at_update st n f vc : keeps_name f ->
  only_at (abs st) (abs {| rows := update n f (rows st); vv_ctr := vc |}) n.
Proof.
  intros Hf m Hm. rewrite abs_update by exact Hf.
  assert (neqb m n = false) as -> by (apply neqb_neq; exact Hm). reflexivity.
Qed.
Lemma abs_update_at st n f vc r : keeps_name f -> findr (rows st) n = Some r ->
  abs {| rows := update n f (rows st); vv_ctr := vc |} n = Some (info_of (f r)).
Proof. intros Hf Hr. rewrite abs_update by exact Hf. rewrite neqb_refl, Hr. reflexivity. Qed.

Lemma keeps_with_nosel b : keeps_name (with_nosel b). Proof. intros r; reflexivity. Qed.
Lemma keeps_with_sub b : keeps_name (with_sub b). Proof. intros r; reflexivity. Qed.
Lemma keeps_with_msgs u l : keeps_name (with_msgs u l). Proof. intros r; reflexivity. Qed.
Lemma keeps_deleted vv : keeps_name (deleted_row vv). Proof. intros r; reflexivity. Qed.

(* ---- CREATE *)
Lemma create_inv st n : inv st -> inv (fst (create st n)).
Proof.
  intros I. unfold create. destruct (name_ok n) eqn:Hn; [|exact I]. destruct (new_name_ok n) eqn:Hw; [|exact I].
  cbn [negb]. rewrite find_row_findr. destruct (findr (rows st) n) as [r|] eqn:Hr.
  - destruct (r_nosel r); [|exact I]. cbn [fst]. apply update_inv; auto using keeps_with_nosel.
    intros ->. discriminate Hw.
  - cbn [fst]. apply create_chain_inv; auto. apply new_name_ok_not_inbox, Hw.
Qed.

Lemma create_refines st n : inv st ->
  spec_step (abs st) (Create n) (snd (create st n)) (abs (fst (create st n))).
Proof.
  intros I. unfold create. destruct (name_ok n) eqn:Hn; [|cbn [fst snd]; apply S_create_no; auto].
  destruct (new_name_ok n) eqn:Hw; [|cbn [fst snd]; apply S_create_no; auto].
  cbn [negb]. rewrite find_row_findr. destruct (findr (rows st) n) as [r|] eqn:Hr.
  - destruct (r_nosel r) eqn:Hs; cbn [fst snd].
    + apply (S_create_revive _ n (info_of r)); auto.
      * rewrite abs_findr, Hr; reflexivity.
      * rewrite (abs_update_at st _ _ _ r) by auto using keeps_with_nosel; reflexivity.
      * apply only_at_update, keeps_with_nosel.
    + cbn [fst snd]; apply S_create_no. right; right. exists (info_of r). split; [rewrite abs_findr, Hr; reflexivity|exact Hs].
  - cbn [fst snd]. apply S_create_new; auto.
    + rewrite abs_findr, Hr; reflexivity.
    + apply create_chain_adds, I.
Qed.

(* ---- DELETE *)
Lemma not_inbox_neq n : is_inbox n = false -> n <> inbox.
Proof. intros H ->. discriminate H. Qed.

Lemma delete_inv st n0 : inv st -> inv (fst (delete st n0)).
Proof.
  intros I. unfold delete. destruct (name_ok n0) eqn:Hn; [|exact I]. destruct (is_inbox n0) eqn:Hi; [exact I|].
  cbn [negb]. rewrite (canon_not_inbox _ Hi), find_row_findr. destruct (findr (rows st) n0) as [r|] eqn:Hr; [|exact I].
  destruct (r_nosel r && has_kids st n0); [exact I|]. destruct (r_nosel r && r_sub r); [exact I|].
  destruct (has_kids st n0 || r_sub r) eqn:Hk; cbn [fst].
  - apply update_inv; auto using keeps_deleted. intros ->; discriminate Hi.
  - apply orb_false_iff in Hk as [Hk _]. apply remove_inv; auto using not_inbox_neq.
Qed.

Lemma delete_refines st n0 : inv st ->
  spec_step (abs st) (Delete n0) (snd (delete st n0)) (abs (fst (delete st n0))).
Proof.
  intros I. unfold delete. destruct (name_ok n0) eqn:Hn; [|cbn [fst snd]; apply S_delete_no; auto].
  destruct (is_inbox n0) eqn:Hi; [cbn [fst snd]; apply S_delete_no; auto|].
  cbn [negb]; cbv zeta. rewrite find_row_findr.
  destruct (findr (rows st) (canon n0)) as [r|] eqn:Hr.
  2:{ cbn [fst snd]; apply S_delete_no. right; right; left. rewrite abs_findr, Hr; reflexivity. }
  assert (Ha : abs st (canon n0) = Some (info_of r)) by (rewrite abs_findr, Hr; reflexivity).
  destruct (r_nosel r && has_kids st (canon n0)) eqn:H1.
  { apply andb_true_iff in H1 as [Hs Hk]. cbn [fst snd]; apply S_delete_no. right; right; right.
    exists (info_of r); repeat split; auto. left; apply has_kids_inferiors, Hk. }
  destruct (r_nosel r && r_sub r) eqn:H2.
  { apply andb_true_iff in H2 as [Hs Hk]. cbn [fst snd]; apply S_delete_no. right; right; right.
    exists (info_of r); repeat split; auto. }
  destruct (has_kids st (canon n0) || r_sub r) eqn:Hk; cbn [fst snd].
  - apply (S_delete_kept _ n0 (info_of r) (info_of (deleted_row (vv_ctr st + 1) r))); auto.
    + cbn. destruct (r_nosel r); [|reflexivity]. cbn in H1, H2. rewrite H1, H2 in Hk. discriminate.
    + apply orb_true_iff in Hk as [Hk|Hk]; [left; apply has_kids_inferiors, Hk|right; exact Hk].
    + rewrite (abs_update_at st _ _ _ r) by auto using keeps_deleted; reflexivity.
    + apply only_at_update, keeps_deleted.
  - apply orb_false_iff in Hk as [Hk Hs].
    apply (S_delete_gone _ n0 (info_of r)); auto.
    + rewrite <- has_kids_inferiors. congruence.
    + rewrite abs_remove, neqb_refl. reflexivity.
    + intros m Hm. rewrite abs_remove. assert (neqb m (canon n0) = false) as -> by (apply neqb_neq, Hm). reflexivity.
Qed.

(* ---- SUBSCRIBE / UNSUBSCRIBE / SELECT / APPEND *)
Lemma subscribe_inv b st n0 : inv st -> inv (fst (subscribe b st n0)).
Proof.
  intros I. unfold subscribe. destruct (name_ok n0); [|exact I]. cbn [negb]; cbv zeta. rewrite find_row_findr.
  destruct (findr (rows st) (canon n0)); [|exact I]. cbn [fst]. apply update_inv; auto using keeps_with_sub.
Qed.

Lemma subscribe_refines st n0 : inv st ->
  spec_step (abs st) (Subscribe n0) (snd (subscribe true st n0)) (abs (fst (subscribe true st n0))).
Proof.
  intros I. unfold subscribe. destruct (name_ok n0) eqn:Hn; [|cbn [fst snd]; apply S_subscribe_no; auto].
  cbn [negb]; cbv zeta. rewrite find_row_findr. destruct (findr (rows st) (canon n0)) as [r|] eqn:Hr; cbn [fst snd].
  - apply (S_subscribe _ n0 (info_of r)); auto.
    + rewrite abs_findr, Hr; reflexivity.
    + rewrite (abs_update_at st _ _ _ r) by auto using keeps_with_sub; reflexivity.
    + apply only_at_update, keeps_with_sub.
  - cbn [fst snd]; apply S_subscribe_no. right. rewrite abs_findr, Hr; reflexivity.
Qed.
Lemma unsubscribe_refines st n0 : inv st ->
  spec_step (abs st) (Unsubscribe n0) (snd (subscribe false st n0)) (abs (fst (subscribe false st n0))).
Proof.
  intros I. unfold subscribe. destruct (name_ok n0) eqn:Hn; [|cbn [fst snd]; apply S_unsubscribe_no; auto].
  cbn [negb]; cbv zeta. rewrite find_row_findr. destruct (findr (rows st) (canon n0)) as [r|] eqn:Hr; cbn [fst snd].
  - apply (S_unsubscribe _ n0 (info_of r)); auto.
    + rewrite abs_findr, Hr; reflexivity.
    + rewrite (abs_update_at st _ _ _ r) by auto using keeps_with_sub; reflexivity.
    + apply only_at_update, keeps_with_sub.
  - cbn [fst snd]; apply S_unsubscribe_no. right. rewrite abs_findr, Hr; reflexivity.
Qed.

Lemma select_state st n0 : fst (select st n0) = st.
Proof.
  unfold select. destruct (name_ok n0); [|reflexivity]. cbn [negb].
  destruct (find_row st (canon n0)) as [r|]; [destruct (r_nosel r)|]; reflexivity.
Qed.
Lemma select_refines st n0 : spec_step (abs st) (Select n0) (snd (select st n0)) (abs (fst (select st n0))).
Proof.
  rewrite select_state. unfold select. destruct (name_ok n0) eqn:Hn; [|cbn [fst snd]; apply S_select_no; auto].
  cbn [negb]; cbv zeta. rewrite find_row_findr. destruct (findr (rows st) (canon n0)) as [r|] eqn:Hr.
  - destruct (r_nosel r) eqn:Hs; cbn [snd].
    + cbn [fst snd]; apply S_select_no. right; right. exists (info_of r). split; [rewrite abs_findr, Hr; reflexivity|exact Hs].
    + apply (S_select _ n0 (info_of r)); auto. rewrite abs_findr, Hr; reflexivity.
  - cbn [fst snd]; apply S_select_no. right; left. rewrite abs_findr, Hr; reflexivity.
Qed.

Lemma keeps_append c f : keeps_name (append_row c f). Proof. intros r; reflexivity. Qed.

Lemma append_inv st n0 c f : inv st -> inv (fst (append st n0 c f)).
Proof.
  intros I. unfold append. destruct (name_ok n0); [|exact I]. cbn [negb]; cbv zeta. rewrite find_row_findr.
  destruct (findr (rows st) (canon n0)) as [r|]; [|exact I]. destruct (r_nosel r); [exact I|]. cbn [fst].
  apply (update_inv st (canon n0) (append_row c f)); auto using keeps_append.
Qed.
Lemma append_refines st n0 c f : inv st ->
  spec_step (abs st) (Append n0 c f) (snd (append st n0 c f)) (abs (fst (append st n0 c f))).
Proof.
  intros I. unfold append. destruct (name_ok n0) eqn:Hn; [|cbn [fst snd]; apply S_append_no; auto].
  cbn [negb]; cbv zeta. rewrite find_row_findr. destruct (findr (rows st) (canon n0)) as [r|] eqn:Hr.
  - destruct (r_nosel r) eqn:Hs; cbn [fst snd].
    + cbn [fst snd]; apply S_append_no. right; right. exists (info_of r). split; [rewrite abs_findr, Hr; reflexivity|exact Hs].
    + apply (S_append _ n0 (info_of r)); auto.
      * rewrite abs_findr, Hr; reflexivity.
      * rewrite (abs_update_at st (canon n0) (append_row c f) (vv_ctr st) r) by auto using keeps_append.
        unfold append_row, set_msgs, info_of; cbn. rewrite Hs. reflexivity.
      * apply (only_at_update st (canon n0) (append_row c f)), keeps_append.
  - cbn [fst snd]; apply S_append_no. right; left. rewrite abs_findr, Hr; reflexivity.
Qed.

(* ---- restart *)
Lemma special_names_ok : Forall (fun n => name_ok n = true /\ new_name_ok n = true /\ exists c, n = [c]) special_names.
Proof. repeat constructor; eexists; reflexivity. Qed.

Lemma ensure_special_add st n : name_ok n = true -> new_name_ok n = true -> (exists c, n = [c]) ->
  ensure_special st n = add_if_missing st n.
Proof.
  intros H1 H2 (c & ->). unfold ensure_special, add_if_missing, create. rewrite H1, H2. cbn [negb].
  destruct (find_row st [c]) eqn:E; [reflexivity|]. cbn [fst]. unfold create_chain. cbn [inits map rev app fold_left].
  unfold add_if_missing. rewrite E. reflexivity.
Qed.

Lemma restart_add_all st : restart st = add_all st special_names.
Proof.
  unfold restart, add_all. pose proof special_names_ok as H. revert st.
  induction H as [|n L (H1 & H2 & H3) _ IH]; intros st; cbn [fold_left]; [reflexivity|].
  rewrite ensure_special_add by assumption. apply IH.
Qed.

Lemma restart_inv st : inv st -> inv (restart st).
Proof.
  intros I. rewrite restart_add_all. pose proof special_names_ok as H. rewrite Forall_forall in H.
  apply add_all_inv; auto.
  - intros p Hp. apply H, Hp.
  - intros p Hp Hi. destruct (H p Hp) as (_ & H2 & _). apply new_name_ok_not_inbox in H2. congruence.
  - intros p q Hp Hq. left. destruct (H p Hp) as (_ & _ & c & ->).
    destruct Hq as (Hq & s & E). destruct q as [|x q]; [contradiction|]. injection E as -> E.
    destruct q; [exact Hp|discriminate].
Qed.

Lemma restart_refines st : inv st -> spec_step (abs st) Restart OK (abs (restart st)).
Proof.
  intros I. apply S_restart. rewrite restart_add_all. apply add_all_adds, (inv_nodup _ I).
Qed.

(* ---- RENAME: renaming rows with an injective map on names *)
Definition rn (o n : name) (m : name) : name := if is_prefix o m then n ++ skipn (List.length o) m else m.
Definition map_names (g : name -> name) (l : list row) : list row := map (fun r => with_name (g (r_name r)) r) l.

Lemma with_name_same r : with_name (r_name r) r = r.
Proof. destruct r; reflexivity. Qed.
Lemma rename_rows_map o n l : rename_rows o n l = map_names (rn o n) l.
Proof.
  unfold rename_rows, map_names, rn. apply map_ext. intros r.
  destruct (is_prefix o (r_name r)); [reflexivity|symmetry; apply with_name_same].
Qed.
Lemma map_names_names g l : lnames (map_names g l) = map g (lnames l).
Proof. unfold lnames, map_names. rewrite !map_map. reflexivity. Qed.

Lemma rn_moved o n s : rn o n (o ++ s) = n ++ s.
Proof.
  unfold rn. assert (is_prefix o (o ++ s) = true) as -> by (apply is_prefix_spec; eauto).
  rewrite skipn_app, skipn_all, Nat.sub_diag. reflexivity.
Qed.
Lemma rn_unmoved o n m : (forall s, m <> o ++ s) -> rn o n m = m.
Proof.
  intros H. unfold rn. destruct (is_prefix o m) eqn:E; [|reflexivity].
  apply is_prefix_spec in E as (s & ->). exfalso; apply (H s); reflexivity.
Qed.
Lemma rn_cases o n m : (exists s, m = o ++ s /\ rn o n m = n ++ s) \/ ((forall s, m <> o ++ s) /\ rn o n m = m).
Proof.
  destruct (is_prefix o m) eqn:E.
  - apply is_prefix_spec in E as (s & ->). left; exists s; split; [reflexivity|apply rn_moved].
  - right. assert (H : forall s, m <> o ++ s).
    { intros s ->. assert (is_prefix o (o ++ s) = true) by (apply is_prefix_spec; eauto). congruence. }
    split; [exact H|apply rn_unmoved, H].
Qed.

Definition inj_on (g : name -> name) (ns : list name) : Prop :=
  forall a b, In a ns -> In b ns -> g a = g b -> a = b.

Lemma NoDup_map_inj_on g ns : NoDup ns -> inj_on g ns -> NoDup (map g ns).
Proof.
  induction ns as [|x ns IH]; intros Hn Hi; cbn; [constructor|]. inversion Hn; subst. constructor.
  - intros Hx. apply in_map_iff in Hx as (y & E & Hy).
    assert (y = x) by (apply Hi; [right; exact Hy|left; reflexivity|exact E]). subst; contradiction.
  - apply IH; auto. intros a b Ha Hb; apply Hi; right; assumption.
Qed.

Lemma findr_map_names g l m0 : inj_on g (lnames l) -> In m0 (lnames l) ->
  findr (map_names g l) (g m0) = option_map (with_name (g m0)) (findr l m0).
Proof.
  unfold findr, map_names. induction l as [|x l IH]; intros Hi Hm; [contradiction|].
  cbn [map find r_name with_name]. destruct (neqb (r_name x) m0) eqn:E.
  - apply neqb_eq in E. rewrite E, neqb_refl. reflexivity.
  - assert (neqb (g (r_name x)) (g m0) = false) as ->.
    { apply neqb_neq. intros Eg. apply neqb_neq in E. apply E. apply Hi; [left; reflexivity|exact Hm|exact Eg]. }
    apply IH.
    + intros a b Ha Hb; apply Hi; right; assumption.
    + destruct Hm as [Hm|Hm]; [apply neqb_neq in E; contradiction|exact Hm].
Qed.
Lemma findr_map_names_none g l m : (forall a, In a (lnames l) -> g a <> m) -> findr (map_names g l) m = None.
Proof.
  intros H. apply findr_none. rewrite map_names_names. intros Hi. apply in_map_iff in Hi as (a & E & Ha).
  apply (H a Ha E).
Qed.

Lemma info_of_with_name x r : info_of (with_name x r) = info_of r.
Proof. reflexivity. Qed.

Lemma name_ok_nonempty n : name_ok n = true -> n <> [].
Proof. intros H; apply name_ok_comps in H as [H _]; exact H. Qed.

Lemma name_ok_swap o n s : name_ok n = true -> new_name_ok n = true -> o <> [] ->
  name_ok (o ++ s) = true -> name_ok (n ++ s) = true.
Proof.
  intros Hn Hw Ho Hos. destruct s as [|d s]; [rewrite app_nil_r; exact Hn|].
  assert (Hi : is_inbox n = false) by (apply new_name_ok_not_inbox, Hw).
  assert (Dn : existsb all_digits n = false).
  { unfold new_name_ok in Hw. rewrite !andb_true_iff, !negb_true_iff in Hw. tauto. }
  unfold name_ok in *. rewrite !andb_true_iff in *.
  destruct Hn as [[N1 N2] N3]. destruct Hos as [[_ O2] O3].
  rewrite forallb_app, andb_true_iff in O2. destruct O2 as [_ O2].
  assert (Ds : existsb all_digits (d :: s) = false).
  { destruct o as [|x o]; [contradiction|]. destruct o as [|y o]; cbn [app] in O3;
      apply andb_true_iff in O3 as [_ O3]; apply negb_true_iff in O3.
    - cbn [existsb] in O3. apply orb_false_iff in O3 as [_ O3]. exact O3.
    - change (x :: y :: o ++ d :: s) with ((x :: y :: o) ++ d :: s) in O3. rewrite existsb_app in O3.
      apply orb_false_iff in O3 as [_ O3]. exact O3. }
  repeat split.
  - destruct n; [discriminate|reflexivity].
  - rewrite forallb_app. apply andb_true_iff; split; assumption.
  - destruct n as [|c [|c' r]]; [discriminate| |].
    + cbn [app]. apply andb_true_iff; split.
      * unfold is_inbox in Hi. rewrite Hi. reflexivity.
      * apply negb_true_iff. change (c :: d :: s) with ([c] ++ d :: s). rewrite existsb_app, Dn, Ds. reflexivity.
    + cbn [app]. apply andb_true_iff in N3 as [N3 _]. apply andb_true_iff; split; [exact N3|].
      apply negb_true_iff. change (c :: c' :: r ++ d :: s) with ((c :: c' :: r) ++ d :: s).
      rewrite existsb_app, Dn, Ds. reflexivity.
Qed.

Lemma adds_refl (T : tree) (P : name -> Prop) : (forall m, P m -> T m <> None) -> adds T T P.
Proof. intros H m. right. split; [|reflexivity]. intros [Hp Hn]. apply (H m Hp Hn). Qed.

Lemma on_path_removelast q n : on_path q n -> q <> n -> on_path q (removelast n).
Proof.
  intros (Hq & s & ->) Hne. split; [exact Hq|].
  destruct s as [|x s]; [rewrite app_nil_r in Hne; contradiction|].
  exists (removelast (x :: s)). apply removelast_app. discriminate.
Qed.
Lemma removelast_on_path n : removelast n <> [] -> on_path (removelast n) n.
Proof.
  intros H. split; [exact H|]. destruct n as [|x n]; [contradiction|].
  exists [last (x :: n) x]. apply app_removelast_last. discriminate.
Qed.
Lemma on_path_length q n : on_path q n -> (List.length q <= List.length n)%nat.
Proof. intros (_ & s & ->). rewrite app_length. lia. Qed.

Lemma rename_rows_facts st1 o n :
  inv st1 -> In o (names st1) -> name_ok n = true -> new_name_ok n = true -> is_inbox o = false ->
  ~ In n (names st1) -> ~ below o n -> (removelast n = [] \/ In (removelast n) (names st1)) ->
  let st' := {| rows := rename_rows o n (rows st1); vv_ctr := vv_ctr st1 |} in
  inv st' /\
  (forall s, abs st' (n ++ s) = abs st1 (o ++ s)) /\
  (forall s, (forall s', o ++ s <> n ++ s') -> abs st' (o ++ s) = None) /\
  (forall m, (forall s, m <> n ++ s) -> (forall s, m <> o ++ s) -> abs st' m = abs st1 m).
Proof.
  intros I Ho Hn Hw Hio Hnn Hbel Hpar st'.
  assert (Hn0 : n <> []) by (apply name_ok_nonempty, Hn).
  assert (Ho0 : o <> []) by (apply name_ok_nonempty, (inv_ok _ I), Ho).
  assert (Hin : is_inbox n = false) by (apply new_name_ok_not_inbox, Hw).
  assert (F1 : forall s, ~ In (n ++ s) (names st1)).
  { intros s Hi. apply Hnn. apply (inv_closed _ I (n ++ s) n Hi). split; [exact Hn0|eauto]. }
  assert (F2 : inj_on (rn o n) (names st1)).
  { intros a b Ha Hb E.
    destruct (rn_cases o n a) as [(sa & -> & Ea)|(Ua & Ea)], (rn_cases o n b) as [(sb & -> & Eb)|(Ub & Eb)];
      rewrite Ea, Eb in E.
    - apply app_inv_head in E. congruence.
    - exfalso. apply (F1 sa). rewrite E. exact Hb.
    - exfalso. apply (F1 sb). rewrite <- E. exact Ha.
    - exact E. }
  assert (Hrows : rows st' = map_names (rn o n) (rows st1)) by (apply rename_rows_map).
  assert (Hnames : names st' = map (rn o n) (names st1)).
  { unfold names. rewrite Hrows. apply map_names_names. }
  assert (Habs_in : forall m, In m (names st1) -> abs st' (rn o n m) = abs st1 m).
  { intros m Hm. rewrite !abs_findr, Hrows, findr_map_names by assumption.
    destruct (findr (rows st1) m); reflexivity. }
  assert (Habs_none : forall m, (forall a, In a (names st1) -> rn o n a <> m) -> abs st' m = None).
  { intros m H. rewrite abs_findr, Hrows, findr_map_names_none; [reflexivity|exact H]. }
  assert (C1 : forall s, abs st' (n ++ s) = abs st1 (o ++ s)).
  { intros s. destruct (in_dec name_dec (o ++ s) (names st1)) as [Hi|Hi].
    - rewrite <- (rn_moved o n s). apply Habs_in, Hi.
    - assert (abs st1 (o ++ s) = None) as -> by (apply abs_none, Hi). apply Habs_none.
      intros a Ha E. destruct (rn_cases o n a) as [(sa & -> & Ea)|(Ua & Ea)]; rewrite Ea in E.
      + apply app_inv_head in E. subst sa. contradiction.
      + subst a. apply (F1 s Ha). }
  assert (C2 : forall s, (forall s', o ++ s <> n ++ s') -> abs st' (o ++ s) = None).
  { intros s H. apply Habs_none. intros a Ha E.
    destruct (rn_cases o n a) as [(sa & -> & Ea)|(Ua & Ea)]; rewrite Ea in E.
    - apply (H sa). symmetry; exact E.
    - apply (Ua s). exact E. }
  assert (C3 : forall m, (forall s, m <> n ++ s) -> (forall s, m <> o ++ s) -> abs st' m = abs st1 m).
  { intros m H1 H2. destruct (in_dec name_dec m (names st1)) as [Hi|Hi].
    - rewrite <- (rn_unmoved o n m H2) at 1. apply Habs_in, Hi.
    - assert (abs st1 m = None) as -> by (apply abs_none, Hi). apply Habs_none.
      intros a Ha E. destruct (rn_cases o n a) as [(sa & -> & Ea)|(Ua & Ea)]; rewrite Ea in E.
      + apply (H1 sa). symmetry; exact E.
      + subst a. contradiction. }
  split; [|auto]. constructor.
  - rewrite Hnames. apply NoDup_map_inj_on; [apply I|exact F2].
  - (* closed *)
    intros m' q Hm' Hq. rewrite Hnames in *. apply in_map_iff in Hm' as (m & <- & Hm). apply in_map_iff.
    destruct (rn_cases o n m) as [(s & -> & Em)|(Um & Em)]; rewrite Em in Hq.
    + destruct Hq as (Hq0 & t & E). apply app_eq_app in E as (l & [[E1 E2]|[E1 E2]]).
      * (* n = q ++ l *)
        destruct l as [|x l].
        -- rewrite app_nil_r in E1. subst q. exists o. split; [|exact Ho].
           pose proof (rn_moved o n []) as R. rewrite !app_nil_r in R. exact R.
        -- assert (Hqp : on_path q (removelast n)).
           { apply on_path_removelast; [split; [exact Hq0|exists (x :: l); exact E1]|].
             intros ->. apply (f_equal (@List.length _)) in E1. rewrite app_length in E1. cbn in E1. lia. }
           destruct Hpar as [Hp|Hp]; [rewrite Hp in Hqp; destruct Hqp as (_ & u & Eu); symmetry in Eu;
                                      apply app_eq_nil in Eu as [-> _]; contradiction|].
           exists q. split; [|apply (inv_closed _ I _ q Hp Hqp)].
           apply rn_unmoved. intros u ->. apply Hbel. exists (u ++ x :: l). split; [destruct u; discriminate|].
           rewrite E1, app_assoc. reflexivity.
      * (* q = n ++ l *)
        exists (o ++ l). split; [rewrite rn_moved; symmetry; exact E1|].
        apply (inv_closed _ I (o ++ s) (o ++ l) Hm). split; [destruct o; [contradiction|discriminate]|].
        exists t. rewrite E2, app_assoc. reflexivity.
    + exists q. split; [|apply (inv_closed _ I m q Hm Hq)].
      apply rn_unmoved. intros u ->. destruct Hq as (_ & t & ->). apply (Um (u ++ t)). symmetry; apply app_assoc.
  - (* names are ok *)
    intros m' Hm'. rewrite Hnames in Hm'. apply in_map_iff in Hm' as (m & <- & Hm).
    destruct (rn_cases o n m) as [(s & -> & Em)|(Um & Em)]; rewrite Em.
    + apply (name_ok_swap o); auto. apply (inv_ok _ I), Hm.
    + apply (inv_ok _ I), Hm.
  - intros m' Hm' Hb. rewrite Hnames in Hm'. apply in_map_iff in Hm' as (m & <- & Hm).
    destruct (rn_cases o n m) as [(s & -> & Em)|(Um & Em)]; rewrite Em in *.
    + exfalso. apply is_inbox_single in Hb as Hc. destruct Hc as (c & Ec).
      destruct n as [|x [|y n]]; [contradiction| |discriminate Ec].
      destruct s; [|discriminate Ec]. rewrite app_nil_r in Hb. congruence.
    + apply (inv_inbox1 _ I), Hb. exact Hm.
  - destruct (inv_inbox _ I) as (r & Hr & Hs).
    assert (Hu : forall s, inbox <> o ++ s).
    { intros s E. destruct o as [|x o]; [contradiction|]. injection E as Ex E. subst x.
      symmetry in E. apply app_eq_nil in E as [-> _]. vm_compute in Hio. discriminate Hio. }
    exists (with_name inbox r). split; [|exact Hs].
    rewrite Hrows. rewrite <- (rn_unmoved o n inbox Hu) at 1. rewrite findr_map_names, Hr; auto.
    + cbn. rewrite (rn_unmoved o n inbox Hu). reflexivity.
    + apply findr_in_names in Hr. exact Hr.
Qed.

Lemma ensure_parent_facts st n : inv st -> name_ok n = true ->
  let p := removelast n in
  match ensure_parent st n with
  | (st1, OK) => inv st1 /\ adds (abs st) (abs st1) (fun m => on_path m p) /\
                 (p = [] \/ In p (names st1)) /\ (p = [] \/ abs st p <> None \/ new_name_ok p = true)
  | (st1, NO) => st1 = st /\ p <> [] /\ abs st p = None /\ new_name_ok p = false
  end.
Proof.
  intros I Hn p. unfold ensure_parent. fold p.
  destruct p as [|c p'] eqn:Ep.
  - split; [exact I|split; [|split; auto]].
    apply adds_refl. intros m (Hm & s & E). symmetry in E; apply app_eq_nil in E as [-> _]; contradiction.
  - rewrite <- Ep in *. assert (Hp0 : p <> []) by (rewrite Ep; discriminate).
    assert (Hpn : on_path p n) by (apply removelast_on_path, Hp0).
    rewrite find_row_findr. destruct (findr_cases (rows st) p) as [(r & -> & Hr & Er)|[-> Hr]].
    + assert (Hi : In p (names st)) by (rewrite <- Er; apply in_map, Hr).
      split; [exact I|split; [|split; [right; exact Hi|right; left; apply abs_some, Hi]]].
      apply adds_refl. intros m Hm. apply abs_some. apply (inv_closed _ I p m Hi Hm).
    + assert (Hok : name_ok p = true) by (eapply name_ok_prefix; eauto).
      unfold create. rewrite Hok. cbn [negb]. destruct (new_name_ok p) eqn:Hw; cbn [negb].
      * rewrite find_row_findr. assert (findr (rows st) p = None) as -> by (apply findr_none, Hr).
        split; [|split; [|split; [right|right; right; reflexivity]]].
        -- apply create_chain_inv; auto. apply new_name_ok_not_inbox, Hw.
        -- apply create_chain_adds, I.
        -- unfold create_chain. fold (add_all st (rev (inits p))).
           destruct (add_all_spec (rev (inits p)) st (inv_nodup _ I)) as (_ & Sin & _).
           apply Sin. right. apply in_chain. apply on_path_refl, Hp0.
      * split; [reflexivity|split; [exact Hp0|split; [apply abs_none, Hr|reflexivity]]].
Qed.

Lemma removelast_lt {A} (n : list A) : n <> [] -> (List.length (removelast n) < List.length n)%nat.
Proof.
  induction n as [|x n IH]; intros H; [contradiction|]. destruct n as [|y n]; [cbn; lia|].
  specialize (IH ltac:(discriminate)). change (removelast (x :: y :: n)) with (x :: removelast (y :: n)).
  cbn [List.length] in *. lia.
Qed.

Lemma on_path_not_moved o n s : ~ below o n -> o <> n -> ~ on_path (o ++ s) (removelast n).
Proof.
  intros Hb Hne (_ & t & E). destruct n as [|x n]; [cbn in E; symmetry in E; apply app_eq_nil in E as [E _];
    apply app_eq_nil in E as [-> _]; apply Hne; reflexivity|].
  apply Hb. exists (s ++ t ++ [last (x :: n) x]). split; [destruct s; [destruct t|]; discriminate|].
  rewrite (app_removelast_last x (l := x :: n)) at 1 by discriminate. rewrite E, <- !app_assoc. reflexivity.
Qed.

Lemma rename_both st o0 n : inv st ->
  inv (fst (rename st o0 n)) /\
  spec_step (abs st) (Rename o0 n) (snd (rename st o0 n)) (abs (fst (rename st o0 n))).
Proof.
  intros I. unfold rename.
  destruct (name_ok o0) eqn:Ho; cbn [negb orb]; [|split; [exact I|cbn [fst snd]; apply S_rename_no; auto]].
  destruct (name_ok n) eqn:Hn; cbn [negb]; [|split; [exact I|cbn [fst snd]; apply S_rename_no; auto]].
  cbv zeta. rewrite !find_row_findr.
  destruct (findr (rows st) (canon o0)) as [ro|] eqn:Hro.
  2:{ split; [exact I|cbn [fst snd]; apply S_rename_no]. right; right; left. rewrite abs_findr, Hro; reflexivity. }
  destruct (findr (rows st) n) as [rx|] eqn:Hrn.
  { split; [exact I|cbn [fst snd]; apply S_rename_no]. right; right; right; left. rewrite abs_findr, Hrn; discriminate. }
  assert (Hnn : ~ In n (names st)) by (apply findr_none, Hrn).
  destruct (is_inbox o0) eqn:Hio.
  - (* RENAME INBOX *)
    rewrite (canon_inbox _ Hio) in Hro. unfold create. rewrite Hn. cbn [negb].
    destruct (new_name_ok n) eqn:Hw; cbn [negb].
    2:{ split; [exact I|cbn [fst snd]; apply S_rename_no]. right; right; right; right; left. exact Hw. }
    rewrite find_row_findr, Hrn. cbn [fst snd].
    assert (Hin : is_inbox n = false) by (apply new_name_ok_not_inbox, Hw).
    assert (Hne : n <> inbox) by (apply not_inbox_neq, Hin).
    set (st1 := create_chain st n).
    assert (I1 : inv st1) by (apply create_chain_inv; auto).
    destruct (add_all_spec (rev (inits n)) st (inv_nodup _ I)) as (_ & _ & S1 & S2 & _).
    destruct (S2 n Hnn) as (vv & Hnew); [apply in_chain, on_path_refl, name_ok_nonempty, Hn|].
    change (findr (rows st1) n = Some (new_row n vv)) in Hnew.
    assert (Hib1 : findr (rows st1) inbox = Some ro).
    { rewrite <- Hro. apply S1. apply findr_in_names in Hro. exact Hro. }
    set (g := with_msgs (1 + Z.of_nat (List.length (r_msgs ro))) (renumber 1 (r_msgs ro))).
    set (f := with_msgs (r_nuid ro) []).
    assert (Kg : keeps_name g) by (intros r; reflexivity).
    assert (Kf : keeps_name f) by (intros r; reflexivity).
    set (st2 := {| rows := update n g (rows st1); vv_ctr := vv_ctr st1 |}).
    assert (I2 : inv st2) by (apply update_inv; auto).
    change (update inbox f (update n g (rows st1))) with (update inbox f (rows st2)).
    split; [apply (update_inv st2 inbox f); auto|].
    apply (S_rename_inbox _ o0 n (abs st1) _ (info_of ro) (info_of (new_row n vv))); auto.
    + rewrite abs_findr, Hro; reflexivity.
    + rewrite abs_findr, Hrn; reflexivity.
    + apply create_chain_adds, I.
    + rewrite abs_findr, Hnew; reflexivity.
    + rewrite abs_update by exact Kf.
      assert (neqb n inbox = false) as -> by (apply neqb_neq, Hne).
      unfold st2. rewrite (abs_update_at st1 n g _ (new_row n vv)) by auto. reflexivity.
    + rewrite abs_update by exact Kf. rewrite neqb_refl. unfold st2; cbn [rows].
      rewrite findr_update by exact Kg.
      assert (neqb inbox n = false) as -> by (apply neqb_neq; congruence). rewrite Hib1. reflexivity.
    + intros m H1 H2. rewrite (only_at_update st2 inbox f _ Kf m H2).
      apply (only_at_update st1 n g _ Kg m H1).
  - (* RENAME of another mailbox *)
    rewrite (canon_not_inbox _ Hio) in *.
    destruct (new_name_ok n) eqn:Hw; cbn [negb].
    2:{ split; [exact I|cbn [fst snd]; apply S_rename_no]. right; right; right; right; left. exact Hw. }
    destruct (belowb o0 n) eqn:Hb.
    { split; [exact I|cbn [fst snd]; apply S_rename_no]. right; right; right; right; right.
      split; [exact Hio|left]. rewrite (canon_not_inbox _ Hio). apply belowb_spec, Hb. }
    assert (Hbel : ~ below o0 n) by (rewrite <- belowb_spec; congruence).
    assert (Hoin : In o0 (names st)) by (apply findr_in_names in Hro; exact Hro).
    assert (Hon : o0 <> n) by (intros ->; contradiction).
    pose proof (ensure_parent_facts st n I Hn) as F. cbv zeta in F.
    destruct (ensure_parent st n) as [st1 [|]].
    + destruct F as (I1 & A & Hp & Hpok). cbn [fst snd].
      assert (Ho1 : In o0 (names st1)).
      { apply abs_some. destruct (A o0) as [(_ & H & _)|(_ & ->)]; [apply abs_some in Hoin; contradiction|].
        apply abs_some, Hoin. }
      assert (Hn1 : ~ In n (names st1)).
      { apply abs_none. destruct (A n) as [(H & _)|(_ & ->)]; [|apply abs_none, Hnn].
        exfalso. apply on_path_length in H. pose proof (removelast_lt n (name_ok_nonempty _ Hn)). lia. }
      destruct (rename_rows_facts st1 o0 n I1 Ho1 Hn Hw Hio Hn1 Hbel Hp) as (I' & C1 & C2 & C3).
      split; [exact I'|].
      apply (S_rename _ o0 n (abs st1)); auto.
      * apply abs_some, Hoin.
      * apply abs_none, Hnn.
      * intros s. rewrite C1. destruct (A (o0 ++ s)) as [(H & _)|(_ & ->)]; [|reflexivity].
        exfalso. eapply on_path_not_moved; eauto.
    + destruct F as (-> & Hp0 & Hpn & Hpw). split; [exact I|cbn [fst snd]; apply S_rename_no].
      right; right; right; right; right. split; [exact Hio|right]. auto.
Qed.

(* ---- every command, every history *)
Lemma step_inv st o : inv st -> inv (fst (step st o)).
Proof.
  intros I. destruct o; cbn [step].
  - apply create_inv, I.
  - apply delete_inv, I.
  - apply rename_both, I.
  - apply subscribe_inv, I.
  - apply subscribe_inv, I.
  - apply append_inv, I.
  - rewrite select_state. exact I.
  - cbn [fst]. apply restart_inv, I.
Qed.

Lemma step_refines st o : inv st -> spec_step (abs st) o (snd (step st o)) (abs (fst (step st o))).
Proof.
  intros I. destruct o; cbn [step].
  - apply create_refines, I.
  - apply delete_refines, I.
  - apply rename_both, I.
  - apply subscribe_refines, I.
  - apply unsubscribe_refines, I.
  - apply append_refines, I.
  - apply select_refines.
  - cbn [fst snd]. apply restart_refines, I.
Qed.

Lemma run_cons st o os :
  run st (o :: os) = (fst (run (fst (step st o)) os), snd (step st o) :: snd (run (fst (step st o)) os)).
Proof. cbn [run]. destruct (step st o) as [st1 r]. cbn [fst snd]. destruct (run st1 os); reflexivity. Qed.

Lemma run_inv os : forall st, inv st -> inv (fst (run st os)).
Proof.
  induction os as [|o os IH]; intros st I; [exact I|]. rewrite run_cons. cbn [fst]. apply IH, step_inv, I.
Qed.

Lemma run_refines_from os : forall st, inv st ->
  spec_run (abs st) os (snd (run st os)) (abs (fst (run st os))).
Proof.
  induction os as [|o os IH]; intros st I; [constructor|]. rewrite run_cons. cbn [fst snd].
  econstructor; [apply step_refines, I|apply IH, step_inv, I].
Qed.

Definition base : state := {| rows := [new_row inbox 1]; vv_ctr := 1 |}.

Lemma inv_base : inv base.
Proof.
  constructor; cbn.
  - repeat constructor. intros [].
  - intros m p [<-|[]] (Hp & s & E). left. destruct p as [|c p]; [contradiction|].
    injection E as <- E. symmetry in E. apply app_eq_nil in E as [-> _]. reflexivity.
  - intros m [<-|[]]. reflexivity.
  - intros m [<-|[]] _. reflexivity.
  - eexists; split; reflexivity.
Qed.

Lemma inv_init : inv init.
Proof. apply restart_inv, inv_base. Qed.

Lemma special_not_inbox m : In m special_names -> m <> inbox.
Proof. intros H ->. repeat (destruct H as [H|H]; [discriminate H|]). contradiction. Qed.

Lemma abs_base m : abs base m = if neqb inbox m then Some (info_of (new_row inbox 1)) else None.
Proof.
  unfold abs, find_row, base. cbn [rows find]. change (r_name (new_row inbox 1)) with inbox.
  destruct (neqb inbox m); reflexivity.
Qed.

Lemma initial_init : initial (abs init).
Proof.
  unfold initial. change init with (restart base). rewrite restart_add_all.
  pose proof (add_all_adds special_names base (inv_nodup _ inv_base)) as A.
  intros m. destruct (A m) as [(H1 & H2 & H3)|(H1 & H2)].
  - left. split; [right; exact H1|]. split; [reflexivity|exact H3].
  - destruct (name_dec m inbox) as [->|Hne].
    + left. split; [left; reflexivity|]. split; [reflexivity|]. rewrite H2.
      eexists; split; [reflexivity|]. apply fresh_new_row.
    + right. split.
      * intros [[Hm|Hm] _]; [contradiction|]. apply H1. split; [exact Hm|].
        rewrite abs_base. assert (neqb inbox m = false) as -> by (apply neqb_neq; congruence). reflexivity.
      * rewrite H2, abs_base. assert (neqb inbox m = false) as -> by (apply neqb_neq; congruence). reflexivity.
Qed.

Theorem reachable_inv : forall os, inv (fst (run init os)).
Proof. intros os. apply run_inv, inv_init. Qed.

(* the table follows the reference tree through every history *)
Theorem run_refines : forall os,
  initial (abs init) /\ spec_run (abs init) os (snd (run init os)) (abs (fst (run init os))).
Proof. intros os. split; [apply initial_init|apply run_refines_from, inv_init]. Qed.

(* ================================================================== E  what is observed *)
Lemma abs_row st r : inv st -> In r (rows st) -> abs st (r_name r) = Some (info_of r).
Proof. intros I Hr. rewrite abs_findr, (findr_in _ _ (inv_nodup _ I) Hr). reflexivity. Qed.
Lemma abs_some_row st n i : abs st n = Some i -> exists r, In r (rows st) /\ r_name r = n /\ i = info_of r.
Proof.
  rewrite abs_findr. destruct (findr (rows st) n) as [r|] eqn:E; [|discriminate].
  cbn. intros H; injection H as <-. apply findr_some in E as [H1 H2]. eauto.
Qed.

Lemma comp_ok_INBOX : Forall comp_ok [INBOX].
Proof.
  constructor; [|constructor]. split; [discriminate|]. intros H.
  repeat (destruct H as [H|H]; [discriminate H|]). contradiction.
Qed.

Lemma shown_inj st a b : inv st -> In a (names st) -> In b (names st) -> shown a = shown b -> a = b.
Proof.
  intros I Ha Hb E. unfold shown in E.
  pose proof (name_ok_comps _ (inv_ok _ I a Ha)) as [_ Ca]. pose proof (name_ok_comps _ (inv_ok _ I b Hb)) as [_ Cb].
  destruct (is_inbox a) eqn:Ia, (is_inbox b) eqn:Ib.
  - rewrite (inv_inbox1 _ I a Ha Ia), (inv_inbox1 _ I b Hb Ib). reflexivity.
  - exfalso. assert (b = [INBOX]) by (apply flat_inj; auto using comp_ok_INBOX). subst b. discriminate Ib.
  - exfalso. assert (a = [INBOX]) by (apply flat_inj; auto using comp_ok_INBOX). subst a. discriminate Ia.
  - apply flat_inj; auto.
Qed.

Lemma row_matches_spec st ips r : inv st -> In r (rows st) ->
  (row_matches ips r = true <-> exists ip, In ip ips /\ name_matches ip (r_name r)).
Proof.
  intros I Hr. unfold row_matches, name_matches. destruct (is_inbox (r_name r)) eqn:Ib; rewrite existsb_exists.
  - split; intros (ip & H1 & H2); exists ip; (split; [exact H1|]); apply glob_inbox_correct; exact H2.
  - split; intros (ip & H1 & H2); exists ip; (split; [exact H1|]); apply glob_correct; exact H2.
Qed.

Definition is_probe (q : query) : Prop := q_ref q = [] /\ q_pats q = [[]].
Lemma list_cmd_answers st q : ~ is_probe q -> list_cmd st q = map (mk_entry st q) (selected st q).
Proof.
  unfold is_probe, list_cmd. intros H. destruct (q_ref q) as [|c r]; [|reflexivity].
  destruct (q_pats q) as [|[|x p] [|y l]]; try reflexivity. exfalso; apply H; auto.
Qed.

Lemma selected_plain st lsub ref pat :
  selected st (plain lsub ref pat) =
  map (fun r => (r, false)) (filter (fun r => row_matches [ref ++ pat] r && implb lsub (r_sub r)) (rows st)).
Proof.
  unfold selected, plain, q_ips; cbn. f_equal. apply filter_ext. intros r. rewrite orb_false_r. reflexivity.
Qed.

Lemma NoDup_map_on {A B} (f : A -> B) (l : list A) :
  NoDup l -> (forall a b, In a l -> In b l -> f a = f b -> a = b) -> NoDup (map f l).
Proof.
  induction l as [|x l IH]; intros Hn Hi; cbn; [constructor|]. inversion Hn; subst. constructor.
  - intros Hx. apply in_map_iff in Hx as (y & E & Hy).
    assert (y = x) by (apply Hi; [right; exact Hy|left; reflexivity|exact E]). subst; contradiction.
  - apply IH; auto. intros a b Ha Hb; apply Hi; right; assumption.
Qed.

Lemma rows_nodup st : inv st -> NoDup (rows st).
Proof. intros I. apply (NoDup_map_inv r_name). apply I. Qed.

(* LIST / LSUB answer exactly the existing / subscribed mailboxes that match, each once *)
Theorem list_exact st lsub ref pat : inv st -> ~ (ref = [] /\ pat = []) ->
  let out := list_cmd st (plain lsub ref pat) in
  NoDup (map e_name out) /\
  (forall d, In d (map e_name out) <-> spec_listed (abs st) lsub [ref ++ pat] d).
Proof.
  intros I Hp out. unfold out. rewrite list_cmd_answers.
  2:{ intros [H1 H2]. cbn in H1, H2. injection H2 as H2. auto. }
  rewrite selected_plain, !map_map. cbn [mk_entry e_name].
  set (P := fun r => row_matches [ref ++ pat] r && implb lsub (r_sub r)).
  split.
  - apply NoDup_map_on; [apply NoDup_filter, rows_nodup, I|].
    intros a b Ha Hb E. apply filter_In in Ha as [Ha _]. apply filter_In in Hb as [Hb _].
    assert (r_name a = r_name b) as En.
    { apply (shown_inj st); auto; apply in_map; assumption. }
    pose proof (findr_in _ _ (inv_nodup _ I) Ha) as Fa. pose proof (findr_in _ _ (inv_nodup _ I) Hb) as Fb.
    rewrite En in Fa. congruence.
  - intros d. rewrite in_map_iff. unfold spec_listed. split.
    + intros (r & <- & Hr). apply filter_In in Hr as [Hr HP]. unfold P in HP. apply andb_true_iff in HP as [H1 H2].
      exists (r_name r), (info_of r). split; [apply abs_row; auto|]. split; [reflexivity|]. split.
      * intros ->. exact H2.
      * apply (row_matches_spec st); auto.
    + intros (n & i & Hn & <- & Hs & Hm). apply abs_some_row in Hn as (r & Hr & <- & ->).
      exists r. split; [reflexivity|]. apply filter_In. split; [exact Hr|]. unfold P. apply andb_true_iff. split.
      * apply (row_matches_spec st); auto.
      * destruct lsub; [apply Hs; reflexivity|reflexivity].
Qed.

(* ---- the attributes of every answer, whatever the options *)
Lemma selected_rows st q rc : In rc (selected st q) -> In (fst rc) (rows st).
Proof.
  unfold selected. intros H.
  assert (G : forall l : list (row * bool), In rc (if q_sel_special q then filter (fun rc => has_special (fst rc)) l else l) -> In rc l).
  { intros l. destruct (q_sel_special q); [intros Hf; apply filter_In in Hf as [Hf _]; exact Hf|auto]. }
  apply G in H. destruct (q_sel_rec q).
  - apply in_app_or in H as [H|H]; apply in_map_iff in H as (r & <- & Hr); cbn [fst].
    + apply filter_In in Hr as [Hr _]. apply filter_In in Hr as [Hr _]. exact Hr.
    + apply filter_In in Hr as [Hr _]. exact Hr.
  - apply in_map_iff in H as (r & <- & Hr). cbn [fst]. apply filter_In in Hr as [Hr _]. exact Hr.
Qed.

Lemma in_row_attrs st q r a : In a (row_attrs st q r) <->
  (a = Noselect /\ r_nosel r = true) \/ (exists s, a = Special s /\ In s (r_spec r)) \/
  (a = HasChildren /\ has_kids st (r_name r) = true) \/ (a = HasNoChildren /\ has_kids st (r_name r) = false) \/
  (a = Subscribed /\ r_sub r = true /\ (q_sel_sub q || q_ret_sub q) = true) \/
  (a = NonExistent /\ r_sub r = true /\ q_sel_sub q = true /\ r_nosel r = true).
Proof.
  unfold row_attrs. rewrite !in_app_iff, in_map_iff. split.
  - intros [H|[H|[H|H]]].
    + destruct (r_nosel r); [destruct H as [<-|[]]; tauto|contradiction].
    + destruct H as (s & <- & Hs). right; left; eauto.
    + destruct (has_kids st (r_name r)); destruct H as [<-|[]]; tauto.
    + destruct (r_sub r); [|contradiction]. destruct (q_sel_sub q).
      * destruct H as [<-|H]; [do 4 right; left; auto|]. destruct (r_nosel r); [|contradiction].
        destruct H as [<-|[]]. do 5 right. auto.
      * destruct (q_ret_sub q); [|contradiction]. destruct H as [<-|[]]. do 4 right; left; auto.
  - intros [[-> H]|[(s & -> & H)|[[-> H]|[[-> H]|[(-> & H1 & H2)|(-> & H1 & H2 & H3)]]]]].
    + left. rewrite H. left; reflexivity.
    + right; left. exists s; auto.
    + right; right; left. rewrite H. left; reflexivity.
    + right; right; left. rewrite H. left; reflexivity.
    + right; right; right. rewrite H1. destruct (q_sel_sub q); [left; reflexivity|].
      cbn in H2. rewrite H2. left; reflexivity.
    + right; right; right. rewrite H1, H2, H3. right; left; reflexivity.
Qed.

(* \HasChildren exactly when an existing mailbox lies below, \HasNoChildren otherwise,
   \Noselect exactly for the placeholders: for every LIST / LSUB form *)
Theorem list_attrs st q e : inv st -> ~ is_probe q -> In e (list_cmd st q) ->
  exists n i, abs st n = Some i /\ e_name e = shown n /\
    (In HasChildren (e_attrs e) <-> has_inferiors (abs st) n) /\
    (In HasNoChildren (e_attrs e) <-> ~ has_inferiors (abs st) n) /\
    (In Noselect (e_attrs e) <-> i_placeholder i = true) /\
    (In Subscribed (e_attrs e) -> i_subscribed i = true).
Proof.
  intros I Hp He. rewrite list_cmd_answers in He by exact Hp. apply in_map_iff in He as ([r c] & <- & Hrc).
  apply selected_rows in Hrc. cbn [fst] in Hrc. exists (r_name r), (info_of r).
  split; [apply abs_row; auto|]. split; [reflexivity|]. cbn [mk_entry e_attrs].
  rewrite <- has_kids_inferiors. repeat split.
  - intros H. apply in_row_attrs in H as [[H _]|[(s & H & _)|[[_ H]|[[H _]|[[H _]|[H _]]]]]]; try discriminate H. exact H.
  - intros H. apply in_row_attrs. auto.
  - intros H. apply in_row_attrs in H as [[H _]|[(s & H & _)|[[H _]|[[_ H]|[[H _]|[H _]]]]]]; try discriminate H. congruence.
  - intros H. apply in_row_attrs. do 3 right; left. split; [reflexivity|]. destruct (has_kids st (r_name r)); [contradiction|reflexivity].
  - intros H. apply in_row_attrs in H as [[_ H]|[(s & H & _)|[[H _]|[[H _]|[[H _]|[H _]]]]]]; try discriminate H. exact H.
  - intros H. apply in_row_attrs. left. auto.
  - intros H. apply in_row_attrs in H as [[H _]|[(s & H & _)|[[H _]|[[H _]|[(_ & H & _)|[H _]]]]]]; try discriminate H. exact H.
Qed.

(* ---- RENAME *)
Lemma spec_rename_inv T o n T' : spec_step T (Rename o n) OK T' -> is_inbox o = false ->
  (forall s, T' (n ++ s) = T (o ++ s)) /\ (forall s, (forall s', o ++ s <> n ++ s') -> T' (o ++ s) = None).
Proof.
  intros H Hi. inversion H; subst; [auto|congruence].
Qed.

Theorem rename_subtree st o n st' : inv st -> is_inbox o = false -> rename st o n = (st', OK) ->
  (forall s, abs st' (n ++ s) = abs st (o ++ s)) /\ (forall s, abs st' (o ++ s) = None).
Proof.
  intros I Hi E. destruct (rename_both st o n I) as (I' & S). rewrite E in S, I'. cbn [fst snd] in S, I'.
  destruct (spec_rename_inv _ _ _ _ S Hi) as (C1 & C2). split; [exact C1|].
  intros s. apply C2. intros s' Es.
  (* neither name is a prefix of the other *)
  inversion S; subst; [|congruence].
  match goal with Hb : ~ below o n |- _ => rename Hb into Hbel end.
  match goal with Hn : abs st n = None |- _ => rename Hn into Hnone end.
  match goal with Ho : abs st o <> None |- _ => rename Ho into Hsome end.
  apply app_eq_app in Es as (l & [[E1 E2]|[E1 E2]]).
  - (* o = n ++ l : n would be a superior of an existing name *)
    apply abs_none in Hnone. apply Hnone. apply abs_some in Hsome.
    apply (inv_closed _ I o n Hsome). split; [apply name_ok_nonempty; assumption|exists l; exact E1].
  - destruct l as [|x l].
    + rewrite app_nil_r in E1. subst n. contradiction.
    + apply Hbel. exists (x :: l). split; [discriminate|exact E1].
Qed.

(* ---- INBOX *)
Theorem inbox_never_deleted st n : is_inbox n = true -> delete st n = (st, NO).
Proof. intros H. unfold delete. rewrite H. destruct (name_ok n); reflexivity. Qed.

Theorem inbox_always_there os :
  exists r, find_row (fst (run init os)) inbox = Some r /\ r_nosel r = false.
Proof. apply (inv_inbox _ (reachable_inv os)). Qed.

(* ---- a refused command changes nothing *)
Theorem refused_noop st o : snd (step st o) = NO -> fst (step st o) = st.
Proof.
  destruct o; cbn [step].
  - unfold create. destruct (name_ok n); [|reflexivity]. destruct (new_name_ok n); [|reflexivity]. cbn [negb].
    destruct (find_row st n) as [r|]; [destruct (r_nosel r)|]; cbn; intros H; try reflexivity; discriminate H.
  - unfold delete. destruct (name_ok n); [|reflexivity]. destruct (is_inbox n); [reflexivity|]. cbn [negb]; cbv zeta.
    destruct (find_row st (canon n)) as [r|]; [|reflexivity].
    destruct (r_nosel r && has_kids st (canon n)); [reflexivity|]. destruct (r_nosel r && r_sub r); [reflexivity|].
    destruct (has_kids st (canon n) || r_sub r); cbn; intros H; discriminate H.
  - unfold rename. destruct (negb (name_ok o) || negb (name_ok n)); [reflexivity|]. cbv zeta.
    destruct (find_row st (canon o)) as [ro|]; [|reflexivity]. destruct (find_row st n); [reflexivity|].
    destruct (is_inbox o).
    + destruct (create st n) as [st1 [|]]; cbn; intros H; [discriminate H|reflexivity].
    + destruct (negb (new_name_ok n)); [reflexivity|]. destruct (belowb (canon o) n); [reflexivity|].
      destruct (ensure_parent st n) as [st1 [|]]; cbn; intros H; [discriminate H|reflexivity].
  - unfold subscribe. destruct (name_ok n); [|reflexivity]. cbn [negb]; cbv zeta.
    destruct (find_row st (canon n)); cbn; intros H; [discriminate H|reflexivity].
  - unfold subscribe. destruct (name_ok n); [|reflexivity]. cbn [negb]; cbv zeta.
    destruct (find_row st (canon n)); cbn; intros H; [discriminate H|reflexivity].
  - unfold append. destruct (name_ok n); [|reflexivity]. cbn [negb]; cbv zeta.
    destruct (find_row st (canon n)) as [r|]; [destruct (r_nosel r)|]; cbn; intros H; try reflexivity; discriminate H.
  - intros _. apply select_state.
  - cbn. intros H; discriminate H.
Qed.

(* ---- a deleted leaf is gone: not selectable, in no LIST / LSUB answer *)
Theorem deleted_leaf_gone st n0 st' : inv st -> delete st n0 = (st', OK) ->
  has_kids st (canon n0) = false ->
  (forall r, find_row st (canon n0) = Some r -> r_sub r = false) ->
  abs st' (canon n0) = None /\ select st' n0 = (st', NO) /\
  (forall q e, ~ is_probe q -> In e (list_cmd st' q) -> e_name e <> shown (canon n0)).
Proof.
  intros I E Hk Hs.
  assert (I' : inv st') by (pose proof (delete_inv st n0 I) as H; rewrite E in H; exact H).
  assert (Hn : name_ok n0 = true /\ is_inbox n0 = false).
  { unfold delete in E. destruct (name_ok n0); [|discriminate E]. destruct (is_inbox n0); [discriminate E|]. auto. }
  destruct Hn as [Hn Hi].
  assert (A : abs st' (canon n0) = None).
  { unfold delete in E. rewrite Hn, Hi in E. cbn [negb] in E; cbv zeta in E.
    destruct (find_row st (canon n0)) as [r|] eqn:Hr; [|discriminate E].
    rewrite Hk, (Hs r eq_refl), !andb_false_r in E. cbn in E. injection E as <-.
    rewrite abs_remove, neqb_refl. reflexivity. }
  split; [exact A|]. split.
  - unfold select. rewrite Hn. cbn [negb]. rewrite abs_findr in A. rewrite find_row_findr.
    destruct (findr (rows st') (canon n0)); [discriminate A|reflexivity].
  - intros q e Hp He Ee. destruct (list_attrs st' q e I' Hp He) as (n & i & Hni & En & _).
    assert (Hin : In n (names st')) by (apply abs_some; congruence).
    apply abs_none in A. apply A.
    (* the deleted name was a valid name, so the shown form identifies it *)
    assert (Hok : name_ok (canon n0) = true) by (rewrite (canon_not_inbox _ Hi); exact Hn).
    pose proof (name_ok_comps _ (inv_ok _ I' n Hin)) as [_ Cn]. pose proof (name_ok_comps _ Hok) as [_ Cd].
    rewrite En in Ee. unfold shown in Ee. rewrite (canon_not_inbox _ Hi) in *. rewrite Hi in Ee.
    destruct (is_inbox n) eqn:Ib.
    + exfalso. assert (n0 = [INBOX]) by (apply flat_inj; auto using comp_ok_INBOX). subst n0. discriminate Hi.
    + assert (n = n0) by (apply flat_inj; auto). subst n. exact Hin.
Qed.

(* ================================================================== the statements over all histories *)
Theorem list_exact_reachable : forall os lsub ref pat, ~ (ref = [] /\ pat = []) ->
  let st := fst (run init os) in
  let out := list_cmd st (plain lsub ref pat) in
  NoDup (map e_name out) /\
  (forall d, In d (map e_name out) <-> spec_listed (abs st) lsub [ref ++ pat] d).
Proof. intros os lsub ref pat H. exact (list_exact _ lsub ref pat (reachable_inv os) H). Qed.

Theorem list_attrs_reachable : forall os q e, ~ is_probe q ->
  let st := fst (run init os) in
  In e (list_cmd st q) ->
  exists n i, abs st n = Some i /\ e_name e = shown n /\
    (In HasChildren (e_attrs e) <-> has_inferiors (abs st) n) /\
    (In HasNoChildren (e_attrs e) <-> ~ has_inferiors (abs st) n) /\
    (In Noselect (e_attrs e) <-> i_placeholder i = true) /\
    (In Subscribed (e_attrs e) -> i_subscribed i = true).
Proof. intros os q e H st. exact (list_attrs st q e (reachable_inv os) H). Qed.

Theorem rename_subtree_reachable : forall os o n st',
  let st := fst (run init os) in
  is_inbox o = false -> rename st o n = (st', OK) ->
  (forall s, abs st' (n ++ s) = abs st (o ++ s)) /\ (forall s, abs st' (o ++ s) = None).
Proof. intros os o n st' st. exact (rename_subtree st o n st' (reachable_inv os)). Qed.

Theorem inbox_undeletable :
  (forall st n, is_inbox n = true -> delete st n = (st, NO)) /\
  (forall os, exists r, find_row (fst (run init os)) inbox = Some r /\ r_nosel r = false).
Proof. exact (conj inbox_never_deleted inbox_always_there). Qed.

Theorem deleted_leaf_gone_reachable : forall os n0 st',
  let st := fst (run init os) in
  delete st n0 = (st', OK) -> has_kids st (canon n0) = false ->
  (forall r, find_row st (canon n0) = Some r -> r_sub r = false) ->
  abs st' (canon n0) = None /\ select st' n0 = (st', NO) /\
  (forall q e, ~ is_probe q -> In e (list_cmd st' q) -> e_name e <> shown (canon n0)).
Proof. intros os n0 st' st. exact (deleted_leaf_gone st n0 st' (reachable_inv os)). Qed.
